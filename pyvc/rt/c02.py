"""C02 bounded clauses: convergence ladders of the REAL solver against the documented boundary-value problem
    u_t = a(u) u_xx on 0 < x < 1,   u(0, t) = 0 (frac face),   u_x(1, t) = 0 (no flow),   u(x, 0) = 1,
u = (m - m_f)/(m_i - m_f), a = alpha(m)/alpha(m_i), on a uniform time grid linspace(0, 1, nt + 1).

References
  constant diffusivity (ideal reservoir; single-phase reservoir over the synthetic table with constant alpha):
      u  = sum_k 4/((2k+1) pi) sin((2k+1) pi x/2) exp(-((2k+1) pi/2)^2 t)
      rf = 1 - sum_k 8/((2k+1)^2 pi^2) exp(-((2k+1) pi/2)^2 t)        (fraction of the plateau produced;
           ideal: recovery_factor() = rf * (1 - p_f/p_i); single phase: recovery_factor() = rf * (m_i - m_f))
  pressure-dependent diffusivity (tests/data/pvt_gas.csv; thorough also Haynesville and the kinked synthetic table):
      an independent method-of-lines solution written here: 400 intervals, node 0 held at m_f, mirror ghost at x = 1,
      a(u) interpolated from the table by np.interp with the scaling recomputed here (no FlowProperties),
      scipy solve_ivp BDF, rtol 1e-8, atol 1e-11.  The reference is itself checked against the series
      (clause reference.selfcheck, sup error <= 1e-4; observed 2e-6).

Error measure: sup over all nodes and all stored times t >= 0.05 of |u_code - u_ref| (the first backward-Euler step
from discontinuous data never converges in the sup norm, hence the window); recovery: sup over t >= 0.05 of
|rf_code - rf| in units of the plateau.

Node positions.  The code does not say where node j sits; every candidate below is within 1.5/nx of every other,
so each gives first-order convergence and they differ only in the constant.  Observed on the repaired code: the
ideal reservoir is best described by x_j = (j+1)/nx (1.46/nx; the code's own geometry (j+1)/(nx-1) gives 1.49/nx),
the single-phase reservoir by x_j = (j + s)/nx with s = k0/(1+k0), k0 = (dt/dx^2) a(m_f): its frac-face row resets
node 0 to m_f every step, so the effective face position depends on the mesh ratio (s = 2/3 for constant diffusivity
on these ladders, about 0.2 for gas at p_f/p_i = 0.1).  The contract therefore reads: there is ONE mapping in
MAPPINGS, the same for every rung of a ladder, for which  err(nx) <= C/nx  and  err(2nx) <= 0.75 err(nx).
Positions beyond 1 are mirrored (x -> 2 - x), which the no-flow condition makes exact.

Constants (3 x the largest nx * err observed on the repaired code):
  ladder.ideal.field 4.4   ladder.ideal.recovery 3.7   ladder.const.field 1.25   ladder.const.recovery 1.7
  ladder.pvt.field 1.6
Ladders (nx, nt) = (20,200), (40,800), (80,3200) quick, plus (160,12800) thorough; p_f/p_i in {0.1, 0.5, 0.9}.
"""
from __future__ import annotations

import warnings

import numpy as np

from .c01 import P_INITIAL, feed, load_table, make_fluid, table_params
from .common import Bounded

LADDER = ((20, 200), (40, 800), (80, 3200), (160, 12800))
RATIOS = (0.1, 0.5, 0.9)
T_MIN = 0.05
SHRINK = 0.75
C = {"ladder.ideal.field": 4.4, "ladder.ideal.recovery": 3.7, "ladder.const.field": 1.25, "ladder.const.recovery": 1.7, "ladder.pvt.field": 1.6}
MAPPINGS = {
    "(j+1)/(nx-1)": lambda j, n: (j + 1.0) / (n - 1.0),
    "(j+1)/nx": lambda j, n: (j + 1.0) / n,
    "(j+1)/(nx+0.5)": lambda j, n: (j + 1.0) / (n + 0.5),
    "(j+0.5)/nx": lambda j, n: (j + 0.5) / n,
    "(j+0.5)/(nx-0.5)": lambda j, n: (j + 0.5) / (n - 0.5),
    "j/nx": lambda j, n: j / float(n),
    "j/(nx-0.5)": lambda j, n: j / (n - 0.5),
    "j/(nx-1)": lambda j, n: j / (n - 1.0),
}
N_REF = 400
_ref_cache = {}


# ------------------------------------------------------------------------------------------------ references
def series_field(x, t, terms=60):
    lam = (2 * np.arange(terms) + 1) * np.pi / 2
    return np.einsum("k,kx,tk->tx", 2.0 / lam, np.sin(np.outer(lam, x)), np.exp(-np.outer(t, lam**2)))


def series_recovery(t, terms=2000):
    lam = (2 * np.arange(terms) + 1) * np.pi / 2
    return 1.0 - (2.0 / lam**2 * np.exp(-np.outer(t, lam**2))).sum(axis=1)


def own_scaling(tab, p_i):
    """scaled pseudopressure and diffusivity columns recomputed here from the raw table."""
    p = np.asarray(tab["pressure"], dtype=float)
    m = np.asarray(tab["pseudopressure"], dtype=float)
    if "alpha" in tab:
        factor = 1.0 / np.interp(p_i, p, m)
        alpha = np.asarray(tab["alpha"], dtype=float)
    else:
        c, mu, z = (np.asarray(tab[k], dtype=float) for k in ("compressibility", "viscosity", "z-factor"))
        ok = p > 0
        factor = np.interp(p_i, p[ok], 0.5 * c[ok] * mu[ok] * z[ok] / p[ok])
        alpha = 1.0 / (c * mu)
    return p, m * factor, alpha


def mol_reference(table, p_i, p_f, t_eval, n=N_REF):
    """independent fine-grid solution; -> (x (n+1,), U (len(t_eval), n+1), m_f, m_i)."""
    from scipy.integrate import solve_ivp
    from scipy.sparse import diags

    key = (table, p_i, p_f, len(t_eval), float(t_eval[-1]), n)
    if key in _ref_cache:
        return _ref_cache[key]
    p, ms, alpha = own_scaling(load_table(table), p_i)
    m_i = float(np.interp(p_i, p, ms))
    m_f = float(np.interp(p_f, p, ms))
    a_i = float(np.interp(m_i, ms, alpha))
    h = 1.0 / n

    def rhs(_t, u):
        a = np.interp(u, ms, alpha) / a_i
        ext = np.concatenate([[m_f], u, [u[-2]]])
        return a * (ext[:-2] - 2.0 * ext[1:-1] + ext[2:]) / h**2

    sol = solve_ivp(rhs, (0.0, float(t_eval[-1])), np.full(n, m_i), method="BDF", t_eval=t_eval, rtol=1e-8, atol=1e-11,
                    jac_sparsity=diags([np.ones(n - 1), np.ones(n), np.ones(n - 1)], [-1, 0, 1]))
    if not sol.success:
        raise RuntimeError("reference integration failed: " + str(sol.message))
    U = np.concatenate([np.full((len(t_eval), 1), m_f), sol.y.T], axis=1)
    out = (np.arange(n + 1) * h, U, m_f, m_i)
    _ref_cache.clear()  # one reference at a time: nothing is kept beyond the ladder that needs it
    _ref_cache[key] = out
    return out


# --------------------------------------------------------------------------------------------------- ladders
def _fold(x):
    return np.where(x > 1.0, 2.0 - x, x)


def rung(cfg, nx, nt):
    """run the real code at one resolution -> {"field": {mapping: err}, "recovery": err or None}"""
    from bluebonnet.flow import IdealReservoir, SinglePhaseReservoir

    t = np.linspace(0.0, 1.0, nt + 1)
    sel = t >= T_MIN
    p_i, p_f = cfg["p_i"], cfg["p_f"]
    with warnings.catch_warnings(), np.errstate(all="ignore"):
        warnings.simplefilter("ignore")
        if cfg["kind"] == "ideal":
            res = IdealReservoir(nx, p_f, p_i, None)
            res.simulate(t)
            u = np.asarray(res.pseudopressure)[sel]
            rf = np.asarray(res.recovery_factor())[sel] / (1.0 - p_f / p_i)
        else:
            fluid = make_fluid(cfg["table"], p_i)
            res = SinglePhaseReservoir(nx, p_f, p_i, fluid)
            res.simulate(t)
            m_f, m_i = float(fluid.m_scaled_func(p_f)), float(fluid.m_i)
            u = (np.asarray(res.pseudopressure)[sel] - m_f) / (m_i - m_f)
            rf = np.asarray(res.recovery_factor())[sel] / (m_i - m_f)
    out = {"nx": nx, "nt": nt, "field": {}, "recovery": None}
    if not np.isfinite(u).all():
        out["field"] = {name: float("inf") for name in MAPPINGS}
        out["recovery"] = float("inf")
        return out
    j = np.arange(nx)
    if cfg["kind"] in ("ideal", "const"):
        for name, f in MAPPINGS.items():
            out["field"][name] = float(np.abs(u - series_field(_fold(f(j, nx)), t[sel])).max())
        out["recovery"] = float(np.abs(rf - series_recovery(t[sel])).max())
    else:
        x, U, m_f_ref, m_i_ref = mol_reference(cfg["table"], p_i, p_f, t)
        uref = (U[sel] - m_f_ref) / (m_i_ref - m_f_ref)
        for name, f in MAPPINGS.items():
            xj = _fold(f(j, nx))
            # linear interpolation in x on the 400-interval grid, all times at once
            idx = np.clip(np.searchsorted(x, xj) - 1, 0, len(x) - 2)
            w = (xj - x[idx]) / (x[idx + 1] - x[idx])
            out["field"][name] = float(np.abs(u - (uref[:, idx] * (1 - w) + uref[:, idx + 1] * w)).max())
    return out


def ladder(cfg, rungs):
    rows = [rung(cfg, nx, nt) for nx, nt in rungs]
    best = min(MAPPINGS, key=lambda name: max(r["nx"] * r["field"][name] for r in rows))
    return {"config": {k: cfg[k] for k in ("kind", "table", "p_i", "p_f", "ratio")}, "mapping": best,
            "field_error": [r["field"][best] for r in rows], "field_error_by_mapping": {name: [r["field"][name] for r in rows] for name in MAPPINGS},
            "recovery_error": [r["recovery"] for r in rows], "rungs": [list(x) for x in rungs]}


def checks(cfg, lad):
    """-> list of (clause, key, ok, info)"""
    out = []
    quantities = [("field", lad["field_error"])]
    if cfg["kind"] != "pvt":
        quantities.append(("recovery", lad["recovery_error"]))
    for what, errs in quantities:
        clause = "ladder.%s.%s" % (cfg["kind"], what)
        const = C[clause]
        base = dict(cfg, clause=clause, ladder=lad["rungs"], time_grid="uniform: linspace(0, 1, nt + 1)", window="t >= %g" % T_MIN)
        for n, (nx, nt) in enumerate(lad["rungs"]):
            obs = {"err": errs[n], "nx*err": nx * errs[n], "ladder_errors": errs}
            if what == "field":
                obs["mapping"] = lad["mapping"]
            ok = bool(np.isfinite(errs[n]) and errs[n] <= const / nx)
            out.append((clause, (cfg["kind"], cfg["table"], cfg["ratio"], nx, "bound"), ok,
                        {"input": dict(base, rung=[nx, nt], check="bound"), "observed": obs,
                         "required": "err(nx) <= %g/nx%s" % (const, " for one node mapping x_j out of %s (same on every rung)" % sorted(MAPPINGS) if what == "field" else "")}))
            if n:
                ok = bool(np.isfinite(errs[n]) and errs[n] <= SHRINK * errs[n - 1])
                out.append((clause, (cfg["kind"], cfg["table"], cfg["ratio"], nx, "shrink"), ok,
                            {"input": dict(base, rung=[nx, nt], check="shrink"), "observed": dict(obs, previous=errs[n - 1], ratio=errs[n] / errs[n - 1] if errs[n - 1] else None),
                             "required": "err(%d) <= %g * err(%d)" % (nx, SHRINK, lad["rungs"][n - 1][0])}))
    return out


def configs(tier):
    out = []
    for ratio in RATIOS:
        out.append({"kind": "ideal", "table": "ideal", "table_params": None, "p_i": 8000.0, "p_f": ratio * 8000.0, "ratio": ratio})
    for ratio in RATIOS:
        out.append({"kind": "const", "table": "syn_const", "table_params": table_params("syn_const"), "p_i": P_INITIAL["syn_const"], "p_f": ratio * P_INITIAL["syn_const"], "ratio": ratio})
    for table in ("gas",) if tier == "quick" else ("gas", "haynesville", "syn_kinked"):
        for ratio in RATIOS:
            out.append({"kind": "pvt", "table": table, "table_params": table_params(table), "p_i": P_INITIAL[table], "p_f": ratio * P_INITIAL[table], "ratio": ratio})
    return out


def selfcheck():
    t = np.concatenate([[0.0], np.linspace(T_MIN, 1.0, 20)])
    x, U, m_f, m_i = mol_reference("syn_const", 8000.0, 4000.0, t)
    return float(np.abs((U[1:] - m_f) / (m_i - m_f) - series_field(x, t[1:])).max())


def run(ctx):
    rungs = LADDER[:3] if ctx.tier == "quick" else LADDER
    B = Bounded("convergence ladders (nx, nt) = %s on linspace(0,1,nt+1), window t >= %g, p_f/p_i in %s; ideal and constant-diffusivity single-phase against the Fourier series, "
                "pressure-dependent tables against an independent method-of-lines reference (%d intervals, BDF rtol 1e-8); contract err <= C/nx, C = %s, and err(2nx) <= %g err(nx)"
                % ([list(x) for x in rungs], T_MIN, list(RATIOS), N_REF, C, SHRINK))
    records, ladders = [], []
    e = selfcheck()
    records.append(("reference.selfcheck", ("syn_const", 0.5), e <= 1e-4, {"input": {"clause": "reference.selfcheck", "table": "syn_const", "p_i": 8000.0, "p_f": 4000.0, "n_ref": N_REF},
                                                                          "observed": {"sup error of the method-of-lines reference against the series": e}, "required": "<= 1e-4"}))
    for cfg in configs(ctx.tier):
        lad = ladder(cfg, rungs)
        ladders.append(lad)
        records.extend(checks(cfg, lad))
    feed(B, records)
    r = B.result()
    r["constants"] = dict(C, shrink=SHRINK, t_min=T_MIN)
    r["ladders"] = ladders
    r["failed_per_clause"] = {c: sum(1 for x in records if x[0] == c and not x[2]) for c in sorted({x[0] for x in records if not x[2]})}
    return r


def replay(case):
    inp = case.get("input", case)
    clause = inp.get("clause") or case.get("clause")
    if clause == "reference.selfcheck":
        e = selfcheck()
        return {"reproduced": not e <= 1e-4, "observed": e}
    rungs = [tuple(x) for x in inp["ladder"]]
    cfg = {k: inp[k] for k in ("kind", "table", "table_params", "p_i", "p_f", "ratio")}
    lad = ladder(cfg, rungs)
    for c, key, ok, info in checks(cfg, lad):
        if c == clause and info["input"]["rung"] == list(inp["rung"]) and info["input"]["check"] == inp["check"]:
            return {"reproduced": not ok, "clause": c, "observed": info["observed"], "required": info["required"]}
    return {"reproduced": False, "reason": "no such check in this ladder"}
