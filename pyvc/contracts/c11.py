"""C11  Array evaluation equals elementwise scalar evaluation for every dtype.

For every correlation that accepts an array of pressures and every dtype in {float64, float32, int64, int32}
the function is executed on an array of symbolic length and that dtype, and
  <fn>.elementwise[dtype]    f(arr)[j] == f(arr[j]) at a symbolic index, on both sides of the bubble point and AT it
                              (the array masks and the scalar test select the same branch for every real p)
  <fn>.result[dtype]          result dtype floating, shape of the input, input array not written
  int32.no_overflow           for int32 input with 0 <= p <= 30000 and |T| <= 400 no integer operation leaves int32
Strided views, length 0/1 and float32 rounding are outside the array model: BOUNDED run-time contracts.
"""
from __future__ import annotations

from .. import backends as be
from .. import term as tm
from ..symex import ArrV, ObjV
from . import c19
from .common import *  # noqa: F403

LEVEL = "proof"
EXPLANATION = "each array-capable correlation is executed symbolically once per dtype on an array of symbolic length; element j is compared with the scalar call's own extracted term by case split over the branch conditions (including the measure-zero case p == p_b, decided by SMT), and dtype/shape/frame are read off the symbolic result"
TRUSTED = ["numpy dtype rules modelled: *_like inherits the prototype's dtype unless overridden, result_type of an integer array and float32 is float64, storing a real into an integer array truncates, int32 arithmetic wraps (overflow obligation)",
           "boolean-mask selection/assignment model"]
ASSUMPTIONS = ["memory layout (strided views), zero-length arrays and float32 rounding are not modelled: bounded run-time contracts cover them"]

T, api, gg, R, S = sym_args(["T", "api", "gg", "R", "S"])
n = tm.var("n", tm.I)
j = tm.var("j", tm.I)
DT = ("f8", "f4", "i8", "i4")
DTN = {"f8": "float64", "f4": "float32", "i8": "int64", "i4": "int32"}
BOX = dict(OIL_BOX, S=(0.0, 25.0), pj=(15.0, 15000.0), Tpc=(-120.0, 60.0), Ppc=(550.0, 800.0))

FUNCS = [
    ("oil.b_o_Standing", OIL + "b_o_Standing", lambda P: [T, P, api, gg, R]),
    ("oil.solution_gor_Standing", OIL + "solution_gor_Standing", lambda P: [T, P, api, gg, R]),
    ("oil.compressibility_Spivey", OIL + "oil_compressibility_undersat_Spivey", lambda P: [T, P, api, gg, R]),
    ("oil.density_Standing", OIL + "density_Standing", lambda P: [T, P, api, gg, R]),
    ("water.b_water_McCain", WATER + "b_water_McCain", lambda P: [T, P]),
    ("water.b_water_McCain_dp", WATER + "b_water_McCain_dp", lambda P: [T, P]),
    ("water.compressibility", WATER + "compressibility_water_McCain", lambda P: [T, P, S]),
    ("water.density", WATER + "density_water_McCain", lambda P: [T, P, S]),
    ("water.viscosity", WATER + "viscosity_water_McCain", lambda P: [T, P, S]),
]
NP_DT = {"f8": "float64", "f4": "float32", "i8": "int64", "i4": "int32"}


def parr(dt):
    sort = tm.I if dt in ("i8", "i4") else tm.R
    return ArrV((n,), lambda i: tm.app("p_in", i, sort), dt, name="p_in")


def pelem(dt):
    return tm.app("p_in", [j], tm.I if dt in ("i8", "i4") else tm.R)


def real_elementwise(q, argorder, dt, extra_p=()):
    """bounded replay: real array call vs scalar calls for the dtype"""
    import numpy as np
    f = real(q)
    for (T_, api_, gg_, R_, S_) in ((200.0, 35.0, 0.8, 650.0, 3.0), (200, 35, 0.8, 650, 3.0), (150.0, 30.0, 0.9, 60, 10.0), (200, 40, 0.75, 900, 0.0)):
        pb = real(OIL + "pressure_bubblepoint_Standing")(T_, api_, gg_, R_)
        base = np.array([500, 1500, 2500, 3300, 3500, 4000, 6000, 12000], dtype=float)
        if dt == "f8":
            base = np.concatenate([base, [pb, np.nextafter(pb, 0), np.nextafter(pb, 1e9)]])
        elif dt.startswith("i"):
            base = np.concatenate([base, [np.floor(pb), np.ceil(pb)]])
        if "Spivey" in q:
            base = base[base >= pb]
        for order in ("given", "descending", "shuffled"):
            r = _one(f, q, argorder, dt, base, order, (T_, api_, gg_, R_, S_))
            if r is not None:
                return r
    return {"reproduced": False}


def _one(f, q, argorder, dt, base, order, prm):
    import numpy as np
    T_, api_, gg_, R_, S_ = prm
    if True:
        if order == "descending":
            base = np.sort(base)[::-1].copy()
        elif order == "shuffled":
            base = np.random.default_rng(0).permutation(base)
        arr = base.astype(NP_DT[dt])
        before = arr.copy()
        vals = {"T": T_, "api": api_, "gg": gg_, "R": R_, "S": S_}
        try:
            got = f(*[(arr if a == "P" else vals[a]) for a in argorder])
            want = np.array([f(*[(arr[k].item() if a == "P" else vals[a]) for a in argorder]) for k in range(len(arr))], dtype=float)
        except Exception as e:  # noqa: BLE001
            return {"reproduced": True, "input": {"function": q, "dtype": NP_DT[dt], "pressure": arr.tolist(), **vals}, "observed": f"{type(e).__name__}: {e}", "required": "elementwise result"}
        got_a = np.asarray(got)
        tol = 1e-5 if dt == "f4" else 1e-12
        ok = got_a.shape == arr.shape and got_a.dtype.kind == "f" and np.array_equal(arr, before) and np.allclose(got_a.astype(float), want, rtol=tol, atol=0)
        if not ok:
            return {"reproduced": True, "input": {"function": q, "dtype": NP_DT[dt], "pressure": arr.tolist(), **vals}, "observed": {"values": got_a.astype(float).tolist(), "dtype": str(got_a.dtype)},
                    "required": {"values": want.tolist(), "dtype": "floating", "input": "unchanged"}}
    return None


ARGORDER = {
    OIL + "b_o_Standing": ["T", "P", "api", "gg", "R"], OIL + "solution_gor_Standing": ["T", "P", "api", "gg", "R"], OIL + "oil_compressibility_undersat_Spivey": ["T", "P", "api", "gg", "R"],
    OIL + "density_Standing": ["T", "P", "api", "gg", "R"],
    WATER + "b_water_McCain": ["T", "P"], WATER + "b_water_McCain_dp": ["T", "P"], WATER + "compressibility_water_McCain": ["T", "P", "S"], WATER + "density_water_McCain": ["T", "P", "S"], WATER + "viscosity_water_McCain": ["T", "P", "S"],
}


def build(ctx):
    obs = []
    pjv = tm.var("pj")

    def run_array(q, args, dt):
        holder = {}

        def mk():
            P = parr(dt)
            holder["P"] = P
            return args(P), {}

        outs = ctx.engine.run_paths(ctx.engine.func(q), mk, pc=[tm.ge(n, tm.const(1))])
        return outs, holder

    Ti, Ri, apii = tm.var("T", tm.I), tm.var("R", tm.I), tm.var("api", tm.I)

    def int_params(args):
        return lambda P: [{T: Ti, R: Ri, api: apii}.get(x, x) if isinstance(x, tm.T) else x for x in args(P)]

    def elementwise(name, q, args, dt):
        def run():
            v = run1(args, ())
            if v.status == be.PROVED and dt.startswith("i"):
                # python-int temperature / API / GOR together with an integer array (dtype promotion must still be floating)
                v2 = run1(int_params(args), ("T", "R", "api"))
                if v2.status != be.PROVED:
                    v2.detail = "[integer T, API, GOR] " + v2.detail
                    return v2
            return v

        def run1(args, intnames):
            outs, holder = run_array(q, args, dt)
            pe = pelem(dt)
            spec_outs = paths(ctx, q, args(pe))
            if any(o.kind != "return" for o in spec_outs):
                raise sx.OutOfSubset("scalar call raises")
            spec = sx.merge_values([(tm.land(*o.pc), o.value) for o in spec_outs])
            vlast = None
            for o in outs:
                if o.kind != "return":
                    return be.Verdict(be.REFUTED, "CAS", witness={}, detail=f"array call raises {o.value}")
                res = o.value
                res = res.arr if hasattr(res, "arr") else res
                if not isinstance(res, ArrV):
                    return be.Verdict(be.REFUTED, "CAS", witness={}, detail="array call does not return an array")
                facts = [qf(j) for qf in o.qfacts] + list(o.facts) + list(o.pc)
                known_false = []
                for qf in o.qfacts:
                    fj = qf(j)
                    parts = fj.args if fj.op == "or" else (fj,)
                    prem = [p_ for p_ in parts if tm.lnot(p_) in o.pc]
                    if len(parts) > 1 and len(prem) == len(parts) - 1:
                        concl = [p_ for p_ in parts if tm.lnot(p_) not in o.pc][0]
                        if concl.op == "not":
                            known_false.append(concl.args[0])
                sub0 = {c: tm.FALSE for c in known_false}
                unj = {pe: (pjv if dt.startswith("f") else tm.var("pj", tm.I))}
                e2 = tm.subst(tm.subst(res.get(j), sub0), unj)
                s2 = tm.subst(tm.subst(spec, sub0), unj)
                hyp = tm.land(*[tm.lnot(tm.subst(c, unj)) for c in known_false]) if known_false else None
                box = dict(BOX)
                v = equal_by_cases(e2, s2, box, ctx.seed, hyp=hyp, ints=(("pj",) if dt.startswith("i") else ()) + tuple(intnames), facts=[tm.subst(f_, unj) for f_ in facts if isinstance(f_, tm.T) and f_.sort == tm.B])
                if v.status != be.PROVED:
                    v.detail = f"[{DTN[dt]}] f(arr)[j] != f(arr[j]): " + v.detail
                    if v.witness is not None:
                        v.witness["dtype"] = DTN[dt]
                    return with_models(v, o)
                vlast = with_models(v, *outs)
            return vlast
        return run

    def result_shape(name, q, args):
        def run():
            for dt in DT:
                outs, holder = run_array(q, args, dt)
                for o in outs:
                    if o.kind != "return":
                        continue
                    res = o.value
                    res = res.arr if hasattr(res, "arr") else res
                    P = holder["P"]
                    if res.dtype not in ("f8", "f4"):
                        return be.Verdict(be.REFUTED, "STRUCT", witness={"dtype": DTN[dt]}, detail=f"result dtype for {DTN[dt]} input is {DTN.get(res.dtype, res.dtype)}, not floating")
                    if res.ndim != 1 or res.shape[0] is not n or res.mask is not None:
                        return be.Verdict(be.REFUTED, "STRUCT", witness={"dtype": DTN[dt]}, detail="result does not have the input's shape")
                    Pin = o.heap["args"][1]
                    if Pin.version != 0:
                        return be.Verdict(be.REFUTED, "FRAME", witness={"dtype": DTN[dt]}, detail="the input array is written")
                    if res is Pin:
                        return be.Verdict(be.REFUTED, "FRAME", witness={"dtype": DTN[dt]}, detail="the input array itself is returned")
            return with_models(be.Verdict(be.PROVED, "STRUCT", detail="floating dtype, input shape, input not written, for 4 dtypes"), *outs)
        return run

    for name, q, args in FUNCS:
        for dt in DT:
            obs.append(Obligation(f"{name}.elementwise[{DTN[dt]}]", f"{q.split(':')[1]}(…, arr, …)[j] == {q.split(':')[1]}(…, arr[j], …) for {DTN[dt]} arrays of any length, both sides of the bubble point and at it",
                                  elementwise(name, q, args, dt), [q], "CAS+SMT", (lambda w, q=q, dt=dt: real_elementwise(q, ARGORDER[q], dt))))
        obs.append(Obligation(f"{name}.result", f"{q.split(':')[1]}: result dtype floating, shape of the input, input array not written (4 dtypes)", result_shape(name, q, args), [q], "STRUCT",
                              (lambda w, q=q: next((r for r in (real_elementwise(q, ARGORDER[q], d) for d in DT) if r.get("reproduced")), {"reproduced": False}))))

    # ---- Fluid methods for integer arrays (float64 is C19)
    def fluid_int(mname, target, targs):
        def run():
            v = None
            for dt in ("i8", "i4", "f4"):
                f = ctx.engine.func(FLUID + "Fluid." + mname)
                outs = [o_ for o_ in ctx.engine.run_paths(f, lambda: ([c19.fluid_obj(ctx), parr(dt)], {}), pc=[tm.ge(n, tm.const(0))]) if o_.kind != "infeasible"]
                pe = pelem(dt)
                spec = sx.merge_values([(tm.land(*o.pc), o.value) for o in paths(ctx, target, targs(pe)) if o.kind == "return"])
                for o in outs:
                    if o.kind != "return":
                        return be.Verdict(be.REFUTED, "CAS", witness={"dtype": DTN[dt], "path": [str(c_) for c_ in o.pc][:3]}, detail=f"Fluid.{mname} raises {o.value} for an admissible {DTN[dt]} array on the path {[str(c_) for c_ in o.pc][:3]}")
                    res = o.value.arr if hasattr(o.value, "arr") else o.value
                    if not isinstance(res, ArrV) or res.ndim != 1 or (res.shape[0] is not n and be.prove_smt(tm.eq(res.shape[0], n), list(o.pc)).status != be.PROVED):
                        return be.Verdict(be.REFUTED, "STRUCT", witness={"dtype": DTN[dt], "length": [str(c_) for c_ in o.pc if "n" in str(c_)][:2]}, detail=f"Fluid.{mname}: the result does not have the input's shape ({type(res).__name__}, shape {getattr(res, 'shape', '()')}) on the path {[str(c_) for c_ in o.pc][:3]}")
                    if res.dtype not in ("f8", "f4"):
                        return be.Verdict(be.REFUTED, "STRUCT", witness={"dtype": DTN[dt]}, detail=f"result dtype {res.dtype} for {DTN[dt]} input")
                    facts = [qf(j) for qf in o.qfacts] + list(o.facts) + list(o.pc)
                    known_false = []
                    for qf in o.qfacts:
                        fj = qf(j)
                        parts = fj.args if fj.op == "or" else (fj,)
                        prem = [p_ for p_ in parts if tm.lnot(p_) in o.pc]
                        if len(parts) > 1 and len(prem) == len(parts) - 1:
                            concl = [p_ for p_ in parts if tm.lnot(p_) not in o.pc][0]
                            if concl.op == "not":
                                known_false.append(concl.args[0])
                    sub0 = {c: tm.FALSE for c in known_false}
                    unj = {pe: (pjv if dt.startswith("f") else tm.var("pj", tm.I))}
                    v = equal_by_cases(tm.subst(tm.subst(res.get(j), sub0), unj), tm.subst(tm.subst(spec, sub0), unj), dict(BOX), ctx.seed,
                                       hyp=(tm.land(*[tm.lnot(tm.subst(c, unj)) for c in known_false]) if known_false else None), ints=(("pj",) if dt.startswith("i") else ()),
                                       facts=[tm.subst(f_, unj) for f_ in facts if isinstance(f_, tm.T) and f_.sort == tm.B])
                    if v.status != be.PROVED:
                        v.detail = f"[{DTN[dt]}] Fluid.{mname}: " + v.detail
                        return with_models(v, o)
            return with_models(v, *outs)
        return run

    def fluid_replay(mname):
        def rp_(w):
            import numpy as np
            Fl = real(FLUID + "Fluid")
            fl = Fl(200.0, 35.0, 0.8, 650.0, 3.0)
            pb = fl.pressure_bubblepoint()
            for dtn in ("int64", "int32", "float32", "float64"):
                for arr in (np.array([2500]).astype(dtn), np.array([], dtype=dtn)):
                    try:
                        got = np.asarray(getattr(fl, mname)(arr))
                    except Exception as e:  # noqa: BLE001
                        return {"reproduced": True, "input": {"method": mname, "dtype": dtn, "pressure": arr.tolist()}, "observed": f"{type(e).__name__}: {e}", "required": "an array of the input's shape"}
                    if got.shape != arr.shape:
                        return {"reproduced": True, "input": {"method": mname, "dtype": dtn, "pressure": arr.tolist()}, "observed": {"shape": list(got.shape)}, "required": {"shape": list(arr.shape)}}
                arr = np.array([500, 1500, 2500, np.floor(pb), np.ceil(pb), 3500, 6000] + ([pb] if dtn == "float64" else [])).astype(dtn)
                got = np.asarray(getattr(fl, mname)(arr), dtype=float)
                want = np.array([np.asarray(getattr(fl, mname)(np.array([x.item()], dtype=float)))[0] for x in arr], dtype=float)
                if not np.allclose(got, want, rtol=1e-5 if dtn == "float32" else 1e-12):
                    return {"reproduced": True, "input": {"method": mname, "dtype": dtn, "pressure": arr.tolist()}, "observed": got.tolist(), "required": want.tolist()}
            return {"reproduced": False}
        return rp_

    for mname, target, targs in (("oil_FVF", OIL + "b_o_Standing", lambda P: [T, P, api, gg, R]), ("oil_viscosity", OIL + "viscosity_beggs_robinson", lambda P: [T, P, api, gg, R]),
                                 ("water_FVF", WATER + "b_water_McCain", lambda P: [T, P]), ("water_viscosity", WATER + "viscosity_water_McCain", lambda P: [T, P, S])):
        obs.append(Obligation(f"fluid.{mname}.int_and_f32", f"Fluid.{mname}(arr)[j] == the stand-alone correlation at arr[j] with a floating result, for int64 / int32 / float32 arrays", fluid_int(mname, target, targs),
                              [FLUID + "Fluid." + mname, target], "CAS+SMT", fluid_replay(mname)))

    # ---- int32 overflow
    def no_overflow():
        Ti = tm.var("Ti", tm.I)
        goals = []
        outs_all = []
        for name, q, args in FUNCS:
            for Tv in (T, Ti):
                holder = {}
                a2 = lambda P, Tv=Tv: [Tv if x is T else x for x in args(P)]
                outs = ctx.engine.run_paths(ctx.engine.func(q), lambda: (a2(parr("i4")), {}), pc=[tm.ge(n, tm.const(1))])
                for o in outs:
                    if o.kind != "return":
                        continue
                    res = o.value.arr if hasattr(o.value, "arr") else o.value
                    res.get(j)  # materialise element j so that its overflow conditions are recorded
                    for cond, what, pc in o.wd:
                        if "overflow" in what:
                            goals.append((q, tm.implies(tm.land(*pc), cond)))
                    outs_all.append(o)
        if not goals:
            return be.Verdict(be.PROVED, "SMT", detail="no integer operation on the int32 input in any array correlation (all arithmetic is promoted to float first)")
        pe = pelem("i4")
        hyp = [tm.le(tm.const(0), pe), tm.le(pe, tm.const(30000)), tm.le(tm.const(-400), Ti), tm.le(Ti, tm.const(400))]
        for q, gform in goals:
            v = be.prove_smt(gform, hyp, want={"p": pe, "T": Ti})
            if v.status != be.PROVED:
                v.detail = f"{q.split(':')[1]}: an int32 operation can leave the int32 range for 0 <= p <= 30000, |T| <= 400: " + v.detail
                if v.witness is not None:
                    v.witness["function"] = q
                return with_models(v, *outs_all)
        return with_models(v, *outs_all)

    def overflow_replay(w):
        import numpy as np
        for q in ARGORDER:
            f = real(q)
            p = np.array([int(w["p"])] if isinstance(w.get("p"), (int, float)) else [], dtype="int32")
            for arr in (p, np.array([3300, 3500, 12000, 30000], dtype="int32")):
                if arr.size == 0:
                    continue
                if "Spivey" in q:
                    continue
                vals = {"T": int(w.get("T", 200)) if isinstance(w.get("T"), (int, float)) and abs(w.get("T", 0)) > 1 else 200, "api": 35, "gg": 0.8, "R": 650, "S": 3.0}
                got = np.asarray(f(*[(arr if a == "P" else vals[a]) for a in ARGORDER[q]]), dtype=float)
                want = np.array([f(*[(float(x) if a == "P" else vals[a]) for a in ARGORDER[q]]) for x in arr], dtype=float)
                if not np.allclose(got, want, rtol=1e-9):
                    return {"reproduced": True, "input": {"function": q, "dtype": "int32", "pressure": arr.tolist(), **vals}, "observed": got.tolist(), "required": want.tolist()}
        return {"reproduced": False}

    obs.append(Obligation("int32.no_overflow", "for int32 pressure arrays with 0 <= p <= 30000 (and integer temperature up to 400) no integer operation of any array correlation leaves the int32 range", no_overflow,
                          [q for _, q, _ in FUNCS], "SMT", overflow_replay))

    def canary():
        outs, holder = run_array(OIL + "solution_gor_Standing", FUNCS[1][2], "f8")
        pe = pelem("f8")
        o = [x for x in outs if x.kind == "return"][0]
        res = o.value
        spec = sx.merge_values([(tm.land(*x.pc), x.value) for x in paths(ctx, OIL + "solution_gor_Standing", [T, pe + 1, api, gg, R])])
        unj = {pe: pjv}
        return equal_by_cases(tm.subst(res.get(j), unj), tm.subst(spec, unj), dict(BOX), ctx.seed)

    obs.append(Obligation("canary.cas", "CANARY (must be refuted): solution_gor_Standing(arr)[j] == solution_gor_Standing(arr[j] + 1)", canary, [OIL + "solution_gor_Standing"], "CAS", expect=be.REFUTED))
    return obs


def bounded(ctx):
    try:
        from ..rt import c11 as rt
    except ImportError:
        return {"family": "bounded layer not built yet", "evaluations": 0, "distinct": 0, "violations": []}
    r_ = rt.run(ctx)
    from ..rt import containers
    c_ = containers.run(['series'])   # pandas containers: outside the array model, bounded only
    r_["family"] = str(r_.get("family")) + " || " + c_["family"]
    for k_ in ("evaluations", "distinct"):
        r_[k_] = r_.get(k_, 0) + c_[k_]
    r_.setdefault("per_clause", {}).update(c_["per_clause"])
    r_["violations"] = list(r_.get("violations", [])) + c_["violations"]
    return r_
