import functools
import math
import warnings

import numpy as np


def i_where(a, x):
    return np.where(a > x, a, x)


def i_allclose(a, b):
    if np.allclose(a, b):
        return 1.0
    return 0.0


def i_isclose(x, y):
    return 1.0 if np.isclose(x, y) else 0.0


def i_abs_max(a):
    return np.max(np.abs(a))


def i_amax(a):
    return np.amax(a) - np.amin(a)


def i_isfinite(a):
    return np.all(np.isfinite(a))


def i_nan_to_num(a):
    return np.nan_to_num(a)


def i_concat(a, b):
    return np.concatenate([a, b])


def i_concat_scalar(a, x):
    return np.concatenate(([x], a))


def i_arange(n):
    return np.arange(n) * 2.0


def i_linspace(n):
    return np.linspace(0, 1, n)


def i_flip(a):
    return a[::-1]


def i_flip2(a):
    return np.flip(a)


def i_searchsorted(a, x):
    return np.searchsorted(a, x)


def i_sort(a):
    return np.sort(a)


def i_round(a):
    return np.round(a, 3)


def i_floor(x):
    return math.floor(x) + np.floor(x) + np.ceil(x)


def i_len_shape(a):
    return len(a) + a.shape[0] + a.size + np.size(a)


def i_float_int(x):
    return float(x) + int(x)


def i_dict_get(d):
    return d.get("a", 1.0)


def i_try(a):
    try:
        return a[0]
    except IndexError:
        return 0.0


def i_assert(x):
    assert x > 0, "positive"
    return x


def i_warn(x):
    if x < 0:
        warnings.warn("negative", RuntimeWarning, stacklevel=2)
    return x


@functools.lru_cache(maxsize=None)
def i_cached(x):
    return x * 2


def i_use_cached(x):
    return i_cached(x)


def i_astype(a):
    return a.astype(float)


def i_astype32(a):
    return a.astype(np.float32)


def i_mean(a):
    return a.mean() + np.mean(a)


def i_sum_axis(a):
    return np.sum(a, axis=0)


def i_dot(a, b):
    return np.dot(a, b)


def i_prod(a):
    return np.prod(a)


def i_power(a):
    return np.power(a, 2) + np.square(a) + np.sqrt(a) + np.exp(a) + np.log(a) + np.log10(a)


def i_sign(x):
    return np.sign(x)


def i_min_py(x, y):
    return min(x, y) + max(x, y) + abs(x)


def i_ternary_chain(x):
    return 1.0 if x < 0 else (2.0 if x < 1 else 3.0)


def i_listcomp(a):
    return np.array([v * 2 for v in a])


def i_enumerate(a):
    out = np.zeros(len(a))
    for i, v in enumerate(a):
        out[i] = v + i
    return out


def i_zip(a, b):
    return np.array([x + y for x, y in zip(a, b)])


def i_setdefault(d):
    d.setdefault("k", 2.0)
    return d["k"]


def i_isnan(x):
    return np.isnan(x)


def i_tuple_unpack(a):
    lo, hi = a[0], a[-1]
    return hi - lo


def i_augassign(a):
    b = a.copy()
    b *= 2
    b[0] += 1
    return b


def i_cumprod(a):
    return np.cumprod(a)


def i_gradient(a, x):
    return np.gradient(a, x)


def i_trapz(a, x):
    return np.trapz(a, x)


def i_interp(x, xp, fp):
    return np.interp(x, xp, fp)


def i_ones(n):
    return np.ones(n) + np.zeros(n) + np.full(n, 3.0)


def i_hstack(a, b):
    return np.hstack((a, b))


def i_append(a, x):
    return np.append(a, x)


def i_insert(a, x):
    return np.insert(a, 0, x)


def i_tolist(a):
    return a.tolist()


def i_any_gt(a, x):
    if (a > x).any():
        return 1.0
    return 0.0


def i_item(a):
    return a[0].item() if hasattr(a[0], "item") else a[0]


def i_clip_method(a):
    return a.clip(0, 1)


def i_reshape(a):
    return a.reshape(-1)


def i_ravel(a):
    return np.ravel(a)


def i_isscalar(x):
    return np.isscalar(x)


def i_ndim(x):
    return np.ndim(x)


def i_errstate(a):
    with np.errstate(divide="ignore"):
        return 1.0 / a


def i_math(x):
    return math.sqrt(x) + math.exp(x) + math.log(x) + math.pow(x, 2) + math.pi


def i_kw_only(a, *, scale=2.0):
    return a * scale


def i_nested_def(a):
    def inner(v):
        return v * 3
    return inner(a)


def i_lambda_default(a):
    f = lambda v, k=2: v * k  # noqa: E731
    return f(a)


def i_global_const(a):
    return a * _CONST


_CONST = 3.5


# ---- constructs added in later rounds
from typing import NamedTuple


class _Pair(NamedTuple):
    lo: float
    hi: float = 2.0

    def width(self):
        return self.hi - self.lo

    def __call__(self, x):
        return self.lo + x * (self.hi - self.lo)


def i_namedtuple(x, y):
    p = _Pair(lo=x, hi=y)
    lo, hi = p
    return p.width() + p(0.5) + lo - hi + _Pair(x).hi


class _Box:
    def __init__(self, v):
        self.v = v

    @property
    def twice(self):
        return 2 * self.v

    @staticmethod
    def inc(z):
        return z + 1


def i_property(x):
    b = _Box(x)
    return b.twice + _Box.inc(x) + b.inc(x)


def i_partial(a, x):
    f = functools.partial(np.maximum, x)
    return f(a)


def i_diff(a):
    return np.diff(a)


def i_stride(a):
    return a[::2]


def i_stride3(a):
    return a[::3]


def i_clip_none(a, x):
    return np.clip(a, x, None)


def i_asarray_alias(a):
    b = np.asarray(a)
    return b is a


def i_array_copy(a):
    b = np.array(a, copy=True)
    b[0] = 0.0
    return a[0]


def i_argsort_interp(q, xp, fp):
    o = np.argsort(xp)
    return np.interp(q, xp[o], fp[o])


def i_append_loop(a):
    out = []
    for v in a:
        w = v * 2
        out.append(w + 1)
    return np.array(out)


def i_continue(x):
    tot = 0.0
    for k in (1.0, 2.0, 3.0):
        if k == 2.0:
            continue
        tot += k * x
    return tot


def i_break(x):
    tot = 0.0
    for k in (1.0, 2.0, 3.0):
        if k * x > 2.5:
            break
        tot += k
    return tot


def i_kwargs_helper(x, **opts):
    return x + len(opts)


def i_call_kwargs(x):
    return i_kwargs_helper(x) + i_kwargs_helper(x, a=1, b=2)


def i_fstring_key(d):
    k = "a"
    return d[f"{k}"] + d["" + k]


def i_set_ops(d):
    need = {"a"}
    return 1.0 if need <= set(d) and need.issubset(d) else 0.0


def i_astype_int(a):
    return a.astype(int)


def i_full_dtype(n):
    return np.full(n, 2.7, dtype=int)


def i_zeros_f32(n):
    return np.zeros(n, dtype=np.float32) + 0.5


def i_isclose_branch(x, y):
    if np.isclose(x, y, rtol=0.0, atol=0.5):
        return 1.0
    return 0.0


def i_where_scalar(x):
    return np.where(x > 0, x, -x)


def i_concat_three(a, b, x):
    return np.concatenate(([x], a, b))


def i_floor_ceil(x):
    return np.floor(x) + np.ceil(x) * 2 + math.floor(x) * 4 + math.ceil(x) * 8


def i_sign_abs(a):
    return np.sign(a) * np.abs(a)


def i_mean_dot(a, b):
    return a.mean() + np.dot(a, b) + np.mean(b)


def i_while_newton(x):
    r = 1.0
    err = 1.0
    while abs(err) > 1e-9:
        err = r * r - x * x - 2.0
        r = r - err / (2 * r)
    return r
