"""Models of the Python builtins and of the numpy / scipy / pandas / copy entry points the repository
uses: the *assumed contracts* of DESIGN.md 2.5.  Every model used on a path is recorded in
Exec.ghost['models'] so that evidence can list the trusted base per obligation."""
from __future__ import annotations

import ast
from fractions import Fraction

from . import term as tm
from .term import T
from . import symex as sx
from .symex import ArrV, RecArrV, TableV, ObjV, ClassV, FuncV, LibV, LibFn, OpaqueFn, OutOfSubset, Raised, SliceV, RangeV, EnumV, ZipV

INT_RANGE = {"i4": (-(2**31), 2**31 - 1), "i8": (-(2**63), 2**63 - 1)}


def used(ex, name):
    ex.ghost.setdefault("models", set()).add(name)


# =============================================================================================
# scalar arithmetic with well-definedness conditions


class Arith:
    def __init__(self, ex, pc=None):
        self.ex = ex
        self.pc = pc

    def need(self, cond, what):
        cond = tm.lift(cond)
        if cond is tm.TRUE:
            return
        pc = list(self.ex.pc) if self.pc is None else self.pc
        item = (cond, what, pc)
        for c, w, p in self.ex.wd:
            if c is cond and w == what:
                return
        self.ex.wd.append(item)

    def div(self, a, b):
        self.need(tm.ne(b, tm.const(0)), "division by zero")
        return tm.div(a, b)

    def floordiv(self, a, b):
        self.need(tm.ne(b, tm.const(0)), "division by zero")
        return tm.floordiv(a, b)

    def mod(self, a, b):
        self.need(tm.ne(b, tm.const(0)), "modulo by zero")
        return tm.mod(a, b)

    def pow(self, a, b):
        a, b = tm.lift(a), tm.lift(b)
        r = tm.power(a, b)
        if r.op == "rpow":
            # numpy/python: negative base with non-integer exponent -> nan (numpy) / complex (python)
            if b.op == "const":
                if tm.cval(b) > 0:
                    self.need(tm.ge(a, tm.const(0)), "negative base of a fractional power")
                else:
                    self.need(tm.gt(a, tm.const(0)), "non-positive base of a negative fractional power")
            else:
                self.need(tm.lor(tm.gt(a, tm.const(0)), tm.land(tm.eq(a, tm.const(0)), tm.gt(b, tm.const(0)))), "non-positive base of a real power")
        elif r.op == "ipow" and tm.cval(r.args[1]) < 0:
            self.need(tm.ne(a, tm.const(0)), "zero to a negative power")
        return r

    def log(self, a):
        self.need(tm.gt(a, tm.const(0)), "log of a non-positive number")
        return tm.log(a)

    def sqrt(self, a):
        self.need(tm.ge(a, tm.const(0)), "sqrt of a negative number")
        return tm.sqrt(a)

    def binop(self, op, a, b):
        # python/numpy: True == 1, False == 0 in arithmetic
        if isinstance(a, T) and a.sort == tm.B:
            a = tm.ite(a, tm.const(1), tm.const(0))
        if isinstance(b, T) and b.sort == tm.B:
            b = tm.ite(b, tm.const(1), tm.const(0))
        if isinstance(op, ast.Add):
            return tm.add(a, b)
        if isinstance(op, ast.Sub):
            return tm.sub(a, b)
        if isinstance(op, ast.Mult):
            return tm.mul(a, b)
        if isinstance(op, ast.Div):
            return self.div(a, b)
        if isinstance(op, ast.FloorDiv):
            return self.floordiv(a, b)
        if isinstance(op, ast.Mod):
            return self.mod(a, b)
        if isinstance(op, ast.Pow):
            return self.pow(a, b)
        raise OutOfSubset(f"operator {type(op).__name__}")


# =============================================================================================
# element-wise machinery


def result_dtype(vals, real_result):
    dts = [v.dtype for v in vals if isinstance(v, ArrV)]
    scal = [v for v in vals if isinstance(v, T)]
    if real_result or any(d in ("f8",) for d in dts):
        if dts and all(d in ("f4",) for d in dts if d.startswith("f")) and not any(d == "f8" for d in dts) and any(d == "f4" for d in dts) and not any(d in ("i4", "i8") for d in dts):
            return "f4"  # float32 array with python scalars stays float32
        return "f8"
    if any(d == "f4" for d in dts):
        if any(d in ("i4", "i8") for d in dts):
            return "f8"
        return "f4"
    if any(s.sort == tm.R for s in scal):
        return "f8"
    if "i8" in dts:
        return "i8"
    if "i4" in dts:
        return "i4"
    return "f8"


def common_mask(ex, arrs):
    masks = [a.mask for a in arrs if a.mask is not None]
    if not masks:
        return None
    J = tuple(tm.var(f"#probe{k}", tm.I) for k in range(max(a.ndim for a in arrs)))
    ref = None
    refmask = None
    for a in arrs:
        if a.mask is None:
            if getattr(a, "is_empty_literal", False):
                continue
            raise OutOfSubset("operation between a mask-selected array and a full array")
        m = a.mask(J[: a.ndim])
        if ref is None:
            ref, refmask = m, a.mask
        elif m is not ref:
            raise OutOfSubset("operation between arrays selected by different masks")
    return refmask


def ew(ex, f, *vals, real_result=False, dtype=None, intcheck=True):
    """element-wise application with numpy broadcasting of scalars and trailing dimensions"""
    arrs = [v for v in vals if isinstance(v, ArrV)]
    if not arrs:
        return f(Arith(ex), *[tm.lift(v) for v in vals])
    base = max(arrs, key=lambda a: a.ndim)
    for a in arrs:
        if a is base or getattr(a, "is_empty_literal", False):
            continue
        tail = base.shape[base.ndim - a.ndim:]
        for s1, s2 in zip(tail, a.shape):
            if s1 is not s2:
                if tm.is_const(s1) and tm.is_const(s2):
                    raise Raised("ValueError", "operands could not be broadcast together")
                Arith(ex).need(tm.eq(s1, s2), "operands have equal shapes")
    mask = common_mask(ex, arrs)
    real_arrs = [a for a in arrs if not getattr(a, "is_empty_literal", False)]
    if real_arrs:
        base = max(real_arrs, key=lambda a: a.ndim)
    fns = [v.cur() if isinstance(v, ArrV) else None for v in vals]
    ar = Arith(ex, list(ex.pc))
    dt = dtype or result_dtype(vals, real_result)
    nd = base.ndim

    def fn(idx):
        args = []
        for v, g in zip(vals, fns):
            if g is None:
                args.append(tm.lift(v))
            elif getattr(v, "is_empty_literal", False):
                args.append(tm.rconst(0))
            else:
                args.append(g(idx[nd - v.ndim:]))
        r = f(ar, *args)
        if dt in INT_RANGE and intcheck and isinstance(r, T) and r.sort == tm.I and not tm.is_const(r):
            lo, hi = INT_RANGE[dt]
            ar.need(tm.land(tm.le(tm.const(lo), r), tm.le(r, tm.const(hi))), f"{'int32' if dt == 'i4' else 'int64'} overflow")
        return r

    out = ArrV(base.shape, fn, dt, mask=mask)
    labs = {labels_of(a) for a in arrs} - {None}
    if len(labs) > 1:
        raise OutOfSubset("element-wise operation on two pandas Series with different row labels (pandas aligns on labels, not positions)")
    if labs:
        out.labels = next(iter(labs))
    return out


def map1(ex, f, v):
    return ew(ex, lambda ar, x: f(x), v)


def binop(ex, op, a, b):
    if isinstance(op, ast.MatMult):
        return matmul(ex, a, b)
    if isinstance(op, (ast.BitAnd, ast.BitOr)):
        f = tm.land if isinstance(op, ast.BitAnd) else tm.lor
        a2 = a if isinstance(a, (ArrV, T)) else tm.lift(a)
        b2 = b if isinstance(b, (ArrV, T)) else tm.lift(b)
        return ew(ex, lambda ar, x, y: f(x, y), a2, b2, dtype="b")
    if isinstance(a, (list, tuple)) and isinstance(b, (list, tuple)) and isinstance(op, ast.Add):
        return type(a)(list(a) + list(b))
    if isinstance(a, str) and isinstance(b, str) and isinstance(op, ast.Add):
        opaque = ("<str>", "<fstring>", "<repr>")
        return "<str>" if (a in opaque or b in opaque) else a + b
    if isinstance(a, str) or isinstance(b, str):
        if isinstance(op, ast.Add):
            return "<str>"
        raise OutOfSubset("string operation")
    if isinstance(a, TableV) or isinstance(b, TableV):
        raise OutOfSubset("arithmetic on a whole table")
    a, b = num(a), num(b)
    real = isinstance(op, ast.Div)
    return ew(ex, lambda ar, x, y: ar.binop(op, x, y), a, b, real_result=real)


def num(v):
    if isinstance(v, bool):
        return tm.const(int(v))
    if isinstance(v, (T, ArrV)):
        return v
    if isinstance(v, (int, float)):
        return tm.const(v)
    if isinstance(v, list):
        return sx.arr_from_list(v)
    raise OutOfSubset(f"numeric value expected, got {type(v).__name__}")


class TypeOfV:
    """type(x) of a modelled value; only `type(x) is <class>` / `is not` is modelled"""

    def __init__(self, v):
        self.v = v.arr if isinstance(v, MapList) else v


def type_is(ex, tv, cls):
    name = cls.name if isinstance(cls, LibFn) else (cls if isinstance(cls, str) else getattr(cls, "path", None))
    v = tv.v
    if name in ("ndarray", "numpy.ndarray"):
        if isinstance(v, ArrV):
            if labels_of(v) is not None:
                return False   # a pandas Series
            if ex.trail is None:
                raise OutOfSubset("type(x) is ndarray in a context without path enumeration")
            # exactly an ndarray, or an instance of a subclass (masked array, matrix): not known to the contract - both explored
            return ex.decide(tm.var(f"type_is_exactly_ndarray({getattr(v, 'name', 'array')})", tm.B))
        return False
    raise OutOfSubset(f"type(...) is {name}")


def compare(ex, op, a, b):
    if isinstance(op, (ast.Is, ast.IsNot)) and (isinstance(a, TypeOfV) or isinstance(b, TypeOfV)):
        tv, other = (a, b) if isinstance(a, TypeOfV) else (b, a)
        if isinstance(other, TypeOfV):
            raise OutOfSubset("comparison of two type(...) values")
        r = type_is(ex, tv, other)
        return r if isinstance(op, ast.Is) else (not r)
    if isinstance(op, (ast.Is, ast.IsNot)):
        r = (a is b) or (a is None and b is None)
        if isinstance(a, T) and isinstance(b, T):
            r = a is b
        return r if isinstance(op, ast.Is) else not r
    if isinstance(op, (ast.In, ast.NotIn)):
        r = contains(ex, b, a)
        if isinstance(r, T):
            return r if isinstance(op, ast.In) else tm.lnot(r)
        return r if isinstance(op, ast.In) else not r
    if isinstance(a, (set, frozenset)) and isinstance(b, (set, frozenset)) and all(isinstance(x_, str) for x_ in list(a) + list(b)):
        table = {ast.LtE: a <= b, ast.Lt: a < b, ast.GtE: a >= b, ast.Gt: a > b, ast.Eq: a == b, ast.NotEq: a != b}
        if type(op) in table:
            return table[type(op)]
    if isinstance(a, sx.StrSym) or isinstance(b, sx.StrSym):
        sym, other = (a, b) if isinstance(a, sx.StrSym) else (b, a)
        if not isinstance(other, str) or not isinstance(op, (ast.Eq, ast.NotEq)):
            raise OutOfSubset("operation on a symbolic string")
        r = sym.eq_const(ex, other)
        return r if isinstance(op, ast.Eq) else tm.lnot(r)
    if isinstance(a, str) or isinstance(b, str) or a is None or b is None:
        if isinstance(op, ast.Eq):
            return a == b
        if isinstance(op, ast.NotEq):
            return a != b
        raise OutOfSubset("ordering of non-numbers")
    if isinstance(a, (set, frozenset)) or isinstance(b, (set, frozenset)):
        if isinstance(op, ast.Eq):
            return a == b
        if isinstance(op, ast.NotEq):
            return a != b
    sym = {ast.Lt: "<", ast.LtE: "<=", ast.Gt: ">", ast.GtE: ">=", ast.Eq: "==", ast.NotEq: "!="}[type(op)]
    if isinstance(a, (tuple, list)) and isinstance(b, (tuple, list)) and sym in ("==", "!="):
        if len(a) != len(b):
            return sym == "!="
        parts = [compare(ex, ast.Eq(), x, y) for x, y in zip(a, b)]
        r = tm.land(*[tm.lift(p) for p in parts])
        return r if sym == "==" else tm.lnot(r)
    a, b = num(a), num(b)
    r = ew(ex, lambda ar, x, y: tm.cmp(sym, x, y), a, b, dtype="b")
    if isinstance(r, T) and r.op == "bool":
        return r.args[0]
    return r


def contains(ex, container, item):
    if isinstance(container, TableV):
        return item in container.cols
    if isinstance(container, (dict, set, frozenset)):
        return item in container
    if isinstance(container, (list, tuple)):
        if isinstance(item, sx.StrSym):
            return tm.lor(*[item.eq_const(ex, c) for c in container if isinstance(c, str)])
        if isinstance(item, str) or item is None:
            return item in container
        for x in container:
            if isinstance(x, T) and isinstance(item, T):
                c = tm.eq(x, item)
                if c is tm.TRUE:
                    return True
                if c is not tm.FALSE:
                    raise OutOfSubset("symbolic membership test")
            elif x == item:
                return True
        return False
    if isinstance(container, RecArrV):
        return item in container.fields
    raise OutOfSubset(f"membership in {type(container).__name__}")


def matmul(ex, a, b):
    a, b = num(a), num(b)
    if not (isinstance(a, ArrV) and isinstance(b, ArrV)) or b.ndim != 1:
        raise OutOfSubset("matmul shape")
    k = b.static_len()
    if k is None or a.static_len(a.ndim - 1) != k:
        if k is not None and a.static_len(a.ndim - 1) is not None:
            raise Raised("ValueError", "matmul dimension mismatch")
        raise OutOfSubset("matmul with a symbolic inner dimension")
    fa, fb = a.cur(), b.cur()
    if a.ndim == 1:
        return tm.add(*[tm.mul(fa((tm.const(j),)), fb((tm.const(j),))) for j in range(k)])

    def fn(idx):
        return tm.add(*[tm.mul(fa(tuple(idx) + (tm.const(j),)), fb((tm.const(j),))) for j in range(k)])

    return ArrV(a.shape[:-1], fn, "f8", mask=a.mask)


def map_over(ex, arr, body):
    """[body(x) for x in arr] for a symbolic-length 1-D array: the body is evaluated once at a
    symbolic index (independent iterations), nested calls merged."""
    if arr.ndim != 1:
        raise OutOfSubset("map over a multi-dimensional array")
    J = ex.fresh_var("J", tm.I)
    elt = arr.get(J)
    ex.merge_mode += 1
    saved_trail = ex.trail
    try:
        val = body(elt)
    finally:
        ex.merge_mode -= 1
        ex.trail = saved_trail
    used(ex, "map: independent iterations evaluated at a symbolic index")
    if isinstance(val, (list, tuple)):
        cols = [tm.lift(v) for v in val]

        def fn2(idx):
            return sx._select([tm.subst(c, {J: idx[0]}) for c in cols], idx[1], lambda x: x)

        return MapList(ArrV((arr.shape[0], tm.const(len(cols))), fn2, "f8", mask=arr.mask))
    if not isinstance(val, T):
        raise OutOfSubset(f"map body returns {type(val).__name__}")

    def fn(idx):
        return tm.subst(val, {J: idx[0]})

    return MapList(ArrV(arr.shape, fn, "i8" if val.sort == tm.I else "f8", mask=arr.mask))


def map_over_records(ex, rec, body):
    names = list(rec.fields)
    first = rec.fields[names[0]]
    J = ex.fresh_var("J", tm.I)
    elt = sx.RecordV(names, [rec.fields[n].get(J) for n in names])
    ex.merge_mode += 1
    try:
        val = body(elt)
    finally:
        ex.merge_mode -= 1
    used(ex, "map: independent iterations evaluated at a symbolic index")
    if not isinstance(val, T):
        raise OutOfSubset("map body over records returns a non-scalar")
    return MapList(ArrV(first.shape, lambda idx: tm.subst(val, {J: idx[0]}), "i8" if val.sort == tm.I else "f8"))


class MapList:
    """python list produced by a comprehension over a symbolic array (kept as an array)"""

    def __init__(self, arr):
        self.arr = arr


def as_array(ex, v, dtype=None):
    if isinstance(v, MapList):
        return v.arr
    if isinstance(v, ArrV):
        return v
    if isinstance(v, (list, tuple)):
        items = [x.arr if isinstance(x, MapList) else x for x in v]
        return sx.arr_from_list(items, dtype)
    if isinstance(v, T):
        return v
    if isinstance(v, (int, float)):
        return tm.const(v)
    raise OutOfSubset(f"array from {type(v).__name__}")


# =============================================================================================
# indexing


def norm_index(i, n):
    """python index term -> non-negative index term for a dimension of length n"""
    i = tm.lift(i)
    if tm.is_const(i) and tm.cval(i) < 0:
        return tm.add(n, i)
    return i


def getitem(ex, o, idx):
    if isinstance(o, MapList):
        o = o.arr
    if isinstance(o, (list, tuple)):
        if isinstance(idx, SliceV):
            lo = None if idx.lo is None else int(tm.cval(idx.lo))
            hi = None if idx.hi is None else int(tm.cval(idx.hi))
            return o[lo:hi]
        idx = tm.lift(idx)
        if tm.is_const(idx):
            j = int(tm.cval(idx))
            if not (-len(o) <= j < len(o)):
                raise Raised("IndexError")
            return o[j]
        if all(isinstance(x, T) for x in o):
            return sx._select(list(o), idx, lambda x: x)
        raise OutOfSubset("symbolic index into a python sequence")
    if isinstance(o, dict):
        if isinstance(idx, str) and idx in ("<str>", "<fstring>", "<repr>"):
            raise OutOfSubset("mapping lookup with a computed string key")
        if idx not in o:
            raise Raised("KeyError", str(idx))
        return o[idx]
    if isinstance(o, TableV):
        return table_getitem(ex, o, idx)
    if isinstance(o, RecArrV):
        if isinstance(idx, str):
            if idx not in o.fields:
                raise Raised("ValueError", "no field")
            return o.fields[idx]
        raise OutOfSubset("record array index")
    if isinstance(o, ObjV) and o.cls.kind == "namedtuple":
        return o.fields[o.cls.field_names[int(tm.cval(idx))]]
    if isinstance(o, ObjV) and "__getitem_model__" in o.fields:
        return o.fields["__getitem_model__"](ex, idx)
    if isinstance(o, ArrV):
        return arr_getitem(ex, o, idx)
    if hasattr(o, "getitem_model"):
        return o.getitem_model(ex, idx)
    raise OutOfSubset(f"subscript of {type(o).__name__}")


def _slice_bounds(s, n):
    if s.step is not None and not (tm.is_const(s.step) and tm.cval(s.step) == 1):
        raise OutOfSubset("strided slice")
    lo = tm.const(0) if s.lo is None else norm_index(s.lo, n)
    hi = n if s.hi is None else norm_index(s.hi, n)
    return lo, hi


def arr_getitem(ex, a, idx):
    if isinstance(idx, SliceV) and idx.lo is None and idx.hi is None and idx.step is not None and tm.is_const(tm.lift(idx.step)) and tm.cval(tm.lift(idx.step)) == -1 and a.ndim == 1 and a.mask is None:
        from . import libmodels_ext as lx
        return lx.np_flip(ex, a)
    if isinstance(idx, SliceV) and idx.lo is None and idx.hi is None and idx.step is not None and a.ndim == 1 and a.mask is None and not (tm.is_const(tm.lift(idx.step)) and tm.cval(tm.lift(idx.step)) == 1):
        # a[::s] with a positive (possibly symbolic) stride: ceil(n / s) elements, element k is a[k s]; a view of a
        st_ = tm.lift(idx.step)
        Arith(ex).need(tm.ge(st_, tm.const(1)), "positive slice step")
        used(ex, "a[::s]: ceil(len(a)/s) elements, element k is a[k*s]")
        f = a.cur()
        n_ = a.shape[0]
        m_ = tm.floordiv(tm.add(n_, tm.sub(st_, tm.const(1))), st_)
        v = ArrV((m_,), lambda i_: f((tm.mul(i_[0], st_),)), a.dtype)
        v.view_of = (a, lambda i_, st_=st_: (tm.mul(i_[0], st_),))
        return v
    if isinstance(idx, PermV):
        if a.ndim != 1 or a.mask is not None or (a.shape[0] is not idx.key.shape[0]):
            raise OutOfSubset("permutation index of this operand")
        return PermArrV(a, idx)
    if isinstance(idx, ArrV) and idx.dtype == "b":
        if a.mask is not None or a.ndim != 1:
            raise OutOfSubset("mask of a masked / multi-dimensional array")
        m = idx.cur()
        v = ArrV(a.shape, a.cur(), a.dtype, mask=lambda i: m(i))
        v.mask_src = idx
        return v
    if not isinstance(idx, tuple):
        idx = (idx,)
    if any(ix is None or ix is Ellipsis or isinstance(ix, LibV) for ix in idx):
        raise OutOfSubset("np.newaxis / Ellipsis in an index")
    if len(idx) > a.ndim:
        raise Raised("IndexError", "too many indices")
    if a.mask is not None:
        raise OutOfSubset("indexing a mask-selected array")
    # build index map from result index to base index
    fixed = []
    shape = []
    for k, ix in enumerate(idx):
        n = a.shape[k]
        if isinstance(ix, SliceV):
            lo, hi = _slice_bounds(ix, n)
            fixed.append(("slice", lo))
            shape.append(tm.sub(hi, lo))
        else:
            i = norm_index(num(ix), n)
            if not isinstance(i, T):
                raise OutOfSubset("fancy index")
            Arith(ex).need(tm.land(tm.le(tm.const(0), i), tm.lt(i, n)), "index in bounds")
            fixed.append(("int", i))
    for k in range(len(idx), a.ndim):
        fixed.append(("slice", tm.const(0)))
        shape.append(a.shape[k])

    def imap(ridx):
        out = []
        r = list(ridx)
        for kind, v in fixed:
            if kind == "int":
                out.append(v)
            else:
                out.append(tm.add(v, r.pop(0)))
        return tuple(out)

    if not shape:
        return a.cur()(imap(()))
    v = ArrV(tuple(shape), None, a.dtype)
    root, rmap = (a, imap)
    if a.view_of is not None:
        b, bmap = a.view_of
        root, rmap = b, (lambda ridx, bmap=bmap: bmap(imap(ridx)))
    v.view_of = (root, rmap)
    return v


def setitem(ex, o, idx, val):
    if isinstance(o, list):
        j = int(tm.cval(tm.lift(idx)))
        if not (-len(o) <= j < len(o)):
            raise Raised("IndexError")
        o[j] = val
        return
    if isinstance(o, dict):
        o[idx] = val
        return
    if isinstance(o, TableV):
        if not isinstance(idx, str):
            raise OutOfSubset("table store")
        v = as_array(ex, val)
        if isinstance(v, T):
            n = next(iter(o.cols.values())).shape[0] if o.cols else tm.const(0)
            v = ArrV((n,), lambda i, v=v: v, "i8" if v.sort == tm.I else "f8")
        if o.kind == "DataFrame" and labels_of(v) is not None and labels_of(v) != o.index_id:
            raise OutOfSubset("frame[column] = series whose row labels are another frame's: pandas aligns the store on labels (positional only when both indices happen to be equal)")
        o.cols = dict(o.cols)
        o.cols[idx] = v
        o.version += 1
        return
    if isinstance(o, ArrV):
        return arr_setitem(ex, o, idx, val)
    if isinstance(o, RecArrV) and isinstance(idx, str):
        if idx not in o.fields:
            raise Raised("ValueError", "no field of name " + idx)
        old = o.fields[idx]
        v = as_array(ex, val)
        if isinstance(old, ArrV):
            # rec[name] = values: the field's contents are overwritten in place (same record array object)
            if isinstance(v, ArrV):
                g = v.cur()
                old.store(lambda i: tm.TRUE, g)
            elif isinstance(v, T):
                old.store(lambda i: tm.TRUE, lambda i, v=v: v)
            else:
                raise OutOfSubset("record field store of this value")
            return
        raise OutOfSubset("store into a non-array record field")
    raise OutOfSubset(f"subscript store on {type(o).__name__}")


def arr_setitem(ex, a, idx, val):
    val = as_array(ex, val) if not isinstance(val, (T, ArrV)) else val
    if isinstance(idx, ArrV) and idx.dtype == "b":
        m = idx.cur()
        target, tmap = (a, lambda i: i)
        if a.view_of is not None:
            raise OutOfSubset("masked store through a view")
        if isinstance(val, ArrV):
            if val.mask is None:
                if getattr(val, "is_empty_literal", False):
                    vf = lambda i: tm.rconst(0)
                else:
                    raise OutOfSubset("masked store of a full array")
            else:
                J = (tm.var("#probe0", tm.I),)
                if val.mask(J) is not m(J):
                    raise OutOfSubset("masked store of an array selected by another mask")
                vf = val.cur()
        else:
            vf = lambda i, v=tm.lift(val): v
        a.store(lambda i: m(i), vf)
        return
    if not isinstance(idx, tuple):
        idx = (idx,)
    base, bmap = a, None
    if a.view_of is not None:
        base, bmap = a.view_of
    conds = []
    sl = []
    for k, ix in enumerate(idx):
        n = a.shape[k]
        if isinstance(ix, SliceV):
            lo, hi = _slice_bounds(ix, n)
            conds.append(("slice", lo, hi))
        else:
            i = norm_index(num(ix), n)
            Arith(ex).need(tm.land(tm.le(tm.const(0), i), tm.lt(i, n)), "index in bounds")
            conds.append(("int", i))
    for k in range(len(idx), a.ndim):
        conds.append(("slice", tm.const(0), a.shape[k]))
    if bmap is not None:
        # store through a simple view (row of a matrix): translate to base coordinates
        if not all(c[0] == "int" for c in conds) and not isinstance(val, T):
            raise OutOfSubset("slice store through a view")
        if all(c[0] == "int" for c in conds):
            tgt = bmap(tuple(c[1] for c in conds))
            v = tm.lift(val)
            base.store(lambda i: tm.land(*[tm.eq(x, y) for x, y in zip(i, tgt)]), lambda i: v)
            return
        raise OutOfSubset("store through a view")

    def pred(i):
        ps = []
        for x, c in zip(i, conds):
            if c[0] == "int":
                ps.append(tm.eq(x, c[1]))
            else:
                ps.append(tm.land(tm.le(c[1], x), tm.lt(x, c[2])))
        return tm.land(*ps)

    if isinstance(val, ArrV):
        vfn = val.cur()
        # result sub-index: positions of slice dims, offset removed
        slice_dims = [k for k, c in enumerate(conds) if c[0] == "slice"]
        if val.ndim > len(slice_dims):
            raise Raised("ValueError", "could not broadcast")
        use = slice_dims[len(slice_dims) - val.ndim:]

        def vf(i):
            return vfn(tuple(tm.sub(i[k], conds[k][1]) for k in use))

        for k, s in zip(use, val.shape):
            want = tm.sub(conds[k][2], conds[k][1])
            if want is not s:
                Arith(ex).need(tm.eq(want, s), "shapes match in slice assignment")
    else:
        v = tm.lift(val)
        vf = lambda i: v
    a.store(pred, vf)


# =============================================================================================
# tables (dict of arrays / DataFrame)


def series_of(t, col):
    """a column of a pandas DataFrame is a Series carrying the frame's row labels"""
    if t.kind == "DataFrame" and isinstance(col, ArrV):
        col.labels = t.index_id
    return col


def labels_of(v):
    return getattr(v, "labels", None) if isinstance(v, ArrV) else None


def table_getitem(ex, t, idx):
    if isinstance(idx, str) and idx in ("<str>", "<fstring>", "<repr>"):
        raise OutOfSubset("column lookup with a computed string key")
    if isinstance(idx, str):
        if idx not in t.cols:
            raise Raised("KeyError", idx)
        return series_of(t, t.cols[idx])
    if isinstance(idx, list) and all(isinstance(x, str) for x in idx):
        for x in idx:
            if x not in t.cols:
                raise Raised("KeyError", x)
        return TableV({x: t.cols[x] for x in idx}, t.kind, t.index_id)
    if isinstance(idx, ArrV) and idx.dtype == "b":
        if t.kind != "DataFrame":
            raise Raised("KeyError")
        used(ex, "pandas: df[mask] is a new table holding exactly the rows whose mask is true, in order (its length and rows are symbolic; the filter is recorded)")
        flt = ex.ghost.setdefault("row_filters", [])
        kf = len(flt)
        m = ex.fresh_var(f"nrows_sel{kf}", tm.I)
        ex.facts.append(tm.ge(m, tm.const(0)))
        cols = {}
        for cname, a in t.cols.items():
            cols[cname] = ArrV((m,), (lambda i, cname=cname, kf=kf: tm.app(f"sel{kf}[{cname}]", i, tm.R)), a.dtype, name=f"sel{kf}[{cname}]")
        new = TableV(cols, t.kind)
        flt.append({"source": t, "mask": idx.cur(), "result": new, "nrows": m, "id": kf})
        return new
    raise OutOfSubset("table index")


# =============================================================================================
# attribute access on modelled values


def lib_getattr(ex, o, name):
    if isinstance(o, MapList):
        o = o.arr
    if isinstance(o, ArrV):
        if name == "shape":
            return tuple(o.shape)
        if name == "copy":
            return LibFn("ndarray.copy", lambda ex: arr_copy(ex, o))
        if name == "sum":
            return LibFn("ndarray.sum", lambda ex, axis=None: np_sum(ex, o, axis))
        if name == "max":
            return LibFn("ndarray.max", lambda ex: np_reduce(ex, o, "max"))
        if name == "min":
            return LibFn("ndarray.min", lambda ex: np_reduce(ex, o, "min"))
        if name == "dtype":
            return DTypeV(o.dtype)
        if name in ("astype", "mean", "any", "all", "clip", "reshape", "ravel", "flatten", "dot"):
            from . import libmodels_ext as lx
            if name == "astype":
                return LibFn("ndarray.astype", lambda ex, dt, **kw: lx.arr_astype(ex, o, dt, **kw))
            if name == "mean":
                return LibFn("ndarray.mean", lambda ex, axis=None: lx.np_mean(ex, o, axis))
            if name == "any":
                return LibFn("ndarray.any", lambda ex: np_any(ex, o))
            if name == "all":
                return LibFn("ndarray.all", lambda ex: lx.np_all(ex, o))
            if name == "clip":
                return LibFn("ndarray.clip", lambda ex, lo=None, hi=None, **kw: np_clip(ex, o, lo, hi, **kw))
            if name == "dot":
                return LibFn("ndarray.dot", lambda ex, other: lx.np_dot(ex, o, other))
            if name == "reshape":
                def reshape(ex, *shape):
                    shp = shape[0] if len(shape) == 1 else shape
                    if o.ndim == 1 and (isinstance(shp, (int, T)) and tm.is_const(tm.lift(shp)) and tm.cval(tm.lift(shp)) == -1 or (isinstance(shp, (tuple, list)) and len(shp) == 1 and tm.is_const(tm.lift(shp[0])) and tm.cval(tm.lift(shp[0])) == -1)):
                        return o
                    raise OutOfSubset("reshape other than 1-D -> (-1,)")
                return LibFn("ndarray.reshape", reshape)
            return LibFn("ndarray." + name, lambda ex, *a_, **k_: lx.np_ravel(ex, o))
        if name == "size":
            return np_size(ex, o)
        if name == "ndim":
            return tm.const(o.ndim)
        raise OutOfSubset(f"ndarray.{name}")
    if isinstance(o, TableV):
        if name == "copy":
            def cp(ex, deep=True):
                used(ex, "pandas/dict .copy(): DataFrame deep copy, dict shallow copy")
                return o.copy(deep=(o.kind == "DataFrame"))
            return LibFn("table.copy", cp)
        if name == "columns" and o.kind == "DataFrame":
            return list(o.cols.keys())
        if name == "dropna" and o.kind == "DataFrame":
            def dropna(ex, **kw):
                if kw:
                    raise OutOfSubset(f"dropna options {sorted(kw)}")
                used(ex, "pandas DataFrame.dropna(): keeps exactly the rows without a missing value in ANY column")
                cols_ = list(o.cols.values())
                fns = [a.cur() for a in cols_]
                mask = ArrV(cols_[0].shape, lambda idx: tm.land(*[tm.app("notna", [g(idx)], tm.B) for g in fns]), "b")
                return table_getitem(ex, o, mask)
            return LibFn("DataFrame.dropna", dropna)
        if name == "to_records" and o.kind == "DataFrame":
            return LibFn("DataFrame.to_records", lambda ex, index=True: RecArrV(dict(o.cols)))
        if name in ("keys",):
            return LibFn("table.keys", lambda ex: list(o.cols.keys()))
        if name == "items":
            return LibFn("table.items", lambda ex: list(o.cols.items()))
        if name == "update" and o.kind == "dict":
            def upd(ex, other):
                o.cols = dict(o.cols)
                o.cols.update(other.cols if isinstance(other, TableV) else other)
                o.version += 1
            return LibFn("dict.update", upd)
        if name == "__repr__":
            return LibFn("repr", lambda ex: "<repr>")
        if o.kind == "DataFrame" and name in o.cols:
            used(ex, "pandas: attribute access to a column")
            return series_of(o, o.cols[name])
        # an attribute the real container has but this model does not: outside the subset (never "raises AttributeError")
        if o.kind == "dict" and hasattr(dict, name):
            raise OutOfSubset("dict." + name)
        if o.kind == "DataFrame":
            try:
                import pandas as _pd
                known = hasattr(_pd.DataFrame, name)
            except Exception:  # noqa: BLE001
                known = True
            if known:
                raise OutOfSubset("DataFrame." + name)
        raise Raised("AttributeError", name)
    if isinstance(o, dict):
        if name == "update":
            return LibFn("dict.update", lambda ex, other: o.update(other))
        if name == "items":
            return LibFn("dict.items", lambda ex: list(o.items()))
        if name == "keys":
            return LibFn("dict.keys", lambda ex: list(o.keys()))
        if name == "values":
            return LibFn("dict.values", lambda ex: list(o.values()))
        if name == "get":
            return LibFn("dict.get", lambda ex, k, d=None: o.get(k, d))
        if name == "copy":
            return LibFn("dict.copy", lambda ex: dict(o))
        if name == "pop":
            return LibFn("dict.pop", lambda ex, k, *d: o.pop(k, *d))
        if name == "setdefault":
            return LibFn("dict.setdefault", lambda ex, k, d=None: o.setdefault(k, d))
        if hasattr(dict, name):
            raise OutOfSubset("dict." + name)
        raise Raised("AttributeError", name)
    if isinstance(o, sx.DictProxy):
        if name == "pop":
            def pop(ex, k, *d):
                if k in o.obj.fields:
                    o.obj.writes.append(("del", k))
                    ex.note_write(o.obj)
                    return o.obj.fields.pop(k)
                if d:
                    return d[0]
                raise Raised("KeyError")
            return LibFn("__dict__.pop", pop)
        raise OutOfSubset("__dict__." + name)
    if isinstance(o, (set, frozenset)):
        if name == "intersection":
            def inter(ex, other):
                keys = set(ex.iterate(other)) if not isinstance(other, (set, frozenset)) else other
                return set(o) & set(keys)
            return LibFn("set.intersection", inter)
        if name in ("issubset", "issuperset", "union", "difference"):
            def setop(ex, other, name=name):
                keys = set(ex.iterate(other)) if not isinstance(other, (set, frozenset)) else set(other)
                return {"issubset": set(o) <= keys, "issuperset": set(o) >= keys, "union": set(o) | keys, "difference": set(o) - keys}[name]
            return LibFn("set." + name, setop)
        raise OutOfSubset("set." + name)
    if isinstance(o, str):
        if name == "join":
            return LibFn("str.join", lambda ex, it: "<str>")
        if name in ("strip", "lower", "upper"):
            if o in ("<str>", "<fstring>"):
                raise OutOfSubset("string method on an opaque string")
            return LibFn("str." + name, lambda ex, *a: getattr(o, name)(*a))
        raise OutOfSubset("str." + name)
    if isinstance(o, list):
        if name == "append":
            return LibFn("list.append", lambda ex, v: o.append(v))
        raise OutOfSubset("list." + name)
    if isinstance(o, tuple) and name in ("x",):
        raise OutOfSubset("tuple attr")
    if hasattr(o, "getattr_model"):
        return o.getattr_model(ex, name)
    if isinstance(o, T):
        raise OutOfSubset(f"attribute {name} of a scalar")
    raise OutOfSubset(f"attribute {name} of {type(o).__name__}")


class DTypeV:
    def __init__(self, code):
        self.code = code

    def getattr_model(self, ex, name):
        if name == "itemsize":
            return tm.const({"f8": 8, "f4": 4, "i8": 8, "i4": 4, "i2": 2, "b": 1}[self.code])
        if name == "kind":
            return "f" if self.code.startswith("f") else ("i" if self.code.startswith("i") else "b")
        raise OutOfSubset(f"dtype attribute {name}")


def arr_copy(ex, a):
    f = a.cur()
    return ArrV(a.shape, f, a.dtype, mask=a.mask)


def np_size(ex, a):
    if isinstance(a, MapList):
        a = a.arr
    if isinstance(a, T):
        return tm.const(1)
    if isinstance(a, (list, tuple)):
        return tm.const(len(a))
    if a.mask is not None:
        # number of selected elements: symbolic; zero iff no element is selected
        cnt = ex.fresh_var("count", tm.I)
        src = a
        ex.facts.append(tm.ge(cnt, tm.const(0)))
        m = a.mask
        ex.qfacts.append(lambda j, cnt=cnt, m=m: tm.implies(tm.eq(cnt, tm.const(0)), tm.lnot(m((j,)))))
        return cnt
    r = a.shape[0]
    for s in a.shape[1:]:
        r = tm.mul(r, s)
    return r


def np_sum(ex, a, axis=None):
    a = as_array(ex, a)
    if isinstance(a, T):
        return a
    if axis is not None:
        axis = int(tm.cval(tm.lift(axis)))
    if a.ndim == 1 or axis is None:
        n = a.static_len()
        if a.ndim == 1 and n is not None and a.mask is None:
            f = a.cur()
            return tm.add(*[f((tm.const(j),)) for j in range(n)]) if n else tm.rconst(0)
        if a.ndim == 1:
            return SumV.make(ex, a)
        raise OutOfSubset("sum of a multi-dimensional symbolic array")
    if a.ndim == 2 and axis == 1:
        k = a.static_len(1)
        f = a.cur()
        if k is not None:
            return ArrV((a.shape[0],), lambda idx: tm.add(*[f((idx[0], tm.const(j))) for j in range(k)]), "f8")
        rows = a

        def fn(idx):
            return SumV.make(ex, sx.row_view(rows, idx[0]))

        return ArrV((a.shape[0],), fn, "f8")
    raise OutOfSubset("sum axis")


class SumV:
    """finite sum over a symbolic-length array as an uninterpreted term with a registered definition
    (ghost['sums'][name] = (length, element function)); lemmas about sums instantiate it."""

    @staticmethod
    def make(ex, a):
        f = a.cur()
        J = tm.var("#sumidx", tm.I)
        body = f((J,))
        key = ("sum", a.shape[0], body)
        reg = ex.ghost.setdefault("sums", {})
        for name, (k, _, _) in reg.items():
            if k == key:
                return tm.app(name, (), tm.R)
        name = f"Σ{len(reg)}"
        reg[name] = (key, a.shape[0], lambda j, body=body, J=J: tm.subst(body, {J: j}))
        return tm.app(name, (), tm.R)


def np_reduce(ex, a, kind):
    a = as_array(ex, a)
    if isinstance(a, T):
        return a
    if a.ndim != 1:
        raise OutOfSubset("reduce of multi-dim array")
    n = a.static_len()
    f = a.cur()
    op = tm.minimum if kind == "min" else tm.maximum
    if n is not None:
        if n == 0:
            raise Raised("ValueError", "empty reduction")
        r = f((tm.const(0),))
        for j in range(1, n):
            r = op(r, f((tm.const(j),)))
        return r
    # symbolic length: fresh constant with its defining facts (bound for all j, attained at some j*)
    reg = ex.ghost.setdefault("extrema", {})
    J = tm.var("#extidx", tm.I)
    body = f((J,))
    key = (kind, a.shape[0], body)
    for name, (k, *_rest) in reg.items():
        if k == key:
            return tm.app(name, (), tm.R)
    name = f"{kind}{len(reg)}"
    r = tm.app(name, (), tm.R)
    at = tm.app(name + "_at", (), tm.I)
    elem = lambda j, body=body, J=J: tm.subst(body, {J: j})
    reg[name] = (key, a.shape[0], elem, at)
    ex.facts.append(tm.land(tm.le(tm.const(0), at), tm.lt(at, a.shape[0]), tm.eq(r, elem(at))))
    cmpf = tm.le if kind == "min" else tm.ge
    ex.qfacts.append(lambda j, r=r, elem=elem, n=a.shape[0]: tm.implies(tm.land(tm.le(tm.const(0), j), tm.lt(j, n)), cmpf(r, elem(j))))
    used(ex, f"{kind} of a non-empty array: a bound for every element, attained at some index")
    Arith(ex).need(tm.gt(a.shape[0], tm.const(0)), "reduction of an empty sequence")
    return r


# =============================================================================================
# builtins


def builtin(name):
    return BUILTINS.get(name)


def b_len(ex, v):
    if isinstance(v, MapList):
        v = v.arr
    if isinstance(v, (list, tuple, dict, set, str)):
        return tm.const(len(v))
    if isinstance(v, ArrV):
        if v.mask is not None:
            return np_size(ex, v)
        return v.shape[0]
    if isinstance(v, TableV):
        if v.kind == "DataFrame":
            return next(iter(v.cols.values())).shape[0]
        return tm.const(len(v.cols))
    if isinstance(v, RecArrV):
        return v.shape[0]
    if isinstance(v, ObjV) and v.cls.kind == "namedtuple":
        return tm.const(len(v.cls.field_names))
    if isinstance(v, T):
        raise Raised("TypeError", "len of a scalar")
    raise OutOfSubset(f"len of {type(v).__name__}")


def b_minmax(kind):
    op = tm.minimum if kind == "min" else tm.maximum

    def f(ex, *args):
        if len(args) == 1:
            v = args[0]
            if isinstance(v, MapList):
                v = v.arr
            if isinstance(v, ArrV):
                return np_reduce(ex, v, kind)
            items = list(ex.iterate(v))
        else:
            items = list(args)
        if not items:
            raise Raised("ValueError", "empty sequence")
        r = tm.lift(num(items[0]))
        for x in items[1:]:
            r = op(r, tm.lift(num(x)))
        return r

    return f


def b_sum(ex, v, start=None):
    if isinstance(v, MapList):
        v = v.arr
    if isinstance(v, ObjV) and "__rec_fields__" in v.fields:
        return tm.add(*v.fields["__rec_fields__"])
    if isinstance(v, ArrV):
        return np_sum(ex, v)
    items = [num(x) for x in ex.iterate(v)]
    if start is not None:
        items = [num(start)] + items
    if not items:
        return tm.const(0)
    return tm.add(*items)


def b_abs(ex, v):
    return ew(ex, lambda ar, x: tm.absv(x), num(v))


def b_float(ex, v):
    if isinstance(v, T):
        return tm.toreal(v)
    if isinstance(v, (int, float)):
        return tm.rconst(v)
    if isinstance(v, ArrV) and v.ndim == 0:
        return v.get()
    raise OutOfSubset("float() of non-scalar")


def b_int(ex, v):
    if isinstance(v, T):
        return tm.trunc(v)
    raise OutOfSubset("int() of non-scalar")


def b_sorted(ex, it):
    items = [tm.lift(num(x)) for x in ex.iterate(it)]
    if all(tm.is_const(x) for x in items):
        return sorted(items, key=tm.cval)
    if len(items) == 2:
        return [tm.minimum(items[0], items[1]), tm.maximum(items[0], items[1])]
    raise OutOfSubset("sorted() of more than two symbolic values")


def b_round(ex, x, n=None):
    x = tm.lift(num(x))
    if n is None:
        return tm.app("round", (x,), tm.I)
    n = tm.lift(num(n))
    return tm.app("round", (x, n), tm.R)


def b_isinstance(ex, v, cls):
    if isinstance(cls, tuple):
        return any(b_isinstance(ex, v, c) for c in cls)
    name = cls.name if isinstance(cls, LibFn) else (cls if isinstance(cls, str) else getattr(cls, "path", None))
    if isinstance(v, MapList):
        v = v.arr
    if name in ("pandas.DataFrame",):
        return isinstance(v, TableV) and v.kind == "DataFrame"
    if name in ("dict", "collections.abc.Mapping", "collections.abc.MutableMapping", "typing.Mapping"):
        return isinstance(v, dict) or (isinstance(v, TableV) and (v.kind == "dict" or name != "dict"))
    if name in ("ndarray", "numpy.ndarray"):
        return isinstance(v, ArrV)
    if name in ("float", "int"):
        if isinstance(v, T):
            same = (v.sort == tm.R) if name == "float" else (v.sort == tm.I)
            if same and v.op == "var" and ex.trail is not None:
                # an ARGUMENT of the code under contract: a whole number may arrive as a python int or as numpy.int64 (an element of
                # np.arange is no `int`), a real as a python float / numpy.float64 (a `float`) or numpy.float32 (not one): both
                # answers are explored.  One boolean per (argument, class), shared by every test of it on the path.
                return ex.decide(tm.var(f"is_python_{name}({v.args[0]})", tm.B))
            return same
        return False
    if name in ("numpy.generic", "numpy.number"):
        # a numpy SCALAR (not an array): for a raw scalar argument the complement of "is a python number" (same boolean)
        if isinstance(v, T):
            if v.op == "var" and ex.trail is not None and v.sort in (tm.R, tm.I):
                return not ex.decide(tm.var(f"is_python_{'float' if v.sort == tm.R else 'int'}({v.args[0]})", tm.B))
            raise OutOfSubset("isinstance(<derived scalar>, numpy.generic)")
        return False
    if name in ("list", "tuple"):
        return isinstance(v, list if name == "list" else tuple)
    if isinstance(cls, ClassV):
        return isinstance(v, ObjV) and cls in v.cls.mro()
    raise OutOfSubset(f"isinstance(..., {name})")


def b_hasattr(ex, o, name):
    if o is None:
        return False
    if isinstance(o, ObjV):
        return name in o.fields or o.cls.lookup(name) is not None
    if isinstance(o, TableV):
        if name == "copy":
            return True
        return o.kind == "DataFrame" and name in o.cols
    if isinstance(o, dict):
        return name in ("copy", "update", "items", "keys", "values", "get", "pop")
    if isinstance(o, ArrV):
        return name in ("copy", "shape", "sum", "dtype")
    if isinstance(o, sx.OpaqueFn) and ex.trail is not None and name not in ("__call__",):
        # a callable handed in by the caller (a recovery curve, a correlation): "any callable" includes objects that carry data
        # attributes (a scipy interpolator has .x / .y) and plain functions that do not: both answers are explored; reading
        # the attribute itself is outside the subset
        return ex.decide(tm.var(f"hasattr({o.name},{name})", tm.B))
    raise OutOfSubset(f"hasattr on {type(o).__name__}")


class PartialV:
    """functools.partial(f, *args, **kw): calling it calls f with the stored arguments first"""

    def __init__(self, f, args, kw):
        self.f, self.args, self.kw = f, list(args), dict(kw)

    def __call_model__(self, ex, *args, **kw):
        k2 = dict(self.kw)
        k2.update(kw)
        f = self.f
        a = self.args + list(args)
        if isinstance(f, FuncV) and ex.nested_should_merge(f):
            return ex.call_merged(f, a, k2)
        return ex.call(f, a, k2)


class LoggerV:
    """logging.Logger: calls have no effect on the state the contracts speak about (no handler is configured by the library)"""

    def getattr_model(self, ex, name):
        if name in ("debug", "info", "warning", "error", "critical", "exception", "log", "isEnabledFor", "setLevel"):
            return LibFn("logger." + name, lambda ex2, *a, **k: (False if name == "isEnabledFor" else None))
        raise OutOfSubset("logger attribute " + name)


class SentinelV:
    """object(): a fresh value equal only to itself"""


def b_allany(ex, it, is_all):
    """builtin all / any over a concretely iterable sequence of (possibly symbolic) truth values"""
    items = list(ex.iterate(it)) if not isinstance(it, (list, tuple)) else list(it)
    terms = []
    for x in items:
        if isinstance(x, bool) or x is None or isinstance(x, (int, float, str, list, tuple, dict, set)):
            bval = bool(x)
            if is_all and not bval:
                return False
            if not is_all and bval:
                return True
            continue
        if isinstance(x, T):
            terms.append(x if x.sort == tm.B else tm.ne(x, tm.const(0)))
            continue
        raise OutOfSubset("all/any over non-scalar items")
    if not terms:
        return is_all
    return tm.land(*terms) if is_all else tm.lor(*terms)


def b_enumerate(ex, it, start=0):
    st_ = tm.lift(num(start))
    if tm.is_const(st_) and tm.cval(st_) == 0:
        return EnumV(it)
    # a non-zero start: only over concretely iterable sequences
    return [(tm.add(st_, tm.const(i_)), v_) for i_, v_ in enumerate(ex.iterate(it))]


def b_vars(ex, o):
    if isinstance(o, ObjV):
        return sx.DictProxy(o)
    raise OutOfSubset(f"vars() of {type(o).__name__}")


def b_getattr(ex, o, name, *default):
    if not isinstance(name, str):
        raise OutOfSubset("getattr with a computed name")
    if default:
        try:
            present = b_hasattr(ex, o, name)
        except OutOfSubset:
            if isinstance(o, T) or isinstance(o, (int, float, list, tuple)):
                present = False  # python scalars / lists / symbolic python numbers carry none of the modelled attributes
            else:
                raise
        if not present:
            return default[0]
    return ex.getattr(o, name)


def b_range(ex, *args):
    a = [tm.lift(num(x)) for x in args]
    if len(a) == 1:
        return RangeV(tm.const(0), a[0], tm.const(1))
    if len(a) == 2:
        return RangeV(a[0], a[1], tm.const(1))
    return RangeV(*a)


BUILTINS = {
    "len": LibFn("len", b_len),
    "type": LibFn("type", lambda ex, v: TypeOfV(v)),
    "min": LibFn("min", b_minmax("min")),
    "max": LibFn("max", b_minmax("max")),
    "sum": LibFn("sum", b_sum),
    "abs": LibFn("abs", b_abs),
    "float": LibFn("float", b_float),
    "bool": LibFn("bool", lambda ex, v=False: (v if isinstance(v, bool) else (v if (isinstance(v, T) and v.sort == tm.B) else ex.truth(v)))),
    "int": LibFn("int", b_int),
    "zip": LibFn("zip", lambda ex, *parts, strict=False: zip_model(ex, parts)),
    "all": LibFn("all", lambda ex, it: b_allany(ex, it, True)),
    "any": LibFn("any", lambda ex, it: b_allany(ex, it, False)),
    "enumerate": LibFn("enumerate", lambda ex, it, start=0: b_enumerate(ex, it, start)),
    "list": LibFn("list", lambda ex, it=(): it if isinstance(it, (MapList, ZipArr)) else list(ex.iterate(it))),
    "tuple": LibFn("tuple", lambda ex, it=(): tuple(ex.iterate(it))),
    "set": LibFn("set", lambda ex, it=(): set(it.cols.keys()) if isinstance(it, TableV) else set(ex.iterate(it))),
    "dict": LibFn("dict", lambda ex, it=(), **kw: dict(it, **kw) if isinstance(it, dict) else dict(ex.iterate(it), **kw)),
    "range": LibFn("range", b_range),
    "isinstance": LibFn("isinstance", b_isinstance),
    "hasattr": LibFn("hasattr", b_hasattr),
    "getattr": LibFn("getattr", b_getattr),
    "vars": LibFn("vars", b_vars),
    "object": LibFn("object", lambda ex: SentinelV()),
    "dict_type": None,
    "str": LibFn("str", lambda ex, v="": "<str>"),
    "repr": LibFn("repr", lambda ex, v="": "<str>"),
    "print": LibFn("print", lambda ex, *a, **k: None),
    "round": LibFn("round", lambda ex, x, n=None: b_round(ex, x, n)),
    "sorted": LibFn("sorted", lambda ex, it: b_sorted(ex, it)),
    "ValueError": "ValueError", "RuntimeError": "RuntimeError", "AttributeError": "AttributeError",
    "NotImplementedError": "NotImplementedError", "TypeError": "TypeError", "KeyError": "KeyError",
    "True": True, "False": False, "None": None,
}


def zip_model(ex, parts):
    parts = [p.arr if isinstance(p, MapList) else p for p in parts]
    if all(isinstance(p, ArrV) for p in parts) and any(p.static_len() is None for p in parts):
        return ZipArr(parts)
    return ZipV(list(parts))


class ZipArr:
    def __init__(self, parts):
        self.parts = parts


# =============================================================================================
# library namespaces


def resolve(path):
    if path in REGISTRY:
        return REGISTRY[path]
    root = path.split(".")[0]
    if root in ("numpy", "scipy", "pandas", "math", "copy", "warnings", "collections", "dataclasses", "typing", "matplotlib", "lmfit", "__future__", "importlib"):
        # sub-namespace or unmodelled entry point: a namespace value; calling it is out of subset
        return LibV(path)
    raise OutOfSubset(f"library name {path}")


def apply_opaque(ex, f, args, kwargs):
    if kwargs:
        raise OutOfSubset("keyword call of an opaque function")
    args = [a.arr if isinstance(a, MapList) else a for a in args]
    if any(isinstance(a, ArrV) for a in args):
        return ew(ex, lambda ar, *xs: tm.app(f.name, xs, f.sort), *[num(a) for a in args], real_result=True)
    return tm.app(f.name, [tm.lift(num(a)) for a in args], f.sort)


def np_asarray(ex, v, dtype=None, **kw):
    """np.asarray: NO copy when the argument already is an array of the requested dtype (the result aliases it: a store
    through it is a store into the argument); otherwise as np.array"""
    if kw:
        raise OutOfSubset(f"np.asarray options {sorted(kw)}")
    vv = v.arr if isinstance(v, MapList) else v
    if isinstance(vv, ArrV) and (dtype is None or dtype_code(dtype) == vv.dtype):
        if labels_of(vv) is not None:
            # np.asarray(series) is the underlying ndarray: the same memory, no row labels
            plain = ArrV(vv.shape, None, vv.dtype, mask=vv.mask)
            root, rmap = (vv, (lambda idx: idx))
            if vv.view_of is not None:
                root, rmap = vv.view_of
            plain.view_of = (root, rmap)
            return plain
        return vv
    return np_array(ex, v, dtype)


def np_array(ex, v, dtype=None, copy=True, **kw):
    if kw:
        raise OutOfSubset(f"np.array options {sorted(kw)}")
    if copy is not True and not (isinstance(copy, bool) and copy):
        vv = v.arr if isinstance(v, MapList) else v
        if isinstance(vv, ArrV) and (dtype is None or dtype_code(dtype) == vv.dtype):
            return vv
    if isinstance(dtype, list):
        # structured array from a list of tuples (static) or from zip(...) of symbolic arrays
        names = [d[0] for d in dtype]
        if isinstance(v, MapList):
            raise OutOfSubset("structured array from a map")
        if isinstance(v, ZipArr):
            return RecArrV({n: arr_copy(ex, p) for n, p in zip(names, v.parts)})
        rows = [list(r) if isinstance(r, (tuple, list)) else [r.fields[n] for n in r.cls.field_names] for r in v]
        fields = {}
        for k, n in enumerate(names):
            col = [r[k] for r in rows]
            if all(isinstance(x, str) for x in col):
                fields[n] = col
            else:
                fields[n] = sx.arr_from_list([num(x) for x in col], "f8")
        return RecArrV(fields)
    dt = None
    if dtype is not None:
        dt = dtype.code if isinstance(dtype, DTypeV) else dtype
    a = as_array(ex, v, dt)
    if isinstance(a, ArrV) and a is v:
        a = arr_copy(ex, a)
    if isinstance(a, ArrV) and isinstance(v, (list, tuple)) and len(v) == 0:
        a.is_empty_literal = True
    return a


def dtype_code(dtype, default="f8"):
    """dtype argument of an allocation -> dtype tag; anything not recognised is outside the subset (never silently f8)"""
    if dtype is None:
        return default
    if isinstance(dtype, DTypeV):
        return dtype.code
    if isinstance(dtype, LibFn) and dtype.name in ("float", "int", "bool"):
        return {"float": "f8", "int": "i8", "bool": "b"}[dtype.name]
    if isinstance(dtype, str) and dtype in ("float64", "float32", "int64", "int32", "f8", "f4", "i8", "i4", "float", "int", "d", "f"):
        return {"float64": "f8", "float32": "f4", "int64": "i8", "int32": "i4", "float": "f8", "int": "i8", "d": "f8", "f": "f4"}.get(dtype, dtype)
    raise OutOfSubset(f"dtype argument {dtype!r}")


def np_zeros_like_model(fill):
    def f(ex, n, dtype=None):
        dt = dtype_code(dtype)
        if dt == "b":
            raise OutOfSubset("boolean allocation")
        if isinstance(n, (tuple, list)):
            shape = tuple(tm.lift(num(x)) for x in n)
        else:
            shape = (tm.lift(num(n)),)
        isint = dt in INT_RANGE
        if fill is None:
            u = ex.fresh_var("uninit")
            fn = lambda idx: tm.app("uninit", (u,) + tuple(idx), tm.I if isint else tm.R)
        else:
            fn = lambda idx: (tm.const(int(fill)) if isint else tm.rconst(fill))
        return ArrV(shape, fn, dt)
    return f


def _like_dtype(proto, dtype):
    if dtype is not None:
        return dtype_code(dtype)
    return proto.dtype if isinstance(proto, ArrV) else "f8"


def np_empty_like(ex, proto, dtype=None):
    proto = as_array(ex, proto)
    used(ex, "np.empty_like/full_like/ones_like: shape and (unless overridden) dtype of the prototype")
    u = ex.fresh_var("uninit")
    dt = _like_dtype(proto, dtype)
    return ArrV(proto.shape, lambda idx: tm.app("uninit", (u,) + tuple(idx), tm.I if dt in INT_RANGE else tm.R), dt)


def np_full_like(ex, proto, fill, dtype=None):
    proto = as_array(ex, proto)
    if isinstance(proto, T):
        # 0-d result with the scalar's type: a python/numpy integer prototype truncates the fill value
        v = tm.lift(num(fill))
        code = (dtype.code if isinstance(dtype, DTypeV) else dtype) if dtype is not None else ("i8" if proto.sort == tm.I else "f8")
        used(ex, "np.full_like(scalar, fill): 0-d array of the scalar's type (integer prototype truncates the fill value)")
        return tm.trunc(v) if code in INT_RANGE else tm.toreal(v)
    used(ex, "np.empty_like/full_like/ones_like: shape and (unless overridden) dtype of the prototype")
    dt = _like_dtype(proto, dtype)
    v = tm.lift(num(fill))
    v = tm.trunc(v) if dt in INT_RANGE else tm.toreal(v)
    return ArrV(proto.shape, lambda idx: v, dt)


def np_zeros_like(ex, proto, dtype=None):
    proto = as_array(ex, proto)
    if isinstance(proto, T):
        return tm.const(0) if proto.sort == tm.I else tm.rconst(0)
    return np_full_like(ex, proto, tm.const(0), dtype)


def np_ones_like(ex, proto):
    proto = as_array(ex, proto)
    if isinstance(proto, T):
        return tm.const(1) if proto.sort == tm.I else tm.rconst(1)
    return np_full_like(ex, proto, tm.const(1))


def np_full(ex, n, fill, dtype=None):
    n = tm.lift(num(n))
    v = num(fill)
    if isinstance(v, ArrV):
        # np.full(n, array) broadcasts: requires len(array) == n (or 1)
        Arith(ex).need(tm.eq(v.shape[0], n), "np.full broadcasts the fill array to the requested length")
        return arr_copy(ex, v)
    v = tm.lift(v)
    dt = dtype_code(dtype, "i8" if v.sort == tm.I else "f8")
    if dt in INT_RANGE and v.sort != tm.I:
        v = tm.trunc(v)
    elif dt not in INT_RANGE and v.sort == tm.I:
        v = tm.toreal(v)
    return ArrV((n,), lambda idx: v, dt)


def np_result_type(ex, *args):
    codes = []
    for a in args:
        if isinstance(a, ArrV):
            codes.append(a.dtype)
        elif isinstance(a, DTypeV):
            codes.append(a.code)
        elif isinstance(a, T):
            codes.append("weak_f" if a.sort == tm.R else "weak_i")
        else:
            raise OutOfSubset("result_type argument")
    strong = [c for c in codes if not c.startswith("weak")]
    if "f8" in strong:
        return DTypeV("f8")
    if "f4" in strong:
        return DTypeV("f8" if any(c in ("i4", "i8") for c in strong) else "f4")
    if any(c == "weak_f" for c in codes):
        return DTypeV("f8")
    if "i8" in strong:
        return DTypeV("i8")
    return DTypeV("i4")


def np_linspace(ex, a, b, n=50):
    a, b, n = (tm.lift(num(x)) for x in (a, b, n))
    used(ex, "np.linspace(a, b, N)[j] = a + j (b - a) / (N - 1)")
    ar = Arith(ex, list(ex.pc))
    ar.need(tm.gt(n, tm.const(1)), "linspace with at least two points")
    return ArrV((n,), lambda idx: tm.add(a, tm.mul(tm.toreal(idx[0]), ar.div(tm.sub(b, a), tm.sub(n, tm.const(1))))), "f8")


def np_arange(ex, *args):
    a = [tm.lift(num(x)) for x in args]
    if len(a) == 1:
        lo, hi, st = tm.const(0), a[0], tm.const(1)
    elif len(a) == 2:
        lo, hi, st = a[0], a[1], tm.const(1)
    else:
        lo, hi, st = a
    used(ex, "np.arange(a, b, s)[j] = a + j s, length ceil((b - a) / s)")
    isint = all(x.sort == tm.I for x in (lo, hi, st))
    if isint and tm.is_const(st) and tm.cval(st) == 1:
        n = tm.maximum(tm.sub(hi, lo), tm.const(0))
    else:
        # n = ceil((hi - lo)/st): symbolic integer with its defining inequalities
        if all(tm.is_const(x) for x in (lo, hi, st)):
            import math
            n = tm.const(max(0, math.ceil((tm.cval(hi) - tm.cval(lo)) / tm.cval(st))))
        else:
            n = ex.fresh_var("arange_len", tm.I)
            Arith(ex).need(tm.gt(st, tm.const(0)), "arange with a positive step")
            ex.facts.append(tm.land(tm.ge(n, tm.const(0)),
                                    tm.implies(tm.gt(hi, lo), tm.land(tm.lt(tm.add(lo, tm.mul(tm.sub(n, tm.const(1)), st)), hi), tm.ge(tm.add(lo, tm.mul(n, st)), hi))),
                                    tm.implies(tm.le(hi, lo), tm.eq(n, tm.const(0)))))
    return ArrV((n,), lambda idx: tm.add(lo, tm.mul(idx[0], st)), "i8" if isint else "f8")


def np_fn1(name):
    def f(ex, v, dtype=None, **kw):
        v = as_array(ex, v)
        if name == "exp":
            return ew(ex, lambda ar, x: tm.exp(x), v, real_result=True)
        if name == "log":
            return ew(ex, lambda ar, x: ar.log(x), v, real_result=True)
        if name == "sqrt":
            return ew(ex, lambda ar, x: ar.sqrt(x), v, real_result=True)
        if name == "abs":
            return ew(ex, lambda ar, x: tm.absv(x), v)
        raise OutOfSubset(name)
    return f


def np_minimum(ex, a, b):
    return ew(ex, lambda ar, x, y: tm.minimum(x, y), num(as_array(ex, a)), num(as_array(ex, b)))


def np_maximum(ex, a, b):
    return ew(ex, lambda ar, x, y: tm.maximum(x, y), num(as_array(ex, a)), num(as_array(ex, b)))


def np_clip(ex, a, lo=None, hi=None, a_min=None, a_max=None):
    used(ex, "np.clip(a, lo, hi) = minimum(maximum(a, lo), hi)")
    lo = a_min if lo is None else lo
    hi = a_max if hi is None else hi
    if lo is None and hi is None:
        raise Raised("ValueError", "np.clip: one of the bounds must be given")
    if hi is None:
        return ew(ex, lambda ar, x, l: tm.maximum(x, l), num(as_array(ex, a)), num(lo))
    if lo is None:
        return ew(ex, lambda ar, x, h: tm.minimum(x, h), num(as_array(ex, a)), num(hi))
    return ew(ex, lambda ar, x, l, h: tm.minimum(tm.maximum(x, l), h), num(as_array(ex, a)), num(lo), num(hi))


def np_any(ex, v):
    v = as_array(ex, v)
    if isinstance(v, T):
        return v
    if isinstance(v, bool):
        return v
    n = v.static_len()
    f = v.cur()
    if n is not None and v.mask is None:
        return tm.lor(*[f((tm.const(j),)) for j in range(n)])
    # symbolic: a boolean with defining facts: any <=> exists j.  We expose: not any => forall j not elem
    # (one boolean per distinct array expression: a nested call that is re-executed path by path must see the SAME symbol)
    Jk = tm.var("#anyidx", tm.I)
    key = (v.shape[0], f((Jk,)), (v.mask((Jk,)) if v.mask is not None else None))
    memo = ex.ghost.setdefault("any_by_key", {})
    if key in memo:
        b, fact, qfact = memo[key]
        # the defining facts are unconditional: every (nested) execution that meets the expression carries them
        if fact not in ex.facts:
            ex.facts.append(fact)
        if qfact not in ex.qfacts:
            ex.qfacts.append(qfact)
        return b
    b = ex.fresh_var("any", tm.B)
    k = tm.app(f"anyidx{b.args[0]}", (), tm.I)
    fact = tm.implies(b, tm.land(tm.le(tm.const(0), k), tm.lt(k, v.shape[0]), f((k,))))
    qfact = (lambda j, b=b, f=f, n=v.shape[0]: tm.implies(tm.land(tm.lnot(b), tm.le(tm.const(0), j), tm.lt(j, n)), tm.lnot(f((j,)))))
    memo[key] = (b, fact, qfact)
    ex.facts.append(fact)
    ex.qfacts.append(qfact)
    ex.ghost.setdefault("any", []).append((b, k, f, v.shape[0]))
    used(ex, "np.any over an array: true iff some element is true")
    return b


def np_ndim(ex, v):
    if isinstance(v, MapList):
        v = v.arr
    if isinstance(v, ArrV):
        return tm.const(v.ndim)
    if isinstance(v, T):
        return tm.const(0)
    if isinstance(v, (list, tuple)):
        return tm.const(1 + (max((int(tm.cval(np_ndim(ex, x))) for x in v), default=0)))
    if isinstance(v, TableV):
        return tm.const(2)
    raise OutOfSubset("ndim")


def np_ma_masked(op):
    """np.ma.masked_less_equal(a, c) etc.: entries satisfying the comparison are MASKED - not values any more (matplotlib
    drops such vertices; arithmetic keeps them masked).  Modelled as an unconstrained number per entry, so that no
    statement about the value of a masked entry can be proved and any equation that needs one is refutable."""
    cmp = {"less_equal": tm.le, "less": tm.lt, "greater": tm.gt, "greater_equal": tm.ge, "equal": tm.eq}[op]

    def f(ex, a, c, copy=True):
        a = as_array(ex, a)
        c = tm.lift(num(c))
        used(ex, f"np.ma.masked_{op}: masked entries carry no value (unconstrained)")
        if isinstance(a, T):
            return tm.ite(cmp(tm.toreal(a), tm.toreal(c)), tm.app("masked_entry", [tm.toreal(a)]), tm.toreal(a))
        return ew(ex, lambda ar, x: tm.ite(cmp(tm.toreal(x), tm.toreal(c)), tm.app("masked_entry", [tm.toreal(x)]), tm.toreal(x)), a, real_result=True)
    return f


def np_atleast_1d(ex, v):
    v = as_array(ex, v)
    if isinstance(v, ArrV):
        return v
    used(ex, "np.atleast_1d(scalar) = array([scalar])")
    t = tm.lift(v)
    return ArrV((tm.const(1),), lambda idx: t, "i8" if t.sort == tm.I else "f8")


def np_squeeze(ex, v, axis=None):
    """np.squeeze drops every axis of length one: a 1-D array of length 1 becomes 0-dimensional (indexing it raises),
    any other 1-D array is returned as it is - the result's SHAPE depends on the length"""
    v = as_array(ex, v)
    if axis is not None:
        raise OutOfSubset("np.squeeze(axis=...)")
    if not isinstance(v, ArrV):
        return v
    if v.ndim != 1 or v.mask is not None:
        raise OutOfSubset("np.squeeze of a multi-dimensional / mask-selected array")
    used(ex, "np.squeeze: a length-1 axis is dropped (result 0-dimensional), other lengths unchanged")
    if ex.decide(tm.eq(v.shape[0], tm.const(1))):
        return ZeroDimV(v.get(tm.const(0)), v.dtype)
    return v


class ZeroDimV:
    """0-dimensional ndarray: carries one value, has shape (), cannot be indexed or iterated"""

    def __init__(self, value, dtype):
        self.value, self.dtype = value, dtype

    def getitem_model(self, ex, idx):
        raise Raised("IndexError", "too many indices for array: array is 0-dimensional")

    def getattr_model(self, ex, name):
        if name == "shape":
            return ()
        if name == "ndim":
            return tm.const(0)
        raise OutOfSubset("0-d array attribute " + name)


def np_diff(ex, v, n=1, axis=-1, **kw):
    """np.diff(a)[k] = a[k+1] - a[k] for a 1-D array (dtype of the operand; bool arrays excluded)"""
    v = as_array(ex, v)
    if kw or not isinstance(v, ArrV) or v.ndim != 1 or v.mask is not None or v.dtype == "b" or not (isinstance(n, int) and n == 1 or (isinstance(n, T) and tm.is_const(n) and tm.cval(n) == 1)):
        raise OutOfSubset("np.diff of this operand / with options")
    used(ex, "np.diff(a)[k] = a[k+1] - a[k]")
    f = v.cur()
    one = tm.const(1)
    Arith(ex).need(tm.ge(v.shape[0], one), "np.diff: at least one element")
    return ArrV((tm.sub(v.shape[0], one),), lambda idx: tm.sub(f((tm.add(idx[0], one),)), f((idx[0],))), v.dtype)


def np_cumsum(ex, v):
    v = as_array(ex, v)
    used(ex, "np.cumsum(a)[k] = sum_{j<=k} a[j]")
    f = v.cur()
    name = f"cumsum{v.id}"
    ex.ghost.setdefault("cumsum", {})[name] = (v.shape[0], f)
    # defining recurrence as quantified fact
    c = lambda j: tm.app(name, (j,), tm.R)
    ex.facts.append(tm.eq(c(tm.const(0)), f((tm.const(0),))))
    ex.qfacts.append(lambda j: tm.implies(tm.land(tm.le(tm.const(1), j), tm.lt(j, v.shape[0])), tm.eq(c(j), tm.add(c(tm.sub(j, tm.const(1))), f((j,))))))
    return ArrV(v.shape, lambda idx: c(idx[0]), "f8")


def cumulative_trapezoid(ex, y, x=None, dx=None, initial=None):
    """scipy.integrate.cumulative_trapezoid(y, x, initial=0): out[0] = 0,
    out[k] = out[k-1] + (x[k] - x[k-1]) (y[k] + y[k-1]) / 2.   The argument ORDER is part of the model."""
    y = as_array(ex, y)
    if initial is None:
        raise OutOfSubset("cumulative_trapezoid without initial")
    init = tm.lift(num(initial))
    if not (tm.is_const(init) and tm.cval(init) == 0):
        raise OutOfSubset("cumulative_trapezoid initial != 0")
    used(ex, "scipy cumulative_trapezoid(y, x, initial=0): out[0]=0, out[k]=out[k-1]+(x[k]-x[k-1])(y[k]+y[k-1])/2")
    fy = y.cur()
    if x is not None:
        x = as_array(ex, x)
        fx = x.cur()
        if x.shape[0] is not y.shape[0]:
            Arith(ex).need(tm.eq(x.shape[0], y.shape[0]), "x and y of equal length")
        step = lambda k: tm.sub(fx((k,)), fx((tm.sub(k, tm.const(1)),)))
    else:
        d = tm.rconst(1) if dx is None else tm.lift(num(dx))
        step = lambda k: d
    reg = ex.ghost.setdefault("cumtrapz", {})
    name = f"ctz{len(reg)}"
    c = lambda j: tm.app(name, (j,), tm.R)
    inc = lambda k: tm.mul(step(k), tm.div(tm.add(fy((k,)), fy((tm.sub(k, tm.const(1)),))), tm.const(2)))
    inc_with = lambda k, yf: tm.mul(step(k), tm.div(tm.add(yf(k), yf(tm.sub(k, tm.const(1)))), tm.const(2)))
    reg[name] = {"n": y.shape[0], "inc": inc, "inc_with": inc_with, "y": fy, "x": (fx if x is not None else None), "step": step}
    ex.facts.append(tm.eq(c(tm.const(0)), tm.rconst(0)))
    ex.qfacts.append(lambda j: tm.implies(tm.land(tm.le(tm.const(1), j), tm.lt(j, y.shape[0])), tm.eq(c(j), tm.add(c(tm.sub(j, tm.const(1))), inc(j)))))
    out = ArrV(y.shape, lambda idx: c(idx[0]), "f8")
    out.cumtrapz = name
    return out


#: preconditions of library calls that the calling code does not establish, collected per obligation run (oblig._run_one):
#: (status, text) with status "refuted" when the data is a caller-supplied array whose order nothing constrains
LIB_PRE_UNMET = []


def require_increasing(ex, x, what):
    """library precondition `x increasing` (interp1d(assume_sorted=True), np.interp): established only for arrays this
    engine knows to be sorted; a column of the caller's table carries no order, so a counterexample exists (any
    descending table); derived arrays are left undecided"""
    xa = x.arr if isinstance(x, MapList) else x
    ex.ghost.setdefault("sortedness_assumed", []).append(what)
    if isinstance(xa, ArrV) and getattr(xa, "increasing", False):
        return
    named = isinstance(xa, ArrV) and (getattr(xa, "name", None) or getattr(xa, "srcname", None))
    LIB_PRE_UNMET.append(("refuted" if named else "unknown", f"{what} requires an increasing abscissa; "
                          + (f"the abscissa is the caller's column {named!r}, whose row order no precondition constrains (every other interpolant of the library sorts it)" if named else "the abscissa is a derived array whose order is not established")))


class PermV:
    """np.argsort(key): the permutation that sorts `key` (1-D array)"""

    def __init__(self, key):
        self.key = key


class PermArrV:
    """arr[np.argsort(key)]: `arr` re-ordered by the permutation that sorts `key`.  Accepted only as interp1d / np.interp
    data (an (x[perm], y[perm]) pair with x the key is the sorted table, which is what the interpolant models speak
    about); any other use is outside the subset"""

    def __init__(self, arr, perm):
        self.arr, self.perm = arr, perm


def np_argsort(ex, a, **kw):
    a = as_array(ex, a)
    if kw or not isinstance(a, ArrV) or a.ndim != 1 or a.mask is not None:
        raise OutOfSubset("np.argsort of this operand / with options")
    used(ex, "np.argsort(key): the permutation sorting key; (x[perm], y[perm]) with key x is the table sorted by x")
    return PermV(a)


def _same_array(a, b):
    return a is b or (a.shape == b.shape and a.get(tm.var("__j", tm.I)) is b.get(tm.var("__j", tm.I)))


def _unperm_pair(ex, x, y, what):
    """(x, y) data of an interpolant: resolves a co-permuted pair; returns (x, y, sorted_known)"""
    px, py = isinstance(x, PermArrV), isinstance(y, PermArrV)
    if not px and not py:
        return x, y, False
    if not (px and py) or x.perm is not y.perm:
        raise OutOfSubset(f"{what}: abscissa and ordinate are not re-ordered by the same permutation")
    if not _same_array(x.perm.key, x.arr):
        raise OutOfSubset(f"{what}: data re-ordered by a permutation that does not sort the abscissa")
    return x.arr, y.arr, True


def np_interp(ex, q, xp, fp, left=None, right=None, period=None):
    """np.interp(q, xp, fp, left, right): the linear interpolant through (xp, fp) with constant fill left / right, PROVIDED
    xp is increasing (numpy does not check and does not sort)"""
    if period is not None:
        raise OutOfSubset("np.interp(period=...)")
    xp, fp, known = _unperm_pair(ex, xp, fp, "np.interp")
    if not known:
        require_increasing(ex, xp, "np.interp")
    fa = as_array(ex, fp)
    lo = fa.get(tm.const(0)) if left is None else left
    hi = fa.get(tm.sub(fa.shape[0], tm.const(1))) if right is None else right
    it = Interp1dV(ex, xp, fp, bounds_error=False, fill_value=(lo, hi))
    return it.__call_model__(ex, q)


class Interp1dV:
    """scipy.interpolate.interp1d(x, y, bounds_error, fill_value): piecewise linear through the nodes.
    Application is an uninterpreted function I(q); its assumed contract (segment formula inside,
    ValueError / fill values / linear continuation outside, node values) is instantiated by
    contracts through .facts_at(q)."""

    _n = [0]

    def __init__(self, ex, x, y, kind="linear", bounds_error=None, fill_value=None, assume_sorted=False, **kw):
        if kw:
            raise OutOfSubset(f"interp1d options {sorted(kw)}")
        # assume_sorted=False (default): scipy sorts (x, y) by x first, so any row order of the table is accepted;
        # assume_sorted=True makes increasing x a precondition of the CALLER's data, which no contract here establishes
        self.assume_sorted = assume_sorted is True
        x, y, known = _unperm_pair(ex, x, y, "interp1d")
        if self.assume_sorted and not known:
            require_increasing(ex, x, "interp1d(assume_sorted=True)")
        self.kind = kind if isinstance(kind, str) else "other"
        xa, ya = as_array(ex, x), as_array(ex, y)
        self.x = arr_copy(ex, xa)
        self.y = arr_copy(ex, ya)
        self.x.srcname, self.y.srcname = getattr(xa, "name", None), getattr(ya, "name", None)
        if self.x.shape[0] is not self.y.shape[0]:
            Arith(ex).need(tm.eq(self.x.shape[0], self.y.shape[0]), "interp1d: x and y of equal length")
        Arith(ex).need(tm.ge(self.x.shape[0], tm.const(2)), "interp1d: at least two nodes")
        self.n = self.x.shape[0]
        self.fill = fill_value
        if isinstance(fill_value, str):
            if fill_value != "extrapolate":
                raise OutOfSubset("fill_value string")
            self.mode = "extrapolate"
        elif fill_value is None:
            self.mode = "raise" if (bounds_error is None or bounds_error is True) else "nan"
        else:
            if bounds_error is True:
                raise Raised("ValueError")
            self.mode = "raise" if bounds_error is None else "fill"
            if isinstance(fill_value, tuple):
                self.fill_lo, self.fill_hi = (tm.lift(num(v)) for v in fill_value)
            else:
                self.fill_lo = self.fill_hi = tm.lift(num(fill_value))
        if bounds_error is False and fill_value is None:
            self.mode = "nan"
        Interp1dV._n[0] += 1
        self.name = f"interp{Interp1dV._n[0]}"
        used(ex, "scipy interp1d (linear): segment formula inside [x0, xN-1]; ValueError / fill values / linear continuation outside")
        ex.ghost.setdefault("interps", {})[self.name] = self

    def xf(self, j):
        return self.x.get(j)

    def yf(self, j):
        return self.y.get(j)

    def __call_model__(self, ex, q):
        q = as_array(ex, q)
        n1 = tm.sub(self.n, tm.const(1))
        x0, xl = self.xf(tm.const(0)), self.xf(n1)
        if self.mode == "raise":
            if isinstance(q, ArrV):
                fq = q.cur()
                J = ex.fresh_var("Jq", tm.I)
                # any element outside -> ValueError
                outside = np_any(ex, ArrV(q.shape, lambda idx: tm.lor(tm.lt(fq(idx), x0), tm.gt(fq(idx), xl)), "b", mask=q.mask))
                if ex.truth(outside):
                    raise Raised("ValueError", "interp1d: value outside the interpolation range")
            else:
                if ex.decide(tm.lor(tm.lt(q, x0), tm.gt(q, xl))):
                    raise Raised("ValueError", "interp1d: value outside the interpolation range")
        name = self.name

        def app1(ar, v):
            return tm.app(name, (v,), tm.R)

        r = ew(ex, app1, q, real_result=True)
        ex.ghost.setdefault("interp_calls", []).append((self, q))
        return r

    def getattr_model(self, ex, name):
        if name in ("x", "y"):
            used(ex, "interp1d.x / .y: the data the interpolant was built from")
            return arr_copy(ex, self.x if name == "x" else self.y)
        if name == "fill_value" and self.mode == "fill":
            return (self.fill_lo, self.fill_hi)
        raise OutOfSubset("interp1d attribute " + name)

    # ---- instances of the assumed contract (used by contracts; each returns a list of formulas)
    def app(self, q):
        return tm.app(self.name, [q], tm.R)

    def node_fact(self, J):
        """the value at a node is the node value (any kind)"""
        return tm.implies(tm.land(tm.le(tm.const(0), J), tm.lt(J, self.n)), tm.eq(self.app(self.xf(J)), self.yf(J)))

    def seg_facts(self, q, s, theta=None):
        """linear kind, x strictly increasing, x[0] <= q <= x[n-1]: q lies in segment s at relative position theta in
        [0, 1] and the value is the chord:  q = x_s + theta (x_{s+1} - x_s),  I(q) = y_s + theta (y_{s+1} - y_s)"""
        if self.kind != "linear":
            return []
        one = tm.const(1)
        xs, xs1, ys, ys1 = self.xf(s), self.xf(tm.add(s, one)), self.yf(s), self.yf(tm.add(s, one))
        inside = tm.land(tm.le(self.xf(tm.const(0)), q), tm.le(q, self.xf(tm.sub(self.n, one))))
        if theta is None:
            return [tm.implies(inside, tm.land(tm.le(tm.const(0), s), tm.le(s, tm.sub(self.n, tm.const(2))), tm.le(xs, q), tm.le(q, xs1),
                                                tm.eq(self.app(q), tm.add(ys, tm.div(tm.mul(tm.sub(q, xs), tm.sub(ys1, ys)), tm.sub(xs1, xs))))))]
        return [tm.implies(inside, tm.land(tm.le(tm.const(0), s), tm.le(s, tm.sub(self.n, tm.const(2))), tm.le(tm.rconst(0), theta), tm.le(theta, tm.rconst(1)),
                                            tm.eq(q, tm.add(xs, tm.mul(theta, tm.sub(xs1, xs)))),
                                            tm.eq(self.app(q), tm.add(ys, tm.mul(theta, tm.sub(ys1, ys))))))]

    def outside_facts(self, q):
        one = tm.const(1)
        x0, xl = self.xf(tm.const(0)), self.xf(tm.sub(self.n, one))
        if self.mode == "fill":
            return [tm.implies(tm.lt(q, x0), tm.eq(self.app(q), self.fill_lo)), tm.implies(tm.gt(q, xl), tm.eq(self.app(q), self.fill_hi))]
        if self.mode == "extrapolate" and self.kind == "linear":
            y0, y1 = self.yf(tm.const(0)), self.yf(one)
            x1 = self.xf(one)
            n1, n2 = tm.sub(self.n, one), tm.sub(self.n, tm.const(2))
            return [tm.implies(tm.lt(q, x0), tm.eq(self.app(q), tm.add(y0, tm.div(tm.mul(tm.sub(q, x0), tm.sub(y1, y0)), tm.sub(x1, x0))))),
                    tm.implies(tm.gt(q, xl), tm.eq(self.app(q), tm.add(self.yf(n2), tm.div(tm.mul(tm.sub(q, self.xf(n2)), tm.sub(self.yf(n1), self.yf(n2))), tm.sub(xl, self.xf(n2))))))]
        return []


def copy_copy(ex, v):
    used(ex, "copy.copy: new container with the same element objects")
    if isinstance(v, TableV):
        return v.copy(deep=False)
    if isinstance(v, dict):
        return dict(v)
    if isinstance(v, list):
        return list(v)
    if isinstance(v, ArrV):
        return arr_copy(ex, v)
    raise OutOfSubset("copy.copy of " + type(v).__name__)


def copy_deepcopy(ex, v):
    used(ex, "copy.deepcopy: new container with copied elements")
    if isinstance(v, TableV):
        return v.copy(deep=True)
    if isinstance(v, ArrV):
        return arr_copy(ex, v)
    raise OutOfSubset("copy.deepcopy of " + type(v).__name__)


def namedtuple_model(ex, name, fields):
    c = ClassV(name, None, None, [], "namedtuple")
    c.field_names = fields.split() if isinstance(fields, str) else list(fields)
    return c


def np_vectorize(ex, f, otypes=None, **kw):
    """np.vectorize(f[, otypes])(…, arr, …)[j] = f(…, arr[j], …) cast to the output type: otypes if given, otherwise the
    type of the FIRST element's result (a python int there makes the whole result an integer array: later real
    results are truncated)"""
    if kw:
        raise OutOfSubset(f"np.vectorize options {sorted(kw)}")
    ocode = None
    if otypes is not None:
        o0 = otypes[0] if isinstance(otypes, (list, tuple)) else otypes
        ocode = o0.code if isinstance(o0, DTypeV) else {"float": "f8", "int": "i8"}.get(getattr(o0, "name", None) if isinstance(o0, LibFn) else None)
        if ocode is None:
            raise OutOfSubset("np.vectorize otypes")

    def call(ex2, *args):
        args = [a.arr if isinstance(a, MapList) else a for a in args]
        arrs = [a for a in args if isinstance(a, ArrV)]
        if not arrs:
            return ex2.call_merged(f, list(args)) if isinstance(f, FuncV) else ex2.call(f, list(args))
        if len(arrs) != 1:
            raise OutOfSubset("vectorize over several arrays")
        k = [i for i, a in enumerate(args) if isinstance(a, ArrV)][0]
        arr = arrs[0]
        used(ex2, "np.vectorize(f)(…, arr, …)[j] = f(…, arr[j], …), output type = otypes or the type of the first element's result; without otypes a size-0 input raises ValueError")
        if ocode is None and arr.mask is None and arr.ndim == 1:
            # numpy determines the output type by calling f on the first element: there is none in an empty array
            if ex2.decide(tm.eq(arr.shape[0], tm.const(0))):
                raise Raised("ValueError", "cannot call `vectorize` on size 0 inputs unless `otypes` is set")
        one = lambda v: (ex2.call_merged(f, args[:k] + [v] + args[k + 1:]) if isinstance(f, FuncV) else ex2.call(f, args[:k] + [v] + args[k + 1:]))
        res = map_over(ex2, arr, one).arr
        fn = res.cur()
        if ocode is not None:
            if ocode in INT_RANGE:
                return ArrV(res.shape, lambda idx: tm.trunc(fn(idx)), ocode, mask=res.mask)
            return ArrV(res.shape, fn, ocode, mask=res.mask)
        if not isinstance(f, FuncV):
            return res
        # type inference from the first element
        first = arr.get(tm.const(0))
        ex2.merge_mode += 1
        try:
            paths = ex2.nested_paths(f, args[:k] + [first] + args[k + 1:])
        finally:
            ex2.merge_mode -= 1
        int_conds = [tm.land(*pcs) for kind, v, pcs, e_ in paths if kind == "return" and isinstance(v, T) and v.sort == tm.I]
        real_paths = [1 for kind, v, pcs, e_ in paths if kind == "return" and isinstance(v, T) and v.sort != tm.I]
        if not int_conds:
            return res
        if not real_paths:
            return ArrV(res.shape, lambda idx: tm.trunc(fn(idx)), "i8", mask=res.mask)
        c0 = tm.lor(*int_conds)
        return ArrV(res.shape, lambda idx: tm.ite(c0, tm.toreal(tm.trunc(fn(idx))), fn(idx)), "f8", mask=res.mask)

    return LibFn("vectorized", call)


def pd_dataframe(ex, data=None, **kw):
    if isinstance(data, dict):
        cols = {}
        n = None
        for k, v in data.items():
            a = as_array(ex, v)
            if isinstance(a, T):
                raise OutOfSubset("scalar column")
            cols[k] = a
        used(ex, "pandas DataFrame(dict of columns): table with those columns")
        labs = {labels_of(a) for a in cols.values()} - {None}
        if len(labs) > 1:
            raise OutOfSubset("DataFrame built from Series with different row labels")
        # all plain arrays: a fresh RangeIndex; Series among them: their labels
        return TableV(cols, "DataFrame", next(iter(labs)) if labs else None)
    if isinstance(data, RecArrV):
        used(ex, "pandas DataFrame(record array): one column per field")
        return TableV(dict(data.fields), "DataFrame")
    raise OutOfSubset("DataFrame constructor")


def pd_concat(ex, parts, axis=0):
    if int(tm.cval(tm.lift(num(axis)))) != 1:
        raise OutOfSubset("concat axis 0")
    cols = {}
    for p in parts:
        cols.update(p.cols)
    used(ex, "pandas concat(axis=1): columns of all parts side by side")
    return TableV(cols, "DataFrame")


def sparse_diags(ex, diagonals, offsets, format=None, **kw):
    """scipy.sparse.diags([d_-1, d_0, d_1], [-1, 0, 1]): requires len(d_k) = n - |k|; entry (r, c) is
    d_{c-r}[min(r, c)] when c - r is one of the offsets, else 0."""
    offs = [int(tm.cval(tm.lift(o))) for o in offsets]
    diags = [as_array(ex, d) for d in diagonals]
    if 0 not in offs:
        raise OutOfSubset("diags without main diagonal")
    n = diags[offs.index(0)].shape[0]
    for d, o in zip(diags, offs):
        want = tm.sub(n, tm.const(abs(o)))
        if d.shape[0] is not want:
            ok = tm.eq(d.shape[0], want)
            if ok is tm.FALSE:
                raise Raised("ValueError", "Diagonal length does not agree with matrix size")
            if ok is not tm.TRUE:
                Arith(ex).need(ok, f"sparse.diags: diagonal {o} has length n - {abs(o)}")
    used(ex, "scipy.sparse.diags: entry formula, diagonal lengths n-|k|")
    return BandMatV(n, {o: d.cur() for d, o in zip(diags, offs)})


class BandMatV:
    def __init__(self, n, bands):
        self.n = n
        self.bands = bands  # offset -> fn(idx tuple) -> term, indexed by min(r, c)

    def entry(self, r, c):
        out = tm.rconst(0)
        for o, f in self.bands.items():
            k = r if o >= 0 else c
            out = tm.ite(tm.eq(tm.sub(c, r), tm.const(o)), f((k,)), out)
        return out

    def row_dot(self, r, xf):
        """(A x)[r] as a term: sum over the bands that exist for row r"""
        terms = []
        for o, f in sorted(self.bands.items()):
            c = tm.add(r, tm.const(o))
            k = r if o >= 0 else c
            inside = tm.land(tm.le(tm.const(0), c), tm.lt(c, self.n))
            terms.append(tm.ite(inside, tm.mul(f((k,)), xf((c,))), tm.rconst(0)))
        return tm.add(*terms)

    def getattr_model(self, ex, name):
        if name in ("tocsc", "tocsr"):
            return LibFn(name, lambda ex: self)
        raise OutOfSubset("sparse matrix attribute " + name)


def spsolve(ex, A, b):
    """scipy.sparse.linalg.spsolve(A, b): for a nonsingular A returns x with A x = b (idealised)."""
    if not isinstance(A, BandMatV):
        raise OutOfSubset("spsolve of a non-band matrix")
    b = as_array(ex, b)
    if b.shape[0] is not A.n:
        Arith(ex).need(tm.eq(b.shape[0], A.n), "spsolve: right-hand side has the matrix dimension")
    used(ex, "scipy.sparse.linalg.spsolve: returns x with A x = b exactly (idealised; nonsingular A)")
    reg = ex.ghost.setdefault("solves", [])
    name = f"x{len(reg)}@{ex.fresh_var('s').args[0]}"
    xf = lambda idx: tm.app(name, tuple(idx), tm.R)
    bf = b.cur()
    reg.append({"name": name, "A": A, "b": bf, "x": xf, "kind": "exact"})
    ex.qfacts.append(lambda r: tm.implies(tm.land(tm.le(tm.const(0), r), tm.lt(r, A.n)), tm.eq(A.row_dot(r, xf), bf((r,)))))
    return ArrV((A.n,), xf, "f8")


def bicgstab(ex, A, b, x0=None, rtol=None, atol=None, **kw):
    """scipy.sparse.linalg.bicgstab: returns (x, info); info == 0 => ||b - A x|| <= max(rtol ||b||, atol),
    rtol defaulting to 1e-5; info != 0 => nothing is known about x."""
    if not isinstance(A, BandMatV):
        raise OutOfSubset("bicgstab of a non-band matrix")
    b = as_array(ex, b)
    used(ex, "scipy.sparse.linalg.bicgstab: (x, info); info==0 => residual <= max(rtol*|b|, atol), default rtol=1e-5")
    reg = ex.ghost.setdefault("solves", [])
    name = f"x{len(reg)}@{ex.fresh_var('s').args[0]}"
    xf = lambda idx: tm.app(name, tuple(idx), tm.R)
    info = tm.app(name + "_info", (), tm.I)
    reg.append({"name": name, "A": A, "b": b.cur(), "x": xf, "kind": "iterative", "info": info,
                "rtol": tm.rconst("1e-5") if rtol is None else tm.lift(num(rtol)), "atol": tm.rconst(0) if atol is None else tm.lift(num(atol))})
    return (ArrV((A.n,), xf, "f8"), info)


def np_gradient(ex, y, x=None):
    y = as_array(ex, y)
    if x is None:
        used(ex, "np.gradient(y): differences with unit spacing (no coordinate array)")
        ex.ghost.setdefault("gradient", {})[f"gradient{y.id}"] = (y, None)
        return ArrV(y.shape, lambda idx: tm.app("np.gradient", (tm.app(f"arrid{y.id}", ()), tm.app("unit_spacing", ()), idx[0])), "f8")
    x = as_array(ex, x)
    used(ex, "np.gradient(y, x): second-order differences with respect to the coordinate array x")
    name = f"gradient{y.id}"
    ex.ghost.setdefault("gradient", {})[name] = (y, x)
    return ArrV(y.shape, lambda idx: tm.app("np.gradient", (tm.app(f"arrid{y.id}", ()), tm.app(f"arrid{x.id}", ()), idx[0])), "f8")


REGISTRY = {}


def _reg(path, impl):
    REGISTRY[path] = impl if not callable(impl) or isinstance(impl, (LibFn,)) else LibFn(path, impl)


for _mod in ("numpy",):
    _reg(_mod + ".array", np_array)
    _reg(_mod + ".asarray", np_asarray)
    _reg(_mod + ".asanyarray", np_asarray)   # differs from asarray only for ndarray subclasses, which the array model does not distinguish
    _reg(_mod + ".zeros", np_zeros_like_model(0))
    _reg(_mod + ".empty", np_zeros_like_model(None))
    _reg(_mod + ".empty_like", np_empty_like)
    _reg(_mod + ".full_like", np_full_like)
    _reg(_mod + ".ones_like", np_ones_like)
    _reg(_mod + ".zeros_like", np_zeros_like)
    _reg(_mod + ".full", np_full)
    _reg(_mod + ".linspace", np_linspace)
    _reg(_mod + ".arange", np_arange)
    _reg(_mod + ".exp", np_fn1("exp"))
    _reg(_mod + ".log", np_fn1("log"))
    _reg(_mod + ".sqrt", np_fn1("sqrt"))
    _reg(_mod + ".abs", np_fn1("abs"))
    _reg(_mod + ".minimum", np_minimum)
    _reg(_mod + ".maximum", np_maximum)
    _reg(_mod + ".clip", np_clip)
    _reg(_mod + ".any", np_any)
    _reg(_mod + ".ndim", np_ndim)
    _reg(_mod + ".size", np_size)
    _reg(_mod + ".sum", np_sum)
    _reg(_mod + ".cumsum", np_cumsum)
    _reg(_mod + ".gradient", np_gradient)
    _reg(_mod + ".result_type", np_result_type)
    _reg(_mod + ".vectorize", np_vectorize)
    for _nm, _op in (("true_divide", ast.Div), ("divide", ast.Div), ("multiply", ast.Mult), ("add", ast.Add), ("subtract", ast.Sub)):
        _reg(_mod + "." + _nm, (lambda ex, a, b, _op=_op: binop(ex, _op(), a, b)))
    REGISTRY[_mod + ".float64"] = DTypeV("f8")
    _reg(_mod + ".dtype", lambda ex, d: DTypeV(dtype_code(d)))
    REGISTRY[_mod + ".float32"] = DTypeV("f4")
    REGISTRY[_mod + ".int64"] = DTypeV("i8")
    REGISTRY[_mod + ".int32"] = DTypeV("i4")
    REGISTRY[_mod + ".inf"] = tm.INF
    REGISTRY[_mod + ".newaxis"] = None
    REGISTRY[_mod + ".ndarray"] = "ndarray"

_reg("math.exp", lambda ex, x: tm.exp(tm.lift(num(x))))
_reg("math.log", lambda ex, x: Arith(ex).log(tm.lift(num(x))))
_reg("math.sqrt", lambda ex, x: Arith(ex).sqrt(tm.lift(num(x))))
_reg("math.fabs", lambda ex, x: tm.absv(tm.toreal(tm.lift(num(x)))))
for _lv in ("debug", "info", "warning", "error", "critical", "exception", "log"):
    pass
_reg("logging.getLogger", lambda ex, *a, **k: LoggerV())
_reg("functools.partial", lambda ex, f, *a, **k: PartialV(f, a, k))
_reg("copy.copy", copy_copy)
_reg("copy.deepcopy", copy_deepcopy)
_reg("warnings.warn", lambda ex, *a, **k: None)
_reg("warnings.catch_warnings", lambda ex, *a, **k: None)
_reg("warnings.simplefilter", lambda ex, *a, **k: None)
_reg("collections.namedtuple", namedtuple_model)
_reg("numpy.interp", np_interp)
for _op in ("less_equal", "less", "greater", "greater_equal", "equal"):
    _reg("numpy.ma.masked_" + _op, np_ma_masked(_op))
_reg("numpy.diff", np_diff)
_reg("numpy.atleast_1d", np_atleast_1d)
_reg("numpy.squeeze", np_squeeze)
_reg("numpy.argsort", np_argsort)
_reg("scipy.interpolate.interp1d", lambda ex, x, y, **kw: Interp1dV(ex, x, y, **kw))
_reg("scipy.interpolate.interpolate.interp1d", lambda ex, x, y, **kw: Interp1dV(ex, x, y, **kw))
_reg("scipy.integrate.cumulative_trapezoid", cumulative_trapezoid)


def math_isclose(ex, a, b, rel_tol=1e-09, abs_tol=0.0):
    """math.isclose(a, b): |a - b| <= max(rel_tol * max(|a|, |b|), abs_tol)"""
    a, b, rt, at = (tm.toreal(tm.lift(num(v))) for v in (a, b, rel_tol, abs_tol))
    if isinstance(a, ArrV) or isinstance(b, ArrV):
        raise OutOfSubset("math.isclose of arrays")
    return tm.le(tm.absv(tm.sub(a, b)), tm.maximum(tm.mul(rt, tm.maximum(tm.absv(a), tm.absv(b))), at))


_reg("math.isclose", math_isclose)
_reg("scipy.sparse.diags", sparse_diags)
_reg("scipy.sparse.linalg.spsolve", spsolve)
_reg("scipy.sparse.linalg.bicgstab", bicgstab)
_reg("pandas.DataFrame", pd_dataframe)
_reg("pandas.concat", pd_concat)
REGISTRY["RuntimeWarning"] = "RuntimeWarning"
BUILTINS["RuntimeWarning"] = "RuntimeWarning"


# ---- root finding / optimisation / quadrature -------------------------------------------------


def brentq(ex, f, a, b, args=(), xtol=None, rtol=None, maxiter=None, **kw):
    """scipy.optimize.brentq(f, a, b, args): ValueError unless f(a, *args) f(b, *args) < 0 (or an end point is a root);
    otherwise returns r with a <= r <= b and f(r, *args) = 0 (idealised to xtol / rtol)."""
    if kw:
        raise OutOfSubset(f"brentq options {sorted(kw)}")
    extra = list(args) if isinstance(args, (tuple, list)) else [args]
    if extra:
        f0 = f
        f = LibFn("brentq objective with args", lambda ex2, x_: (ex2.call_merged(f0, [x_] + extra) if isinstance(f0, FuncV) else ex2.call(f0, [x_] + extra)))
    a, b = tm.lift(num(a)), tm.lift(num(b))
    used(ex, "scipy.optimize.brentq: ValueError unless f(a) f(b) <= 0; else a <= r <= b and f(r) = 0 (idealised)")
    fa = ex.call_merged(f, [a]) if isinstance(f, FuncV) else ex.call(f, [a])
    fb = ex.call_merged(f, [b]) if isinstance(f, FuncV) else ex.call(f, [b])
    if ex.decide(tm.gt(tm.mul(fa, fb), tm.const(0))):
        raise Raised("ValueError", "f(a) and f(b) must have different signs")
    r = ex.fresh_var("root")
    fr = ex.call_merged(f, [r]) if isinstance(f, FuncV) else ex.call(f, [r])
    ex.facts.append(tm.land(tm.le(tm.minimum(a, b), r), tm.le(r, tm.maximum(a, b)), tm.eq(fr, tm.rconst(0))))
    ex.ghost.setdefault("roots", []).append({"root": r, "a": a, "b": b, "fa": fa, "fb": fb, "residual_at_root": fr, "tol": (xtol, rtol)})
    return r


def minimize(ex, f, x0, bounds=None, **kw):
    """scipy.optimize.minimize(f, x0, bounds=...): the result lies within the bounds; NO optimality
    guarantee (a local search may stop anywhere, including on a bound)."""
    used(ex, "scipy.optimize.minimize: result within bounds; no optimality guarantee")
    x0 = tm.lift(num(x0))
    r = ex.fresh_var("argmin")
    if bounds is not None:
        (lo, hi), = bounds
        ex.facts.append(tm.land(tm.le(tm.lift(num(lo)), r), tm.le(r, tm.lift(num(hi)))))
    res = ObjV(ClassV("OptimizeResult", None, None, []))
    res.fields["x"] = sx.arr_from_list([r])
    ex.ghost.setdefault("minimize", []).append({"argmin": r, "objective": f})
    return res


def quad(ex, f, a, b, limit=None, **kw):
    """scipy.integrate.quad(f, a, b): (integral of f from a to b, error estimate); idealised exact."""
    a, b = tm.lift(num(a)), tm.lift(num(b))
    used(ex, "scipy.integrate.quad: returns the exact integral of f over [a, b] (idealised) and an error estimate")
    x = ex.fresh_var("quadvar")
    ex.merge_mode += 1
    try:
        body = ex.call_merged(f, [x]) if isinstance(f, FuncV) else ex.call(f, [x])
    finally:
        ex.merge_mode -= 1
    reg = ex.ghost.setdefault("integrals", [])
    name = f"∫{len(reg)}"
    reg.append({"name": name, "var": x, "integrand": body, "a": a, "b": b})
    return (tm.app(name, (a, b), tm.R), tm.app(name + "_err", (), tm.R))


_reg("scipy.optimize.brentq", brentq)
_reg("scipy.optimize.minimize", minimize)
_reg("scipy.integrate.quad", quad)


def curve_fit(ex, f, xdata, ydata, p0=None, bounds=None, **kw):
    """scipy.optimize.curve_fit(f, x, y, p0, bounds=(lo, hi)): ValueError unless lo <= p0 <= hi for every
    parameter; returns (popt, pcov) with lo <= popt <= hi, popt a local least-squares optimum."""
    method = kw.pop("method", None)
    if kw:
        raise OutOfSubset(f"curve_fit options {sorted(kw)}")
    if method is not None:
        # 'trf' (the default with bounds) and 'dogbox' are both bounded methods with the same documented contract; which
        # local optimum they reach is NOT part of the contract (the round-trip clause is decided by the bounded layer)
        if method not in ("trf", "dogbox"):
            raise OutOfSubset(f"curve_fit(method={method!r})")
        ex.ghost.setdefault("curve_fit_method", []).append(method)
    used(ex, "scipy.optimize.curve_fit: ValueError unless lo <= p0 <= hi; result within [lo, hi] (local least-squares optimum)")
    p0 = [tm.lift(num(v)) for v in (p0.tolist() if isinstance(p0, ArrV) else list(p0))]
    n = len(p0)
    if bounds is None:
        lo, hi = [None] * n, [None] * n
    else:
        lo, hi = bounds

        def expand(b):
            if isinstance(b, (tuple, list)):
                if len(b) != n:
                    raise Raised("ValueError", "Inconsistent shapes between bounds and `x0`")
                return [tm.lift(num(v)) for v in b]
            return [tm.lift(num(b))] * n

        lo, hi = expand(lo), expand(hi)
    infeasible = tm.lor(*[tm.lor(tm.lt(p, l), tm.gt(p, h)) for p, l, h in zip(p0, lo, hi) if l is not None])
    if ex.decide(infeasible):
        raise Raised("ValueError", "Initial guess is outside of provided bounds")
    bad_bounds = tm.lor(*[tm.ge(l, h) for l, h in zip(lo, hi) if l is not None])
    if ex.decide(bad_bounds):
        raise Raised("ValueError", "Each lower bound must be strictly less than each upper bound")
    popt = [ex.fresh_var(f"popt{k}") for k in range(n)]
    for v, l, h in zip(popt, lo, hi):
        if l is not None:
            ex.facts.append(tm.land(tm.le(l, v), tm.le(v, h)))
    ex.ghost.setdefault("curve_fit", []).append({"f": f, "p0": p0, "lo": lo, "hi": hi, "popt": popt, "x": xdata, "y": ydata})
    return (sx.arr_from_list(popt), OpaqueValue("pcov"))


class OpaqueValue:
    def __init__(self, name):
        self.name = name


_reg("scipy.optimize.curve_fit", curve_fit)


# ---- pandas / scipy.ndimage / lmfit / matplotlib entry points used by forecast_pressure.py and plotting.py -------


def pd_notna(ex, v):
    v = as_array(ex, v)
    used(ex, "pandas.notna: element-wise 'is not missing'")
    return ew(ex, lambda ar, x: tm.app("notna", [x], tm.B), v, dtype="b")


def uniform_filter1d(ex, x, size=None, **kw):
    """scipy.ndimage.uniform_filter1d(x, size): size == 1 => the input unchanged (idealised: equal up to the last bit);
    otherwise a running mean, kept opaque"""
    x = as_array(ex, x)
    size = tm.lift(num(size))
    used(ex, "scipy.ndimage.uniform_filter1d(x, size=1) == x; other sizes: opaque running mean of x")
    if tm.is_const(size) and tm.cval(size) == 1:
        return arr_copy(ex, x)
    f = x.cur()
    tag = getattr(x, "name", None) or f"arr{x.id}"
    ex.ghost.setdefault("filters", []).append({"input": x, "size": size})
    return ArrV(x.shape, lambda idx: tm.ite(tm.eq(size, tm.const(1)), f(idx), tm.app(f"boxcar[{tag}]", (size,) + tuple(idx), tm.R)), "f8", name=f"boxcar[{tag}]")


class ParamV:
    def __init__(self, name, value, lo, hi):
        self.name, self.value, self.min, self.max = name, value, lo, hi

    def getattr_model(self, ex, name):
        if name in ("value", "min", "max", "name"):
            return getattr(self, name)
        raise OutOfSubset("Parameter." + name)


class ParamsV:
    def __init__(self):
        self.items = {}

    def getattr_model(self, ex, name):
        if name == "add":
            def add(ex, pname, value=None, vary=True, min=None, max=None, **kw):
                if kw:
                    raise OutOfSubset(f"Parameters.add options {sorted(kw)}")
                self.items[pname] = ParamV(pname, tm.lift(num(value)), None if min is None else tm.lift(num(min)), None if max is None else tm.lift(num(max)))
                used(ex, "lmfit.Parameters.add(name, value, min, max): declares the parameter with its limits")
            return LibFn("Parameters.add", add)
        raise OutOfSubset("Parameters." + name)

    def getitem_model(self, ex, key):
        if key not in self.items:
            raise Raised("KeyError", str(key))
        return self.items[key]


class MinimizerV:
    def __init__(self, ex, fcn, params, fcn_args=(), **kw):
        if kw:
            raise OutOfSubset(f"Minimizer options {sorted(kw)}")
        self.fcn, self.params, self.fcn_args = fcn, params, tuple(fcn_args)
        used(ex, "lmfit.Minimizer(fcn, params, fcn_args).minimize(...): calls fcn(params, *fcn_args); every returned parameter value lies within its [min, max]")

    def getattr_model(self, ex, name):
        if name == "minimize":
            def minimize(ex, method=None, max_nfev=None, **kw):
                res = ParamsV()
                for pname, prm in self.params.items.items():
                    v = ex.fresh_var(f"fit_{pname}")
                    if prm.min is not None:
                        ex.facts.append(tm.le(prm.min, v))
                    if prm.max is not None:
                        ex.facts.append(tm.le(v, prm.max))
                    res.items[pname] = ParamV(pname, v, prm.min, prm.max)
                out = MinimizerResultV(res, self)
                ex.ghost.setdefault("minimize_calls", []).append({"minimizer": self, "method": method, "max_nfev": max_nfev, "result": out})
                return out
            return LibFn("Minimizer.minimize", minimize)
        raise OutOfSubset("Minimizer." + name)


class MinimizerResultV:
    def __init__(self, params, minimizer):
        self.params, self.minimizer = params, minimizer

    def getattr_model(self, ex, name):
        if name == "params":
            return self.params
        if name in ("aborted", "success") and ex.trail is not None:
            # whether the optimiser ran out of its budget is not determined by anything the contract knows: both outcomes are explored
            return ex.decide(tm.var(f"minimizer_{name}", tm.B))
        raise OutOfSubset("MinimizerResult." + name)


class AxesV:
    _n = [0]

    def __init__(self, ex):
        AxesV._n[0] += 1
        self.id = AxesV._n[0]
        used(ex, "matplotlib Axes.plot(x, y, ...) draws one curve carrying exactly (x, y); set/legend/set_xticks draw nothing")

    def getattr_model(self, ex, name):
        if name == "plot":
            def plot(ex, x, y, *fmt, **kw):
                ex.ghost.setdefault("effects", []).append({"kind": "plot", "ax": self, "x": x, "y": y, "pc": list(ex.pc)})
                return [None]
            return LibFn("Axes.plot", plot)
        if name in ("set", "legend", "set_xticks", "set_xlabel", "set_ylabel", "set_xlim", "set_ylim", "set_xscale", "set_yscale"):
            return LibFn("Axes." + name, lambda ex, *a, **k: None)
        raise OutOfSubset("Axes." + name)


class FigV:
    def getattr_model(self, ex, name):
        if name in ("set_size_inches", "tight_layout", "suptitle"):
            return LibFn("Figure." + name, lambda ex, *a, **k: None)
        raise OutOfSubset("Figure." + name)


def plt_subplots(ex, nrows=1, ncols=1, **kw):
    nr = int(tm.cval(tm.lift(num(nrows))))
    nc = int(tm.cval(tm.lift(num(ncols))))
    axes = [AxesV(ex) for _ in range(nr * nc)]
    ex.ghost.setdefault("axes", []).extend(axes)
    if nr * nc == 1:
        return (FigV(), axes[0])
    return (FigV(), tuple(axes))


def np_round(ex, v, decimals=0):
    v = as_array(ex, v)
    return ew(ex, lambda ar, x: tm.app("round", [x, tm.lift(num(decimals))], tm.R), v, real_result=True)


def np_logspace(ex, a, b, n):
    n_ = tm.lift(num(n))
    a_, b_ = tm.lift(num(a)), tm.lift(num(b))
    return ArrV((n_,), lambda idx: tm.app("logspace", [a_, b_, n_, idx[0]], tm.R), "f8")


_reg("pandas.notna", pd_notna)
_reg("scipy.ndimage.uniform_filter1d", uniform_filter1d)
_reg("lmfit.Parameters", lambda ex: ParamsV())
_reg("lmfit.Minimizer", lambda ex, fcn, params, **kw: MinimizerV(ex, fcn, params, **kw))
_reg("matplotlib.pyplot.subplots", plt_subplots)
_reg("numpy.round", np_round)
_reg("numpy.logspace", np_logspace)


from . import libmodels_ext as _ext  # noqa: E402

_ext.install()
