"""Shared set-up for the reservoir contracts (C01-C04, C10, C17, C18, C20): symbolic FlowProperties objects built by
executing the real constructor (C09), symbolic reservoirs, and symbolic execution of simulate()."""
from __future__ import annotations

from .. import term as tm
from ..symex import ArrV, ObjV, TableV
from . import c09
from .common import *  # noqa: F403

nt = tm.var("nt", tm.I)
nx = tm.var("nx", tm.I)
pf, p_init = tm.var("p_f"), tm.var("p_init")
ISIM = RES + "IdealReservoir.simulate"
SSIM = RES + "SinglePhaseReservoir.simulate"
RF = RES + "IdealReservoir.recovery_factor"
RFI = RES + "IdealReservoir.recovery_factor_interpolator"
BM = RES + "_build_matrix"


def make_fluid(ctx, cols=None, kind="DataFrame"):
    """FlowProperties object obtained by symbolic execution of the real constructor on a table of symbolic length;
    returns (object, constructor outcome)"""
    cols = cols or (c09.LONG + ["density"])
    outs = c09.run_init(ctx, c09.INIT, "FlowProperties", cols, kind)
    o = c09.ret_of(outs)
    return c09.obj_of(o), o


TIME_DTYPE = ["f8"]  # contracts switch this to "i8" to run the same obligations on an integer-typed time grid


def time_arr():
    if TIME_DTYPE[0] == "i8":
        return ArrV((nt,), lambda i: tm.app("t", i, tm.I), "i8", name="t")
    return ArrV((nt,), lambda i: tm.app("t", i), "f8", name="t")


class int_time:
    """context: the time grid is an int64 array (np.arange(...) days)"""

    def __enter__(self):
        TIME_DTYPE[0] = "i8"

    def __exit__(self, *a):
        TIME_DTYPE[0] = "f8"


def sched_arr(length=None):
    return ArrV((length if length is not None else nt,), lambda i: tm.app("pf_sched", i), "f8", name="pf_sched")


def make_reservoir(ctx, cls, fluid, extra=None):
    """a reservoir as callers can have it: built by the real constructor (dataclass __init__ + __post_init__) from one
    set of values, after which the public fields are REASSIGNED (the dataclass is not frozen: a drawdown sweep re-uses one
    object).  Methods must follow the current attributes, so anything captured at construction shows.  `extra`: further
    state (times, field, cache) as earlier calls would have left it."""
    C = ctx.engine.cls(RES + cls)
    init = [tm.var("nx_at_construction", tm.I), tm.var("pf_at_construction"), tm.var("pi_at_construction"), fluid]
    outs = [o_ for o_ in ctx.engine.run_paths(C, init, pc=[tm.ge(init[0], tm.const(3))]) if o_.kind == "return"]
    if len(outs) != 1 or not isinstance(outs[0].value, ObjV):
        raise sx.OutOfSubset(f"{cls}(...): expected one constructed object, found {len(outs)} returning paths")
    r = outs[0].value
    r.fields.update({"nx": nx, "pressure_fracface": pf, "pressure_initial": p_init, "fluid": fluid})
    r.fields.update(extra or {})
    r.writes = []
    return r


def run_simulate(ctx, cls="SinglePhaseReservoir", schedule="none", state=None, pc=(), sched_len=None):
    """symbolic execution of simulate(); schedule in {'none', 'array'}; state: extra fields on the object before the call"""
    holder = {}

    def mk():
        fluid, fo = (make_fluid(ctx) if cls != "IdealReservoir" else (None, None))
        holder["fluid"], holder["fluid_outcome"] = fluid, fo
        r = make_reservoir(ctx, cls, fluid, state() if callable(state) else state)
        holder["res"] = r
        args = [r, time_arr()]
        kw = {}
        if schedule == "array":
            kw["pressure_fracface"] = sched_arr(sched_len)
        return args, kw

    q = SSIM if cls != "IdealReservoir" else ISIM
    base = [tm.ge(nt, tm.const(2)), tm.ge(nx, tm.const(3))] + list(pc)
    if cls != "IdealReservoir":
        # the fluid constructor's own path condition (p_i inside the table) belongs to the precondition
        pass
    outs = ctx.engine.run_paths(ctx.engine.func(q), mk, pc=base)
    return outs, holder


# ---- modular treatment of the two helpers of the time step: callers see only these contracts --------------------
#   _build_matrix(kt): tridiagonal n x n with main[r] = 1 + 2 kt[r] (r < n-1), main[n-1] = 1 + kt[n-1],
#                      lower[r] = -kt[r+1], upper[r] = -kt[r]        (verified against the body: C04 build_matrix.*)
#   _solve(A, b):      returns x with A x = b exactly               (verified against the body: C04 solve.contract)
from ..libmodels import BandMatV, as_array, used  # noqa: E402


def bm_spec(n, K):
    one = tm.const(1)
    return BandMatV(n, {0: (lambda idx: tm.ite(tm.eq(idx[0], tm.sub(n, one)), tm.add(tm.rconst(1), K(idx[0])), tm.add(tm.rconst(1), tm.mul(tm.rconst(2), K(idx[0]))))),
                        -1: (lambda idx: tm.neg(K(tm.add(idx[0], one)))), 1: (lambda idx: tm.neg(K(idx[0])))})


def install_contracts(ctx):
    def bm_handler(ex, args, kw):
        kt = as_array(ex, args[0])
        calls = ex.ghost.setdefault("bm_calls", [])
        name = f"K{len(calls)}"
        K = lambda j, name=name: tm.app(name, [j], tm.R)
        n = kt.shape[0]
        calls.append({"K": K, "arg": kt, "arg_fn": kt.cur(), "n": n, "name": name})
        A = bm_spec(n, K)
        A.from_call = calls[-1]
        used(ex, "contract of _build_matrix (verified separately: C04 build_matrix.*)")
        return A

    def solve_handler(ex, args, kw):
        A, b = args[0], as_array(ex, args[1])
        if not isinstance(A, BandMatV):
            raise sx.OutOfSubset("_solve called with something else than a band matrix")
        solves = ex.ghost.setdefault("solves", [])
        name = f"X{len(solves)}"
        xf = lambda idx, name=name: tm.app(name, tuple(idx), tm.R)
        solves.append({"name": name, "A": A, "b": b.cur(), "b_arr": b, "x": xf, "kind": "contract"})
        used(ex, "contract of _solve (verified separately: C04 solve.contract)")
        return ArrV((A.n,), xf, "f8")

    ctx.engine.opaque[BM] = bm_handler
    ctx.engine.opaque[RES + "_solve"] = solve_handler


def uninstall_contracts(ctx):
    ctx.engine.opaque.pop(BM, None)
    ctx.engine.opaque.pop(RES + "_solve", None)


PATH_SELECT = [0]   # which returning path of simulate() the Step objects of the running obligation look at
LAST_NPATHS = [1]   # largest number of returning paths met while the obligation ran


class Step:
    """one symbolic time step i -> i+1 of simulate(), with the callee contracts in place"""

    def __init__(self, ctx, cls, schedule="none", state=None, pc=()):
        install_contracts(ctx)
        try:
            self.outs, self.h = run_simulate(ctx, cls, schedule, state, pc)
        finally:
            uninstall_contracts(ctx)
        rets = [o for o in self.outs if o.kind == "return"]
        if len(rets) == 0:
            raise sx.OutOfSubset(f"simulate: no returning path of {len(self.outs)}")
        # several returning paths (e.g. a buffer whose dtype depends on the size of the run): every obligation has to hold on each
        # of them; the runner (oblig._run_one) repeats the obligation with PATH_SELECT = 1, 2, ... while it stays proved
        LAST_NPATHS[0] = max(LAST_NPATHS[0], len(rets))
        self.o = o = rets[min(PATH_SELECT[0], len(rets) - 1)]
        self.npaths = len(rets)
        g = o.heap["ghost"]
        loops = [L for L in g.get("loops", []) if "arrays" in L]
        if len(loops) != 1 or list(loops[0]["arrays"]) != ["pseudopressure"]:
            raise sx.OutOfSubset("simulate: expected one time loop writing pseudopressure")
        self.L = L = loops[0]
        self.i, self.N = L["index"], L["N"]
        pa = L["arrays"]["pseudopressure"]
        self.PPname = pa["symbol"]
        self.PP = lambda r, c: tm.app(self.PPname, (r, c), tm.R)
        self.pre = pa["pre"]
        self.newrow = pa["newrow"]
        self.solves = L["solves"]
        self.bm = [c for c in g.get("bm_calls", [])]
        self.res = o.heap["args"][0]
        self.cls = cls
        self.n = self.res.fields["nx"]
        if cls != "IdealReservoir":
            fl = self.h["fluid"]
            self.fluid = fl
            self.A = fl.fields["alpha"]
            self.M = fl.fields["m_scaled_func"]
            self.m_i = fl.fields["m_i"]

    def single(self):
        if len(self.solves) != 1 or len(self.bm) != 1:
            raise sx.OutOfSubset(f"time step with {len(self.solves)} solves and {len(self.bm)} matrix assemblies")
        return self.solves[0], self.bm[0]


def alpha_facts(S, formulas):
    """C09 postcondition alpha.range instantiated at every alpha lookup occurring in the formulas:
    0 < min alpha <= alpha(q) <= max alpha   (FlowProperties.valid())"""
    A = S.A
    if getattr(A, "mode", None) != "fill" or getattr(A, "kind", "linear") != "linear":
        raise sx.OutOfSubset("the diffusivity lookup is not a clipped linear interpolant: FlowProperties.valid() (C09 alpha.range) is not available")
    out = [tm.gt(A.fill_lo, tm.rconst(0)), tm.le(A.fill_lo, A.fill_hi)]
    seen = set()
    for f in formulas:
        for nd in tm.postorder(f):
            if nd.op == "app" and nd.args[0] == A.name and nd not in seen:
                seen.add(nd)
                out.append(tm.land(tm.le(A.fill_lo, nd), tm.le(nd, A.fill_hi)))
    return out


def mono_facts(S, queries):
    """C09 postcondition init.mscaled_increasing (as a function) instantiated at pairs of queries: q1 <= q2 => M(q1) <= M(q2)"""
    out = []
    for a in queries:
        for b in queries:
            if a is not b:
                out.append(tm.implies(tm.le(a, b), tm.le(S.M.app(a), S.M.app(b))))
    return out


def inr(j, n):
    return tm.land(tm.le(tm.const(0), j), tm.lt(j, n))


def dependency_obligations(ctx, which=("build_matrix", "solve", "alpha", "mscaled", "twophase", "mesh")):
    """the callee / data-structure contracts a reservoir proof rests on, re-verified inside the dependent check
    (a change inside a callee is noticed by the callee's own obligation, under the dependent property's id)"""
    from . import c04, c09
    out = []
    want = []
    if "build_matrix" in which:
        want += [("c04", "build_matrix.shape"), ("c04", "build_matrix.entries"), ("c04", "build_matrix.mmatrix")]
    if "solve" in which:
        want += [("c04", "solve.contract")]
    if "alpha" in which:
        want += [("c09", "alpha.range")]
    if "mscaled" in which:
        want += [("c09", "init.mscaled_increasing.long"), ("c09", "init.mscaled_increasing.alpha"), ("c09", "init.frame")]
    if "twophase" in which:
        want += [("c04", "twophase.delegates")]
    if "mesh" in which:
        want += [("c04", "ideal.step.mesh_ratio"), ("c04", "single.step.mesh_ratio")]
    built = {}
    for modname, oid in want:
        if modname not in built:
            built[modname] = {o.id: o for o in {"c04": c04, "c09": c09}[modname].build(ctx)}
        src = built[modname][oid]
        out.append(Obligation("dep." + oid, f"[contract relied upon, {modname.upper()}] " + src.statement, src.run, src.functions, src.backend, src.replay, src.assumptions))
    return out


# ---- method-level contracts for callers of the reservoir (forecast_pressure.py, plotting.py) ------------------------
#   FlowProperties(table, p_i)                    the wrapper of that table at that initial pressure (C09)
#   SinglePhaseReservoir.simulate(time, schedule) stores time and a field that is a function of (nx, fluid, time, schedule) only (C10)
#   recovery_factor()                             RF(current state, mode), stored as the cache (C10)


def install_method_contracts(ctx):
    def fp_init(ex, args, kw):
        obj, table, p_i = args[0], args[1], args[2]
        calls = ex.ghost.setdefault("fp_ctor", [])
        obj.fields["ctor"] = {"table": table, "p_i": p_i, "id": len(calls)}
        obj.fields["m_i"] = tm.app(f"m_i@fp{len(calls)}", [tm.lift(p_i)] if isinstance(p_i, tm.T) else [])
        calls.append(obj.fields["ctor"])
        used(ex, "contract of FlowProperties.__init__ (C09)")
        return None

    def simulate(ex, args, kw):
        res, time = args[0], as_array(ex, args[1])
        sched = kw.get("pressure_fracface") if "pressure_fracface" in kw else (args[2] if len(args) > 2 else None)
        sims = ex.ghost.setdefault("sim_calls", [])
        kk = len(sims)
        if sched is not None:
            sched = as_array(ex, sched)
            if sched.shape[0] is not time.shape[0]:
                bad = tm.ne(sched.shape[0], time.shape[0])
                if ex.decide(bad):
                    raise sx.Raised("ValueError", "Pressure time series does not match time variable")
        sims.append({"receiver": res, "fields": dict(res.fields), "time": time, "time_fn": time.cur(), "schedule": sched, "schedule_fn": (sched.cur() if sched is not None else None), "id": kk, "cls": res.cls.name})
        res.fields["time"] = time
        res.fields.pop("recovery", None)
        nxv = res.fields["nx"]
        res.fields["pseudopressure"] = ArrV((time.shape[0], tm.lift(nxv)), lambda idx, kk=kk: tm.app(f"SIM{kk}", idx, tm.R), "f8", name=f"SIM{kk}")
        res.fields["_sim"] = kk
        res.writes.append(("set", "time"))
        res.writes.append(("set", "pseudopressure"))
        used(ex, "contract of simulate() (C10: stored field is a function of the arguments and constructor fields only)")
        return None

    def recovery_factor(ex, args, kw):
        res = args[0]
        if (len(args) > 1 and args[1] is not None) or kw.get("time") is not None:
            pass
        if "time" not in res.fields:
            raise sx.Raised("RuntimeError", "Need to run simulate before calculating recovery factor")
        rfs = ex.ghost.setdefault("rf_calls", [])
        kk = len(rfs)
        dens = kw.get("density", args[2] if len(args) > 2 else False)
        t = res.fields["time"]
        arr = ArrV((t.shape[0],), lambda idx, kk=kk: tm.app(f"RF{kk}", idx, tm.R), "f8", name=f"RF{kk}")
        rfs.append({"receiver": res, "sim": res.fields.get("_sim"), "density": dens, "id": kk, "array": arr})
        res.fields["recovery"] = arr
        used(ex, "contract of recovery_factor() (C10: RF(current state, mode))")
        return arr

    ctx.engine.opaque[FP + "FlowProperties.__init__"] = fp_init
    ctx.engine.opaque[SSIM] = simulate
    ctx.engine.opaque[ISIM] = simulate
    ctx.engine.opaque[RF] = recovery_factor


def uninstall_method_contracts(ctx):
    for q in (FP + "FlowProperties.__init__", SSIM, ISIM, RF):
        ctx.engine.opaque.pop(q, None)


def twophase_delegates(ctx):
    """obligation body: TwoPhaseReservoir.simulate(time) is exactly one SinglePhaseReservoir.simulate(time) on the same
    object (no schedule), and writes nothing else - so every contract of SinglePhaseReservoir.simulate carries over"""
    def run():
        f = ctx.engine.func(RES + "TwoPhaseReservoir.simulate")
        install_method_contracts(ctx)
        holder = {}
        try:
            def mk():
                fluid, _ = make_fluid(ctx)
                r = make_reservoir(ctx, "TwoPhaseReservoir", fluid, {"Sw_init": tm.var("Sw0")})
                holder["r"], holder["t"] = r, time_arr()
                return [r, holder["t"]], {}
            outs = [o for o in ctx.engine.run_paths(f, mk, pc=[tm.ge(nt, tm.const(2)), tm.ge(nx, tm.const(3))]) if o.kind != "infeasible"]
        finally:
            uninstall_method_contracts(ctx)
        bad = lambda msg: be.Verdict(be.REFUTED, "STRUCT", witness={}, detail="TwoPhaseReservoir.simulate: " + msg)
        if len(outs) != 1 or outs[0].kind != "return":
            return bad(f"{len(outs)} paths ({[o.kind for o in outs]}) where SinglePhaseReservoir.simulate(time) without schedule has one")
        o = outs[0]
        g = o.heap["ghost"]
        sims = g.get("sim_calls", [])
        r = o.heap["args"][0]
        if len(sims) != 1 or sims[0]["receiver"] is not r or sims[0]["schedule"] is not None or sims[0]["cls"] != "TwoPhaseReservoir":
            return bad(f"{len(sims)} calls of the inherited simulate (expected one, on self, without a schedule)")
        jj = tm.var("__j", tm.I)
        if sims[0]["time"].shape != o.heap["args"][1].shape or sims[0]["time_fn"]((jj,)) is not tm.app("t", [jj], (tm.I if TIME_DTYPE[0] == "i8" else tm.R)):
            return bad("the inherited simulate is not given the caller's time grid")
        extra = list(r.writes)
        for w_ in (("set", "time"), ("set", "pseudopressure")):
            if w_ in extra:
                extra.remove(w_)
        if extra or g.get("global_writes"):
            return bad(f"further state written besides the inherited simulate's: {extra or g.get('global_writes')}")
        ppf = r.fields.get("pseudopressure")
        if not isinstance(ppf, ArrV) or getattr(ppf, "name", None) != "SIM0" or ppf.get(jj, jj) is not tm.app("SIM0", (jj, jj), tm.R):
            return bad("the stored field is not the one the inherited simulate stored")
        before = {k: v for k, v in sims[0]["fields"].items()}
        for k in ("nx", "pressure_fracface", "pressure_initial", "fluid"):
            if before.get(k) is not r.fields.get(k):
                return bad(f"field {k} changed before or after the inherited simulate")
        tf = r.fields.get("time")
        if not isinstance(tf, ArrV) or tf is not sims[0]["time"] or r.fields.get("_sim") != 0:
            return bad("the stored state is not that of the inherited simulate")
        return be.Verdict(be.PROVED, "STRUCT", detail="one inherited simulate(time) on self, no schedule, no other write")

    def replay(w):
        import warnings
        import numpy as np
        from ..rt import c01 as rt1
        warnings.simplefilter("ignore")
        flow = __import__("bluebonnet.flow", fromlist=["x"])
        for name, tgrid in (("gas", np.linspace(0, 2, 30) ** 2), ("syn_kinked", np.arange(0, 12)), ("gas:desc", np.linspace(0, 1, 8))):
            fluid = rt1.make_fluid(name)
            p_i = rt1.P_INITIAL[name]
            a = flow.reservoir.TwoPhaseReservoir(12, 0.3 * p_i + 0.75, p_i, fluid)
            b = flow.reservoir.SinglePhaseReservoir(12, 0.3 * p_i + 0.75, p_i, fluid)
            a.Sw_init = 0.2
            a.simulate(tgrid.copy())
            b.simulate(tgrid.copy())
            same = np.array_equal(np.asarray(a.time), np.asarray(b.time)) and np.asarray(a.pseudopressure).shape == np.asarray(b.pseudopressure).shape and np.allclose(a.pseudopressure, b.pseudopressure, rtol=1e-13, atol=0) \
                and np.allclose(a.recovery_factor(), b.recovery_factor(), rtol=1e-12, atol=1e-15) and a.pressure_fracface == b.pressure_fracface
            if not same:
                return {"reproduced": True, "input": {"table": name, "nx": 12, "p_f": 0.3 * p_i + 0.75, "p_i": p_i, "Sw_init": 0.2, "time": tgrid.tolist()},
                        "observed": {"max |difference| of the fields": float(np.max(np.abs(np.asarray(a.pseudopressure) - np.asarray(b.pseudopressure)))) if np.asarray(a.pseudopressure).shape == np.asarray(b.pseudopressure).shape else "shapes differ"},
                        "required": "TwoPhaseReservoir.simulate(time) leaves the state SinglePhaseReservoir.simulate(time) leaves"}
        return {"reproduced": False}

    return Obligation("twophase.delegates", "TwoPhaseReservoir.simulate(time) is exactly one inherited SinglePhaseReservoir.simulate(time) on the same object with no schedule and no further write (every contract of the single-phase time stepping carries over to the two-phase class)",
                      run, [RES + "TwoPhaseReservoir.simulate"], "STRUCT", replay)


def int_grid_replay(w=None):
    """concrete scenario: whole-day integer time stamps and a non-integer frac-face pressure; the scalar setting must
    equal the constant schedule, and the frac-face node of level 0 must be m_scaled_func(p_f)"""
    import warnings
    import numpy as np
    import pandas as pd
    warnings.simplefilter("ignore")
    flow = __import__("bluebonnet.flow", fromlist=["x"])
    pvt = pd.read_csv("/repo/tests/data/pvt_gas.csv").rename(columns={"P": "pressure", "Z-Factor": "z-factor", "Cg": "compressibility", "Viscosity": "viscosity", "Density": "density"})
    fp = flow.FlowProperties(pvt, 8000.0)
    pf_ = 1000.75
    for t in (np.arange(0, 40), np.arange(0, 40, dtype="int32")):
        a = flow.SinglePhaseReservoir(12, pf_, 8000.0, fp)
        a.simulate(t / 1)  # float copy of the same instants
        b = flow.SinglePhaseReservoir(12, pf_, 8000.0, fp)
        b.simulate(t)
        c = flow.SinglePhaseReservoir(12, pf_, 8000.0, fp)
        c.simulate(t, np.full(len(t), pf_))
        m_f = float(fp.m_scaled_func(pf_))
        if b.pseudopressure[0, 0] != m_f or not np.array_equal(b.pseudopressure, c.pseudopressure) or not np.allclose(a.pseudopressure, b.pseudopressure, rtol=0, atol=1e-12):
            return {"reproduced": True, "input": {"time": f"np.arange(0, 40) ({t.dtype})", "p_f": pf_, "p_i": 8000.0, "nx": 12, "table": "tests/data/pvt_gas.csv"},
                    "observed": {"pp[0,0]": float(b.pseudopressure[0, 0]), "max |scalar - constant schedule|": float(np.abs(b.pseudopressure - c.pseudopressure).max()), "max |int grid - float grid|": float(np.abs(a.pseudopressure - b.pseudopressure).max())},
                    "required": {"pp[0,0]": m_f, "differences": 0.0}}
    return {"reproduced": False}
