"""C15  Multiphase pseudopressure is the pressure integral of total mobility.

  m3.integrand     the integrand handed to the quadrature is the documented total mass mobility (docs/background.md:88-96)
  m3.is_cumtrapz   result == cumulative trapezoid of y = lambda_t(p_j, So_j) over x = p_j: first entry 0, increment
                   (p_k - p_{k-1}) (lambda_k + lambda_{k-1}) / 2   (argument order is part of the library model)
  m3.increasing    strictly increasing where mobility is positive and pressure increases
  m3.linear        scales with any constant factor applied to mobility
  from_table.m3    from_table hands exactly this column (with pressure and alpha_multiphase) to the wrapper; by C09's
                   alpha-branch contract the scaled pseudopressure is then strictly increasing, 1 at p_i, [0,1) below
"""
from __future__ import annotations

from .. import backends as be
from .. import term as tm
from ..symex import ArrV, TableV
from . import c16
from .common import *  # noqa: F403

LEVEL = "proof"
EXPLANATION = "pseudopressure_threephase is executed on arrays of symbolic length; the quadrature call is identified through the library model of cumulative_trapezoid (argument order included) and its increment is compared with the trapezoid of the documented mobility (CAS); positivity / linearity of the increment are SMT / CAS lemmas; from_table is executed symbolically"
TRUSTED = ["scipy cumulative_trapezoid(y, x, initial=0): out[0]=0, out[k]=out[k-1]+(x[k]-x[k-1])(y[k]+y[k-1])/2", "scipy interp1d model; pandas table model"]
ASSUMPTIONS = ["p_i is not inside the first table interval: the multiphase pseudopressure is 0 at the first row, so the wrapper's 1/m is infinite there (edge of the table, outside the property's quantifier over tables/rel-perm sets/densities/grids)",
               "the consequence for the scaled pseudopressure (1 at p_i, increasing, [0,1) below) is C09's alpha-branch contract applied to this column"]

M3 = c16.M3
n = tm.var("n", tm.I)
k = tm.var("k", tm.I)


def run_m3(ctx, scale=None):
    def mk():
        pr = ArrV((n,), lambda i: tm.app("P", i), "f8", name="P")
        so = ArrV((n,), lambda i: tm.app("SO", i), "f8", name="SO")
        pvt = c16.pvt_dict()
        if scale is not None:
            for key in ("rho_o0", "rho_g0", "rho_w0"):
                pvt[key] = scale * pvt[key]
        return [pr, so, pvt, c16.kr_dict()], {}

    outs = ctx.engine.run_paths(ctx.engine.func(M3), mk, pc=[tm.ge(n, tm.const(2))])
    if len(outs) != 1 or outs[0].kind != "return":
        raise sx.OutOfSubset("pseudopressure_threephase: expected a single returning path")
    return outs[0]


def the_quadrature(o):
    res = o.value
    reg = o.heap["ghost"].get("cumtrapz", {})
    name = getattr(res, "cumtrapz", None)
    if name is None or name not in reg:
        return None, None
    return name, reg[name]


def replay_m3(w):
    import numpy as np
    f = real(M3)
    for rv, grid in ((0.0, "uniform"), (0.02, "geometric")):
        pv = c16.synth_tables(rv, n=40)
        if grid == "geometric":
            P = np.geomspace(500.0, 8000.0, 40)
            scale = (P - 500.0) / 7500.0
            pv = c16.synth_tables(rv, n=40)
            z = P
            pv.update({"pressure": P, "Bo": 1 / (0.7 + 2e-5 * z), "Bg": 1 / (0.2 + 4e-4 * z), "Bw": 1 / (0.98 + 1e-6 * z), "Rs": 0.1 + 2e-4 * z, "Rv": rv * (1 + 1e-4 * z), "mu_o": 1.2 - 5e-5 * z, "mu_g": 0.02 + 1e-6 * z})
        fn = dict(c16.real_pvt_funcs(pv), **c16.RHO_REAL)
        kr = {"kro": lambda s: s**2, "krg": lambda s: (1 - s) ** 1.5 * 0.8, "krw": lambda s: 0.05 + 0 * s}
        P, so = pv["pressure"], pv["So"]
        g = lambda key: np.asarray(fn[key](P), dtype=float)
        lam = (c16.RHO_REAL["rho_o0"] * (g("Rv") * kr["krg"](so) / (g("mu_g") * g("Bg")) + kr["kro"](so) / (g("mu_o") * g("Bo")))
               + c16.RHO_REAL["rho_g0"] * (g("Rs") * kr["kro"](so) / (g("mu_o") * g("Bo")) + kr["krg"](so) / (g("mu_g") * g("Bg"))) + c16.RHO_REAL["rho_w0"] * kr["krw"](so) / (g("mu_w") * g("Bw")))
        want = np.concatenate([[0.0], np.cumsum(np.diff(P) * (lam[1:] + lam[:-1]) / 2)])
        got = np.asarray(f(P, so, fn, kr), dtype=float)
        if got.shape != want.shape or not np.allclose(got, want, rtol=1e-10, atol=0):
            kk = int(np.argmax(~np.isclose(got, want, rtol=1e-10))) if got.shape == want.shape else 0
            return {"reproduced": True, "input": {"table": f"synthetic linear 1/B, Rv={rv}, {grid} pressure grid", "row": kk}, "observed": float(got[kk]) if got.shape == want.shape else list(got.shape), "required": float(want[kk])}
        fn2 = dict(fn, rho_o0=3 * fn["rho_o0"], rho_g0=3 * fn["rho_g0"], rho_w0=3 * fn["rho_w0"])
        got3 = np.asarray(f(P, so, fn2, kr), dtype=float)
        if not np.allclose(got3, 3 * got, rtol=1e-12):
            return {"reproduced": True, "input": {"table": f"synthetic, Rv={rv}", "mobility factor": 3}, "observed": got3[-1], "required": 3 * got[-1]}
    return {"reproduced": False}


def build(ctx):
    obs = []
    fs = [M3]
    BOX = dict(c16.BOX, k=(1, 50), s=(0.1, 10.0))

    def integrand():
        o = run_m3(ctx)
        name, q = the_quadrature(o)
        if q is None:
            return be.Verdict(be.REFUTED, "CAS", witness={}, detail="the result is not produced by a cumulative_trapezoid call")
        yk = q["y"]((k,))
        spec = c16.mobility(tm.app("P", [k]), tm.app("SO", [k]))
        v = be.prove_equal_cas(yk, spec, BOX, seed=ctx.seed, ints=("k",), npoints=6)
        if v.status == be.REFUTED:
            v.detail = "the y argument of cumulative_trapezoid is not the documented total mobility at (p_k, So_k): " + v.detail
        return with_models(v, o)

    obs.append(Obligation("m3.integrand", "the integrand y[k] handed to cumulative_trapezoid == documented total mass mobility at (p_k, So_k)", integrand, fs, "CAS", replay_m3))

    def is_cumtrapz():
        o = run_m3(ctx)
        name, q = the_quadrature(o)
        if q is None:
            return be.Verdict(be.REFUTED, "CAS", witness={}, detail="the result is not produced by a cumulative_trapezoid call")
        pk, pk1 = tm.app("P", [k]), tm.app("P", [k - 1])
        lamk, lamk1 = c16.mobility(pk, tm.app("SO", [k])), c16.mobility(pk1, tm.app("SO", [k - 1]))
        spec = (pk - pk1) * (lamk + lamk1) / 2
        v = be.prove_equal_cas(q["inc"](k), spec, BOX, seed=ctx.seed, ints=("k",), npoints=6)
        if v.status == be.REFUTED:
            v.detail = "increment of the result is not (p_k - p_{k-1})(lambda_k + lambda_{k-1})/2 (check the argument order y, x): " + v.detail
            return with_models(v, o)
        if o.value.shape[0] is not n:
            return be.Verdict(be.REFUTED, "CAS", witness={}, detail="result length differs from the pressure array")
        return with_models(v, o)

    obs.append(Obligation("m3.is_cumtrapz", "result[0] == 0 and result[k] - result[k-1] == (p_k - p_{k-1}) (lambda_k + lambda_{k-1}) / 2 with lambda the documented mobility", is_cumtrapz, fs, "CAS", replay_m3))

    def increasing():
        o = run_m3(ctx)
        name, q = the_quadrature(o)
        if q is None:
            return be.Verdict(be.REFUTED, "SMT", witness={}, detail="no quadrature call")
        # abstract y values as reals: increment positive when both mobilities are positive and pressure increases
        lam_ = lambda i: tm.app("lam", [i])
        inc = q["inc_with"](k, lam_)
        xk, xk1 = tm.app("P", [k]), tm.app("P", [k - 1])
        return with_models(be.prove_smt(tm.gt(inc, tm.rconst(0)), [tm.gt(lam_(k), tm.rconst(0)), tm.gt(lam_(k - 1), tm.rconst(0)), tm.gt(xk, xk1)],
                                        want={"p_k": xk, "p_k1": xk1, "lam_k": lam_(k), "lam_k1": lam_(k - 1)}), o)

    obs.append(Obligation("m3.increasing", "mobility positive and pressure increasing => every increment is positive (strictly increasing pseudopressure)", increasing, fs, "SMT", replay_m3))

    def linear():
        s = tm.var("s")
        o1, o2 = run_m3(ctx, scale=s), run_m3(ctx)
        n1, q1 = the_quadrature(o1)
        n2, q2 = the_quadrature(o2)
        if q1 is None or q2 is None:
            return be.Verdict(be.REFUTED, "CAS", witness={}, detail="no quadrature call")
        return with_models(be.prove_equal_cas(q1["inc"](k), s * q2["inc"](k), BOX, seed=ctx.seed, ints=("k",), npoints=6), o1)

    obs.append(Obligation("m3.linear", "scaling the mobility (reference densities) by a constant s scales every increment by s", linear, fs, "CAS", replay_m3))

    def ft():
        o, tb = c16.run_from_table(ctx)
        fp = o.value
        cols = fp.fields["pvt_props"]
        cols = cols.cols if isinstance(cols, TableV) else cols
        reg = o.heap["ghost"].get("cumtrapz", {})
        # the pseudopressure that entered the wrapper: m-scaled = pseudopressure * factor, so look at the registered quadrature
        if len(reg) != 1:
            return be.Verdict(be.REFUTED, "CAS", witness={}, detail=f"{len(reg)} quadrature calls in from_table")
        q = list(reg.values())[0]
        j = tm.var("j", tm.I)
        byname = c16.spec_names(o.heap["ghost"].get("interps", {}))
        yj = c16.rename_interps(q["y"]((j,)), byname)
        pj, soj = tb["pressure"].get(j), tb["So"].get(j)
        spec = c16.mobility(pj, soj, f=lambda kk, x: tm.app("E_" + kk, [x]), k=lambda kk, s_: tm.app("K_" + kk, [s_]))
        v = be.prove_equal_cas(yj, spec, dict(c16.BOX, j=(0, 50)), seed=ctx.seed, ints=("j",), npoints=6)
        if v.status != be.PROVED:
            v.detail = "from_table integrates something else than the documented mobility of the table interpolants: " + v.detail
            return with_models(v, o)
        if q["x"] is None or q["x"]((j,)) is not pj:
            return be.Verdict(be.REFUTED, "CAS", witness={}, detail="from_table does not integrate over the table's pressure column")
        # the wrapper's pressure column is the table's, and its scaled pseudopressure is that quadrature times a constant
        if cols["pressure"].get(j) is not pj:
            return be.Verdict(be.REFUTED, "CAS", witness={}, detail="wrapper pressure column is not the table's")
        ms = cols["m-scaled"].get(j)
        name = [nm for nm in reg][0]
        cj = tm.app(name, [j])
        ratio = tm.div(ms, cj)
        if any(v_.args[0] == "j" for v_ in tm.free_vars(tm.subst(ratio, {cj: tm.var("c_j")}))) and cj in tm.postorder(ms):
            fac = be.cas_rewrite(tm.subst(ratio, {cj: tm.var("c_j")}), how="together")
            if any(v_.args[0] in ("j", "c_j") for v_ in tm.free_vars(fac)):
                return be.Verdict(be.REFUTED, "CAS", witness={}, detail="m-scaled is not a constant multiple of the mobility integral")
        elif cj not in tm.postorder(ms):
            return be.Verdict(be.REFUTED, "CAS", witness={}, detail="m-scaled does not contain the mobility integral")
        return with_models(v, o)

    def ft_replay(w):
        from ..rt import containers as _ct   # the same numbers held in pandas containers with non-default row labels
        _r = _ct.run(["from_table", "irrelevant_column"])
        if _r["violations"]:
            _v = _r["violations"][0]
            return {"reproduced": True, "input": _v.get("input"), "observed": _v.get("observed"), "required": _v.get("required"), "clause": _v.get("clause")}
        import numpy as np
        import pandas as pd
        Fp = real(FP + "FlowPropertiesTwoPhase")
        for factor in (1.0, 1e-12):
            pv = c16.synth_tables(0.02, n=60)
            kr_t = {"So": np.linspace(0, 1, 30)}
            kr_t.update({"Sg": 1 - kr_t["So"], "Sw": 0 * kr_t["So"], "kro": kr_t["So"] ** 2, "krg": 0.8 * (1 - kr_t["So"]) ** 1.5, "krw": 0.05 + 0 * kr_t["So"]})
            rho = {kk: v * factor for kk, v in c16.RHO_REAL.items()}
            # initial pressure ON a table node: m_i == 1; between two nodes the scaled value is 1 up to the linear-interpolation
            # error of the user-diffusivity branch (C09: "1 at table nodes and within linear-interpolation error above 1 between them")
            for p_i_, lo_, hi_ in ((float(pv["pressure"][44]), 1 - 1e-9, 1 + 1e-9), (6000.0, 1 - 1e-9, 1 + 2e-3)):
                fp = Fp.from_table(pd.DataFrame(pv), pd.DataFrame(kr_t), rho, 0.1, 0.1, p_i_)
                ms = np.asarray(fp.pvt_props["m-scaled"], dtype=float)
                ok = (np.all(np.diff(ms) > 0) and ms[0] == 0.0 and lo_ <= float(fp.m_i) <= hi_ and 0 <= float(fp.m_scaled_func(1000.0)) < 1
                      and abs(float(fp.m_scaled_func(p_i_)) - float(fp.m_i)) <= 1e-12                     # the reported m_i IS the scaled value at p_i
                      and float(fp.m_scaled_func(p_i_ - 1.0)) < float(fp.m_i))                             # a frac-face pressure just below p_i maps below it
                if not ok:
                    break
            if not ok:
                return {"reproduced": True, "input": {"table": "synthetic linear 1/B", "reference density factor": factor, "p_i": p_i_}, "observed": {"m-scaled at the first table pressure": float(ms[0]), "m_i": float(fp.m_i), "m_scaled_func(p_i)": float(fp.m_scaled_func(p_i_)), "m_scaled_func(p_i - 1)": float(fp.m_scaled_func(p_i_ - 1.0)), "min increment": float(np.diff(ms).min()), "m_scaled(1000)": float(fp.m_scaled_func(1000.0))}, "required": "zero at the first table pressure, strictly increasing, m_i == 1 (on a node; within interpolation error above 1 between nodes), frac-face value in [0, 1)"}
        return replay_m3(w)

    obs.append(Obligation("from_table.m3", "from_table: the wrapper receives the table's pressure column and the cumulative trapezoid of the documented mobility of the table interpolants; m-scaled is a constant multiple of it", ft,
                          [c16.FT, M3], "CAS", ft_replay))

    def ft_mi():
        from ..libmodels import Interp1dV
        o, tb = c16.run_from_table(ctx)
        fp = o.value
        msf = fp.fields["m_scaled_func"]
        J = tm.var("J", tm.I)
        p_i = tm.var("p_i")
        calls = o.heap["ghost"].get("interp_calls", [])
        I = [I_ for (I_, qq) in calls if I_ is not msf and qq is p_i]
        if len(I) != 1 or not isinstance(msf, Interp1dV):
            return be.Verdict(be.REFUTED, "SMT", witness={}, detail="cannot identify the scaling interpolant of the wrapper")
        I = I[0]
        reg = o.heap["ghost"].get("cumtrapz", {})
        name = list(reg)[0]
        ppJ = tm.app(name, [J])
        nn = tb["pressure"].shape[0]
        hyp = list(o.pc) + [I.node_fact(J), msf.node_fact(J), tm.eq(p_i, tb["pressure"].get(J)), tm.le(tm.const(1), J), tm.lt(J, nn),
                            tm.gt(ppJ, tm.rconst(0))]  # positive beyond the first row: m3.increasing + first entry 0
        v = be.prove_smt(tm.eq(fp.fields["m_i"], tm.rconst(1)), hyp, timeout_ms=20000)
        if v.status != be.PROVED:
            v.detail = "from_table(...).m_i == 1 when p_i is a table node (beyond the reference row): " + v.detail
        return with_models(v, o)

    obs.append(Obligation("from_table.m_i", "from_table: the wrapper's initial scaled pseudopressure m_i == 1 when p_i is a table node beyond the reference row (between nodes: C09 init.alpha_branch bound)", ft_mi,
                          [c16.FT, FP + "FlowProperties.__init__"], "SMT", ft_replay))

    def canary():
        o = run_m3(ctx)
        name, q = the_quadrature(o)
        pk, pk1 = tm.app("P", [k]), tm.app("P", [k - 1])
        lamk, lamk1 = c16.mobility(pk, tm.app("SO", [k])), c16.mobility(pk1, tm.app("SO", [k - 1]))
        return be.prove_equal_cas(q["inc"](k), tm.rconst("1.0001") * (pk - pk1) * (lamk + lamk1) / 2, BOX, seed=ctx.seed, ints=("k",), npoints=6)

    obs.append(Obligation("canary.cas", "CANARY (must be refuted): the increment is 1.0001 times the trapezoid of the documented mobility", canary, fs, "CAS", expect=be.REFUTED))
    return obs


def bounded(ctx):
    """pandas containers (label alignment) are outside the array model of the executor: bounded family 'container independence'"""
    from ..rt import containers
    return containers.run(['from_table', 'irrelevant_column'])
