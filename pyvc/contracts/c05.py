"""C05  Forecast scaling law, bounded fitting and parameter round-trip.

  forecast.law / linear_in_M / rescale   _forecast_cum_onephase(rf, t, M, tau) == M rf(t/tau)  (rf uninterpreted)
  forecast_cum.defaults                   forecast_cum passes self.M_/self.tau_ when the arguments are None
  bounds.post_init                        Bounds(...) returns iff both pairs have length 2 and lo < hi, else ValueError
  bounds.regularize                       under Bounds.valid(): result within finite bounds, in-bounds components unchanged
  fit.p0_feasible / within_bounds / fixed_tau   from the assumed contract of curve_fit
Round trip of the fit: BOUNDED run-time contract (optimiser convergence is not provable).
"""
from __future__ import annotations

from .. import backends as be
from .. import term as tm
from ..symex import ObjV, OpaqueFn, ArrV
from .common import *  # noqa: F403

LEVEL = "proof"
EXPLANATION = "scaling law, bounds validation, guess regularisation and bounded fitting are SMT/CAS obligations over the real forecast.py; the fit's containment follows from the assumed contract of scipy's curve_fit; round-trip recovery of (M, tau) is a BOUNDED clause"
TRUSTED = ["scipy.optimize.curve_fit: ValueError unless lo <= p0 <= hi, result within [lo, hi]"]
ASSUMPTIONS = ["'malformed bounds' = wrong length or lo >= hi (as the statement and the existing test read it); NaN bounds are outside the real-number model",
               "round-trip of noise-free data: bounded run-time contract only"]

t, M, tau, lam, s = sym_args(["t", "M", "tau", "lam", "s"])
a, b, c, d, g0, g1 = sym_args(["a", "b", "c", "d", "g0", "g1"])
RF = OpaqueFn("rf")
F1 = FC + "_forecast_cum_onephase"
BOX = {"t": (0.0, 1e4), "M": (1e-3, 1e8), "tau": (1e-3, 1e4), "lam": (1e-3, 1e3), "s": (1e-3, 1e3)}


def bounds_obj(ctx, mm, tt):
    B = ctx.engine.cls(FC + "Bounds")
    o = ObjV(B)
    o.fields = {"M": mm, "tau": tt}
    return o


def build(ctx):
    obs = []
    rfapp = lambda x: tm.app("rf", [x])

    def law():
        o = one_path(ctx, F1, [RF, t, M, tau])
        return o.value, M * rfapp(t / tau), None, o

    def law_real(pt):
        import numpy as np
        f = real(F1)
        rf = lambda x: np.tanh(np.sqrt(x))
        a, b = f(rf, pt["t"], pt["M"], pt["tau"]), pt["M"] * rf(pt["t"] / pt["tau"])
        if not close(a, b, 1e-12):
            return a, b
        # "any recovery curve": also callables that are OBJECTS with data attributes - scipy interpolators over tables that do not
        # start at 0 / that extrapolate (the law is M * rf(t / tau) whatever rf is), and a callable class instance
        from scipy.interpolate import interp1d
        xs = np.geomspace(0.05, 40.0, 60)
        curves = [interp1d(xs, np.tanh(np.sqrt(xs)), bounds_error=False, fill_value=(0.0, float(np.tanh(np.sqrt(xs[-1]))))), interp1d(xs, np.tanh(np.sqrt(xs)), fill_value="extrapolate")]

        class Curve:
            x = np.array([1.0, 2.0])   # an attribute that happens to be called x

            def __call__(self, q):
                return np.tanh(np.sqrt(q))
        curves.append(Curve())
        for rfc in curves:
            for tq in (pt["t"], 0.0, 0.01 * pt["tau"], 100.0 * pt["tau"], np.array([0.0, 0.02 * pt["tau"], pt["t"], 60.0 * pt["tau"]])):
                a, b = f(rfc, tq, pt["M"], pt["tau"]), pt["M"] * rfc(np.asarray(tq) / pt["tau"])
                if not close(np.asarray(a, dtype=float), np.asarray(b, dtype=float), 1e-12):
                    return np.asarray(a, dtype=float), np.asarray(b, dtype=float)
        return a, b

    obs.append(cas_ob(ctx, "forecast.law", "_forecast_cum_onephase(rf, t, M, tau) == M * rf(t / tau)", law, BOX, [F1], law_real, tol=1e-12))

    def law_arrays():
        """the same law element-wise for an ARRAY of times, float64 and int64 (whole days): element j is M * rf(t_j / tau)"""
        nn = tm.var("n", tm.I)
        jj = tm.var("j", tm.I)
        v = None
        for dt, srt in (("f8", tm.R), ("i8", tm.I)):
            tarr = ArrV((nn,), lambda i_, srt=srt: tm.app("t_in", i_, srt), dt, name="t_in")
            outs = [o_ for o_ in paths(ctx, F1, [RF, tarr, M, tau]) if o_.kind != "infeasible"]
            if not outs or any(o_.kind != "return" for o_ in outs):
                raise sx.OutOfSubset("_forecast_cum_onephase on an array: a path that does not return")
            for o_k in outs:   # every returning path (a type dispatch on the arguments gives several)
                res = o_k.value
                res = res.arr if hasattr(res, "arr") else res
                if not isinstance(res, ArrV) or res.ndim != 1:
                    return be.Verdict(be.REFUTED, "CAS", witness={"time dtype": dt}, detail="the forecast of an array of times is not a 1-D array")
                tj = tm.app("t_in", [jj], srt)
                tjv = tm.var("tj", srt)
                got = tm.subst(res.get(jj), {tj: tjv})
                want = M * rfapp(tm.toreal(tjv) / tau)
                v = be.prove_equal_cas(got, want, dict(BOX, tj=(0.0, 4000.0)), seed=ctx.seed, ints=(("tj",) if srt == tm.I else ()))
                if v.status != be.PROVED:
                    v.detail = f"[time array of dtype {'int64' if dt == 'i8' else 'float64'}] element j is not M * rf(t_j / tau): " + v.detail
                    if v.witness is not None:
                        v.witness["time_dtype"] = "int64" if dt == "i8" else "float64"
                    return with_models(v, o_k)
        return v

    def law_arrays_replay(w):
        import numpy as np
        f = real(F1)
        rf = lambda x: np.tanh(np.sqrt(np.asarray(x, dtype=float)))
        for tarr in (np.arange(0, 1801, 15), np.linspace(0.0, 1800.0, 37), np.array([0, 1, 7, 365], dtype=np.int32)):
            for M_, tau_ in ((1234.5, 700.0), (10.0, 36.5)):
                got = np.asarray(f(rf, tarr, M_, tau_), dtype=float)
                want = M_ * rf(np.asarray(tarr, dtype=float) / tau_)
                if got.shape != want.shape or not np.allclose(got, want, rtol=1e-12, atol=0):
                    return {"reproduced": True, "input": {"time": tarr.tolist(), "time dtype": str(tarr.dtype), "M": M_, "tau": tau_, "rf": "tanh(sqrt(x))"}, "observed": got.tolist()[:6], "required": want.tolist()[:6]}
        return {"reproduced": False}

    obs.append(Obligation("forecast.law.arrays", "_forecast_cum_onephase(rf, t, M, tau)[j] == M * rf(t[j] / tau) for float64 and int64 arrays of times", law_arrays, [F1], "CAS", law_arrays_replay))

    def linear():
        o1 = one_path(ctx, F1, [RF, t, lam * M, tau])
        o2 = one_path(ctx, F1, [RF, t, M, tau])
        return o1.value, lam * o2.value, None, o1

    obs.append(cas_ob(ctx, "forecast.linear_in_M", "f(rf, t, lam*M, tau) == lam * f(rf, t, M, tau)", linear, BOX, [F1], None))

    def rescale():
        o1 = one_path(ctx, F1, [RF, s * t, M, s * tau])
        o2 = one_path(ctx, F1, [RF, t, M, tau])
        return o1.value, o2.value, None, o1

    def rescale_real(pt):
        import numpy as np
        f = real(F1)
        rf = lambda x: np.tanh(np.sqrt(x))
        return f(rf, pt["s"] * pt["t"], pt["M"], pt["s"] * pt["tau"]), f(rf, pt["t"], pt["M"], pt["tau"])

    obs.append(cas_ob(ctx, "forecast.rescale", "f(rf, s*t, M, s*tau) == f(rf, t, M, tau) for s > 0", rescale, BOX, [F1], rescale_real, tol=1e-9))

    def defaults():
        F = ctx.engine.cls(FC + "ForecasterOnePhase")
        M_, tau_ = tm.var("M_"), tm.var("tau_")
        def mk():
            o = ObjV(F)
            o.fields = {"rf_curve": RF, "bounds": None, "M_": M_, "tau_": tau_}
            return o
        f = ctx.engine.func(FC + "ForecasterOnePhase.forecast_cum")
        goals = []
        for (am, at, em, et) in ((None, None, M_, tau_), (M, None, M, tau_), (None, tau, M_, tau), (M, tau, M, tau)):
            outs = ctx.engine.run_paths(f.bind(mk()), [t, am, at])
            if len(outs) != 1 or outs[0].kind != "return":
                raise sx.OutOfSubset("forecast_cum: unexpected paths")
            want = em * rfapp(t / et)
            if outs[0].value is not want:
                v = be.prove_equal_cas(outs[0].value, want, dict(BOX, M_=(1e-3, 1e8), tau_=(1e-3, 1e4)), seed=ctx.seed)
                if v.status != be.PROVED:
                    v.detail = f"forecast_cum(t, M={am}, tau={at}) is not {want}: " + v.detail
                    return v
        return be.Verdict(be.PROVED, "CAS", detail="four argument combinations")

    def defaults_replay(w):
        import numpy as np
        Fc = real(FC + "ForecasterOnePhase")
        rf = lambda x: 1.0 - np.exp(-np.sqrt(np.asarray(x, dtype=float)))
        fc = Fc(rf)
        fc.M_, fc.tau_ = 1234.5, 67.0
        t_ = np.array([0.0, 1.0, 10.0, 100.0, 500.0])
        for kw, (em, et) in (({}, (1234.5, 67.0)), ({"M": 10.0}, (10.0, 67.0)), ({"tau": 5.0}, (1234.5, 5.0)), ({"M": 10.0, "tau": 5.0}, (10.0, 5.0))):
            got = np.asarray(fc.forecast_cum(t_, **kw), dtype=float)
            want = em * rf(t_ / et)
            if not close(got, want, 1e-13):
                return {"reproduced": True, "input": {"fitted": {"M_": 1234.5, "tau_": 67.0}, "call": kw, "time": t_.tolist(), "rf_curve": "1 - exp(-sqrt(x))"}, "observed": got.tolist(), "required": want.tolist()}
        return {"reproduced": False}

    obs.append(Obligation("forecast_cum.defaults", "forecast_cum(t, M, tau) == M' rf(t/tau') with M' = M if given else self.M_, tau' = tau if given else self.tau_", defaults,
                          [FC + "ForecasterOnePhase.forecast_cum", F1], "CAS", defaults_replay))

    # ---- Bounds.__post_init__
    def post_init():
        B = ctx.engine.cls(FC + "Bounds")
        outs = ctx.engine.run_paths(B, [], {"M": (a, b), "tau": (c, d)})
        valid = tm.land(tm.lt(a, b), tm.lt(c, d))
        goals = []
        for o in outs:
            pc = tm.land(*o.pc)
            if o.kind == "return":
                goals.append(tm.implies(pc, valid))
            elif o.value == "ValueError":
                goals.append(tm.implies(pc, tm.lnot(valid)))
            else:
                return be.Verdict(be.REFUTED, "SMT", witness={}, detail=f"Bounds(...) raises {o.value}")
        if not any(o.kind == "return" for o in outs):
            return be.Verdict(be.REFUTED, "SMT", witness={}, detail="Bounds(...) never returns")
        # wrong lengths are rejected
        for mm, tt in (((a,), (c, d)), ((a, b, c), (c, d)), ((a, b), (c,)), ((a, b), (c, d, a))):
            o2 = ctx.engine.run_paths(B, [], {"M": mm, "tau": tt})
            if any(x.kind == "return" for x in o2) or any(x.value != "ValueError" for x in o2):
                return be.Verdict(be.REFUTED, "SMT", witness={"len_M": len(mm), "len_tau": len(tt)}, detail="a pair of the wrong length is accepted or raises another exception")
        return with_models(be.prove_smt(tm.land(*goals), [], want={"a": a, "b": b, "c": c, "d": d}), *outs)

    def post_init_replay(w):
        Bd = real(FC + "Bounds")
        cases = []
        if "a" in w:
            cases.append(((w["a"], w["b"]), (w["c"], w["d"])))
        cases += [((0, 1), (1, 1)), ((2, 1), (0, 1)), ((1, 1), (0, 1)), ((0, 1), (3, 2)), ((0,), (0, 1)), ((0, 1, 2), (0, 1)), ((0, 1), (0,)), ((0, 1), (1e-10, float("inf")))]
        for mm, tt in cases:
            valid = len(mm) == 2 and len(tt) == 2 and mm[0] < mm[1] and tt[0] < tt[1]
            try:
                Bd(M=mm, tau=tt)
                got = "returns"
            except ValueError:
                got = "ValueError"
            except Exception as e:  # noqa: BLE001
                got = type(e).__name__
            if (got == "returns") != valid or (not valid and got != "ValueError"):
                return {"reproduced": True, "input": {"M": mm, "tau": tt}, "observed": got, "required": "returns" if valid else "ValueError"}
        return {"reproduced": False}

    obs.append(Obligation("bounds.post_init", "Bounds(M, tau) returns iff both pairs have length 2 and lo < hi; otherwise ValueError", post_init, [FC + "Bounds.__post_init__"], "SMT", post_init_replay))

    # ---- regularize_initial_guess
    def regularize(two):
        def run():
            f = ctx.engine.func(FC + "Bounds.regularize_initial_guess")
            valid = tm.land(tm.lt(a, b), tm.lt(c, d))
            results = []
            for hiM, hiT, tag in ((b, d, "finite"), (tm.INF, tm.INF, "half-infinite")):
                def mkargs(hiM=hiM, hiT=hiT):
                    return [bounds_obj(ctx, (a, hiM), (c, hiT)), [g0, g1] if two else [g0]], {}
                outs = ctx.engine.run_paths(f, mkargs)
                goals = []
                for o in outs:
                    if o.kind != "return":
                        return be.Verdict(be.REFUTED, "SMT", witness={}, detail=f"regularize_initial_guess raises {o.value} ({tag} bounds)")
                    pc = tm.land(*o.pc)
                    res = o.value
                    if not isinstance(res, list) or len(res) != (2 if two else 1):
                        return be.Verdict(be.REFUTED, "SMT", witness={}, detail="result is not a guess of the same length")
                    comps = [(res[0], g0, a, hiM)] + ([(res[1], g1, c, hiT)] if two else [])
                    for r, gi, lo, hi in comps:
                        inb = tm.land(tm.le(lo, r), tm.le(r, hi)) if hi is not tm.INF else tm.le(lo, r)
                        was_in = tm.land(tm.le(lo, gi), tm.le(gi, hi)) if hi is not tm.INF else tm.le(lo, gi)
                        goals.append(tm.implies(pc, tm.land(inb, tm.implies(was_in, tm.eq(r, gi)))))
                v = be.prove_smt(tm.land(*goals), [valid], want={"a": a, "b": b, "c": c, "d": d, "g0": g0, "g1": g1})
                if v.status != be.PROVED:
                    v.detail = f"({tag} bounds) " + v.detail
                    if v.witness is not None:
                        v.witness["upper"] = tag
                    return with_models(v, *outs)
                results.append(v)
            return with_models(results[0], *outs)
        return run

    def regularize_replay(w):
        Bd = real(FC + "Bounds")
        inf = float("inf")
        fin = w.get("upper", "finite") == "finite"
        cases = []
        if "a" in w:
            cases.append((w["a"], w["b"] if fin else inf, w["c"], w["d"] if fin else inf, w.get("g0", 0.0), w.get("g1", 0.0)))
        cases += [(200.0, 400.0, 2.0, 5.0, 530.0, 30.0), (0.0, 100.0, 1e-3, 1e4, 300.0, 1e5), (5.0, 6.0, 1.0, 1.5, 1.0, 0.1), (0.0, inf, 1e-10, inf, -1.0, 0.0)]
        for (a_, b_, c_, d_, x0, x1) in cases:
            for guess in ([x0, x1], [x0]):
                try:
                    out = Bd(M=(a_, b_), tau=(c_, d_)).regularize_initial_guess(list(guess))
                except Exception as e:  # noqa: BLE001
                    return {"reproduced": True, "input": {"M": (a_, b_), "tau": (c_, d_), "guess": guess}, "observed": f"{type(e).__name__}: {e}", "required": "a guess within bounds"}
                for r, gi, lo, hi in zip(out, guess, (a_, c_), (b_, d_)):
                    if not (lo <= r <= hi) or (lo <= gi <= hi and r != gi):
                        return {"reproduced": True, "input": {"M": (a_, b_), "tau": (c_, d_), "guess": guess}, "observed": out, "required": "each component within its bounds; in-bounds components unchanged"}
        return {"reproduced": False}

    obs.append(Obligation("bounds.regularize.two", "regularize_initial_guess([g_M, g_tau]): every component ends inside its bounds, components already inside are unchanged (finite and half-infinite bounds; no arithmetic on inf)", regularize(True),
                          [FC + "Bounds.regularize_initial_guess"], "SMT", regularize_replay))
    obs.append(Obligation("bounds.regularize.one", "regularize_initial_guess([g_M]): the same for the one-parameter form", regularize(False), [FC + "Bounds.regularize_initial_guess"], "SMT", regularize_replay))

    # ---- fit
    def run_fit(with_tau, hiM=b, hiT=d, fitted_before=False):
        F = ctx.engine.cls(FC + "ForecasterOnePhase")
        n = tm.var("n", tm.I)
        def mkargs():
            o = ObjV(F)
            o.fields = {"rf_curve": RF, "bounds": bounds_obj(ctx, (a, hiM), (c, hiT))}
            if fitted_before:
                o.fields.update({"M_": tm.var("M_of_earlier_fit"), "tau_": tm.var("tau_of_earlier_fit")})
            tt = ArrV((n,), lambda i: tm.app("t_data", i), "f8")
            cc = ArrV((n,), lambda i: tm.app("cum_data", i), "f8")
            return [o, tt, cc] + ([tau] if with_tau else []), {}
        f = ctx.engine.func(FC + "ForecasterOnePhase.fit")
        outs = ctx.engine.run_paths(f, mkargs, pc=[tm.ge(n, tm.const(1))])
        return outs

    valid = tm.land(tm.lt(a, b), tm.lt(c, d))

    def fit_ob(kind):
        def run():
            verdicts = []
            for with_tau in (False, True):
                for hiM, hiT in ((b, d), (tm.INF, tm.INF)):
                    outs = run_fit(with_tau, hiM, hiT)
                    goals = []
                    for o in outs:
                        pc = tm.land(*(o.pc + o.facts))
                        if o.kind == "raise":
                            if kind == "p0":
                                goals.append(tm.lnot(pc))  # no raising path is feasible under Bounds.valid()
                            continue
                        if kind == "p0":
                            continue
                        obj = o.heap["args"][0]
                        if "M_" not in obj.fields or "tau_" not in obj.fields:
                            return be.Verdict(be.REFUTED, "SMT", witness={}, detail="fit() returns without storing M_ and tau_")
                        M_, tau_ = obj.fields["M_"], obj.fields["tau_"]
                        if kind == "within":
                            inM = tm.land(tm.le(a, M_), tm.le(M_, hiM) if hiM is not tm.INF else tm.TRUE)
                            inT = tm.land(tm.le(c, tau_), tm.le(tau_, hiT) if hiT is not tm.INF else tm.TRUE)
                            goals.append(tm.implies(pc, inM if with_tau else tm.land(inM, inT)))
                        elif kind == "fixed" and with_tau:
                            goals.append(tm.implies(pc, tm.eq(tau_, tau)))
                    if kind != "p0" and not any(o.kind == "return" for o in outs):
                        return be.Verdict(be.REFUTED, "SMT", witness={}, detail="fit() has no returning path")
                    if not goals:
                        continue
                    v = be.prove_smt(tm.land(*goals), [valid], want={"a": a, "b": b, "c": c, "d": d, "tau": tau})
                    if v.status != be.PROVED:
                        v.detail = f"(tau {'supplied' if with_tau else 'fitted'}, {'finite' if hiM is b else 'half-infinite'} bounds) " + v.detail
                        if v.witness is not None:
                            v.witness["with_tau"] = with_tau
                        return with_models(v, *outs)
                    verdicts.append(with_models(v, *outs))
            return verdicts[0]
        return run

    def fit_replay(w):
        import numpy as np
        Fc, Bd = real(FC + "ForecasterOnePhase"), real(FC + "Bounds")
        rf = lambda x: np.tanh(np.sqrt(x))
        scen = [((0.0, 100.0), (1e-3, 1e4), 300.0, 3.0), ((200.0, 400.0), (2.0, 5.0), 300.0, 3.0), ((50.0, 60.0), (0.5, 0.6), 300.0, 3.0), ((0.0, 1e9), (10.0, 20.0), 300.0, 3.0)]
        if "a" in w and w.get("a") is not None and w["a"] < w["b"] and w["c"] < w["d"]:
            scen.insert(0, ((w["a"], w["b"]), (w["c"], w["d"]), 3 * abs(w["b"]) + 1, 3.0))
        tt = np.linspace(0.05, 6.0, 80)
        for mm, tb, Mtrue, tautrue in scen:
            cum = Mtrue * rf(tt / tautrue)
            for tau_arg in (None, tautrue):
                fc = Fc(rf, Bd(M=mm, tau=tb))
                try:
                    fc.fit(tt, cum) if tau_arg is None else fc.fit(tt, cum, tau=tau_arg)
                except Exception as e:  # noqa: BLE001
                    return {"reproduced": True, "input": {"bounds_M": mm, "bounds_tau": tb, "M_true": Mtrue, "tau_true": tautrue, "tau_arg": tau_arg}, "observed": f"{type(e).__name__}: {e}", "required": "a fit within the bounds"}
                okM = mm[0] - 1e-9 <= fc.M_ <= mm[1] + 1e-9
                okT = (tb[0] - 1e-9 <= fc.tau_ <= tb[1] + 1e-9) if tau_arg is None else fc.tau_ == tau_arg
                if not (okM and okT):
                    return {"reproduced": True, "input": {"bounds_M": mm, "bounds_tau": tb, "M_true": Mtrue, "tau_true": tautrue, "tau_arg": tau_arg}, "observed": {"M_": float(fc.M_), "tau_": float(fc.tau_)}, "required": "M_ within bounds.M; tau_ within bounds.tau, or exactly the supplied tau"}
        return {"reproduced": False}

    fsf = [FC + "ForecasterOnePhase.fit", FC + "Bounds.fit_bounds", FC + "Bounds.regularize_initial_guess"]
    obs.append(Obligation("fit.p0_feasible", "under Bounds.valid() the initial guess handed to curve_fit satisfies its precondition (no ValueError path is feasible), two- and one-parameter forms", fit_ob("p0"), fsf, "SMT", fit_replay))
    obs.append(Obligation("fit.within_bounds", "after fit(): M_ within bounds.M and (two-parameter form) tau_ within bounds.tau", fit_ob("within"), fsf, "SMT", fit_replay))
    obs.append(Obligation("fit.fixed_tau", "fit(t, cum, tau=x) stores tau_ == x", fit_ob("fixed"), fsf, "SMT", fit_replay))

    def fit_function_of_args():
        """fit(t, cum[, tau]) on a forecaster that has been fitted before poses the optimiser the SAME problem as on a fresh one:
        same paths, and starting point / bounds / data free of the earlier result (the optimiser's answer depends on its start)"""
        stale = ("M_of_earlier_fit", "tau_of_earlier_fit")
        v = None
        for with_tau in (False, True):
            fresh, again = run_fit(with_tau), run_fit(with_tau, fitted_before=True)
            if [o.kind for o in fresh] != [o.kind for o in again]:
                return be.Verdict(be.REFUTED, "FRAME", witness={}, detail=f"fit() takes other paths on a forecaster that was fitted before ({[o.kind for o in again]} against {[o.kind for o in fresh]})")
            for o1, o2 in zip(fresh, again):
                c1, c2 = o1.heap["ghost"].get("curve_fit", []), o2.heap["ghost"].get("curve_fit", [])
                if len(c1) != len(c2):
                    return be.Verdict(be.REFUTED, "FRAME", witness={}, detail="a different number of optimiser calls on a forecaster that was fitted before")
                for k1, k2 in zip(c1, c2):
                    for part in ("p0", "lo", "hi"):
                        for t1, t2 in zip(k1[part], k2[part]):
                            if t2 is None or t1 is None:
                                continue
                            used_ = sorted({v_.args[0] for v_ in tm.free_vars(t2)} & set(stale))
                            if used_:
                                return with_models(be.Verdict(be.REFUTED, "FRAME", witness={}, detail=f"the {'starting point' if part == 'p0' else 'bounds'} handed to curve_fit depend on {used_}: fit() is not a function of its arguments (a re-used forecaster starts the search from its previous answer: {str(t2)[:160]})"), o2)
                            if t1 is not t2:
                                v = be.prove_smt(tm.eq(t1, t2), [valid] + list(o2.pc) + list(o2.facts), timeout_ms=5000)
                                if v.status != be.PROVED:
                                    v.detail = f"curve_fit {part} differs between a fresh and a re-used forecaster: " + (v.detail or "")
                                    return with_models(v, o2)
                for c_ in list(o2.pc):
                    used_ = sorted({v_.args[0] for v_ in tm.free_vars(c_)} & set(stale))
                    if used_:
                        return with_models(be.Verdict(be.REFUTED, "FRAME", witness={}, detail=f"a branch of fit() depends on {used_}"), o2)
        return be.Verdict(be.PROVED, "FRAME", detail="starting point, bounds and branches of fit() are free of the stored result of an earlier fit, two- and one-parameter forms")

    def fit_again_replay(w):
        import numpy as np
        Fc, Bd = real(FC + "ForecasterOnePhase"), real(FC + "Bounds")
        rf = lambda x: np.tanh(np.sqrt(x))
        wells = [(300.0, 3.0, np.linspace(0.05, 6.0, 80)), (4.0e4, 1500.0, np.linspace(15.0, 1800.0, 120)), (3.0e6, 9000.0, np.linspace(30.0, 5400.0, 200)), (120.0, 0.8, np.linspace(0.01, 2.0, 60))]
        for tau_mode in ("fitted", "supplied"):
            shared = Fc(rf)
            for Mtrue, tautrue, tt in wells + wells[::-1]:
                cum = Mtrue * rf(tt / tautrue)
                res = []
                for fc in (Fc(rf), shared):
                    try:
                        fc.fit(tt, cum) if tau_mode == "fitted" else fc.fit(tt, cum, tau=tautrue)
                        res.append((float(fc.M_), float(fc.tau_)))
                    except Exception as e:  # noqa: BLE001
                        res.append(f"{type(e).__name__}: {e}")
                ok = isinstance(res[0], tuple) and isinstance(res[1], tuple) and all(abs(x_ - y_) <= 1e-6 * max(1.0, abs(x_)) for x_, y_ in zip(res[0], res[1]))
                if not ok:
                    return {"reproduced": True, "input": {"sequence": "one forecaster fitted to several wells in turn, compared with a fresh forecaster per well", "tau": tau_mode, "well": {"M": Mtrue, "tau": tautrue, "window": [float(tt[0]), float(tt[-1])], "samples": len(tt)}},
                            "observed": {"fresh forecaster (M_, tau_)": res[0], "re-used forecaster (M_, tau_)": res[1]}, "required": "the same fit: fit() is a function of the data, tau and the bounds"}
        return {"reproduced": False}

    obs.append(Obligation("fit.function_of_arguments", "fit() poses the optimiser the same problem (starting point, bounds, branches) whether or not the forecaster has been fitted before: nothing of an earlier result is read", fit_function_of_args, fsf, "FRAME", fit_again_replay))

    def canary():
        f = ctx.engine.func(FC + "Bounds.regularize_initial_guess")
        outs = ctx.engine.run_paths(f, lambda: ([bounds_obj(ctx, (a, b), (c, d)), [g0, g1]], {}))
        goals = [tm.implies(tm.land(*o.pc), tm.eq(o.value[0], g0)) for o in outs if o.kind == "return"]
        return be.prove_smt(tm.land(*goals), [tm.lt(a, b), tm.lt(c, d)])

    obs.append(Obligation("canary.smt", "CANARY (must be refuted): regularize_initial_guess never changes the first component", canary, [FC + "Bounds.regularize_initial_guess"], "SMT", expect=be.REFUTED))
    return obs


def bounded(ctx):
    try:
        from ..rt import c05 as rt
    except ImportError:
        return {"family": "bounded layer not built yet", "evaluations": 0, "distinct": 0, "violations": []}
    return rt.run(ctx)
