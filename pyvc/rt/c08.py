"""C08 bounded clauses: the three pseudopressure routes (adaptive quadrature gas.pseudopressure_Hussainy, the
10-psi table of fluid.build_pvt_gas, the stand-alone transform fluids.pseudopressure) agree on differences,
are zero at the reference, increasing and additive - evaluated at run time on the real code.

Tolerances.  routes_agree: |dm_quad - dm_table| <= max(1e-6 * |dm|, 1.25 * h^2/12 * max|f''| * (p2 - p1)) with
f = 2p/(mu Z), h = 10 psi, f'' from second differences of the table column over the nodes of [p1 - h, p2 + h]
(the composite-trapezoid error bound; the 25 % covers the sampling of max|f''| at nodes only, the 1e-6 floor covers
QUADPACK's own 1.5e-8 tolerance).  This is tighter than the max(1e-4 relative, bound) of the plan; measured on
the clean code the actual error reaches 1.02 x the node-sampled bound (worst of 1200 pairs, 8 compositions).  standalone_equals_table 1e-12 relative;
zero_at_reference 1e-9 absolute; additive 1e-7 relative (measured <= 2e-9)."""
from __future__ import annotations

import random
import warnings

import numpy as np

from .common import Bounded

H = 10.0
PMAX = 6000
_tables = {}


def comp_key(c):
    return (c["N2"], c["H2S"], c["CO2"], c["gravity"], c["temperature"], c["dryness"])


def setup(c):
    """table, pseudocritical point - cached per composition"""
    k = comp_key(c)
    if k not in _tables:
        from bluebonnet.fluids import gas
        from bluebonnet.fluids.fluid import build_pvt_gas

        gv = {"N2": c["N2"], "H2S": c["H2S"], "CO2": c["CO2"], "Gas Specific Gravity": c["gravity"], "Reservoir Temperature (deg F)": c["temperature"]}
        with warnings.catch_warnings(), np.errstate(all="ignore"):
            warnings.simplefilter("ignore")
            tab = build_pvt_gas(gv, c["dryness"], maximum_pressure=PMAX)
            nh = gas.make_nonhydrocarbon_properties(c["N2"], c["H2S"], c["CO2"])
            tpc, ppc = gas.pseudocritical_point_Sutton(c["gravity"], nh, c["dryness"])
        p = tab["pressure"].to_numpy(dtype=float)
        f = 2.0 * p / (tab["viscosity"].to_numpy(dtype=float) * tab["z-factor"].to_numpy(dtype=float))
        f2 = np.abs(f[2:] - 2.0 * f[1:-1] + f[:-2]) / H**2  # |f''| at nodes 1 .. n-2
        _tables[k] = {"table": tab, "p": p, "col": tab["pseudopressure"].to_numpy(dtype=float), "f2": f2, "tpc": float(tpc), "ppc": float(ppc)}
    return _tables[k]


def quad(c, s, p, p_std=None):
    from bluebonnet.fluids import gas

    with warnings.catch_warnings(), np.errstate(all="ignore"):
        warnings.simplefilter("ignore")
        if p_std is None:
            return float(gas.pseudopressure_Hussainy(c["temperature"], p, s["tpc"], s["ppc"], c["gravity"]))
        return float(gas.pseudopressure_Hussainy(c["temperature"], p, s["tpc"], s["ppc"], c["gravity"], pressure_standard=p_std))


def standalone(s):
    from bluebonnet import fluids

    t = s["table"]
    return np.asarray(fluids.pseudopressure(t["pressure"], t["viscosity"], t["z-factor"]), dtype=float)


def check_routes(cfg):
    c = cfg["composition"]
    s = setup(c)
    i, j = cfg["i"], cfg["j"]
    p1, p2 = s["p"][i], s["p"][j]
    dq = quad(c, s, float(p2)) - quad(c, s, float(p1))
    dt = s["col"][j] - s["col"][i]
    sa = standalone(s)
    ds = sa[j] - sa[i]
    lo, hi = max(i - 2, 0), min(j + 1, len(s["f2"]))  # f2[k] belongs to node k+1: nodes i-1 .. j+1
    fmax = float(np.max(s["f2"][lo:hi]))
    bound = H**2 / 12.0 * fmax * (p2 - p1)
    tol = max(1e-6 * abs(dq), 1.25 * bound)
    ok = abs(dq - dt) <= tol and abs(dq - ds) <= tol and np.isfinite(dq)
    return bool(ok), {"p1": float(p1), "p2": float(p2), "quadrature": dq, "table": float(dt), "stand-alone": float(ds), "|quad - table|": abs(dq - dt), "trapezoid bound": bound, "tolerance": tol}, \
        "differences of the three routes within max(1e-6 relative, 1.25 * h^2/12 * max|f''| * (p2 - p1))"


def check_standalone(cfg):
    s = setup(cfg["composition"])
    sa = standalone(s)
    col = s["col"]
    err = float(np.max(np.abs(sa - col) / np.maximum(np.abs(col), 1.0))) if sa.shape == col.shape else float("inf")
    ok = sa.shape == col.shape and err <= 1e-12
    return bool(ok), {"max relative difference": err}, "fluids.pseudopressure(p, mu, Z) equals build_pvt_gas()['pseudopressure'] within 1e-12 relative"


def check_synthetic(cfg):
    from bluebonnet import fluids

    rs = np.random.RandomState(cfg["seed"])
    n = cfg["n"]
    p = np.cumsum(rs.uniform(0.5, 50.0, n)) + rs.uniform(0.0, 100.0)
    mu = rs.uniform(0.01, 0.05, n)
    z = rs.uniform(0.3, 1.8, n)
    if cfg["form"] == "series":
        import pandas as pd

        out = np.asarray(fluids.pseudopressure(pd.Series(p), pd.Series(mu), pd.Series(z)), dtype=float)
    else:
        out = np.asarray(fluids.pseudopressure(p, mu, z), dtype=float)
    f = 2.0 * p / (mu * z)
    ref = np.concatenate([[0.0], np.cumsum(0.5 * (f[1:] + f[:-1]) * np.diff(p))])
    err = float(np.max(np.abs(out - ref) / np.maximum(ref, 1.0)))
    ok = out.shape == ref.shape and out[0] == 0.0 and err <= 1e-12 and bool(np.all(np.diff(out) > 0))
    return bool(ok), {"first": float(out[0]), "max relative difference to the trapezoid sum": err, "strictly increasing": bool(np.all(np.diff(out) > 0))}, \
        "0 first, the cumulative trapezoid of 2p/(mu Z) within 1e-12 relative, strictly increasing for positive entries"


def check_zero(cfg):
    c = cfg["composition"]
    s = setup(c)
    vals = {"default 14.7": quad(c, s, 14.7)}
    for ps in cfg["standards"]:
        vals[repr(ps)] = quad(c, s, ps, ps)
    first = float(s["col"][0])
    ok = all(abs(v) <= 1e-9 for v in vals.values()) and first == 0.0
    return bool(ok), {"quadrature at the reference": vals, "first table entry": first}, "0 at p = pressure_standard (abs 1e-9); table column starts at exactly 0"


def check_increasing(cfg):
    c = cfg["composition"]
    s = setup(c)
    d = np.diff(s["col"])
    sweep = cfg["sweep"]
    q = [quad(c, s, p) for p in sweep]
    dq = np.diff(q)
    ok = bool(np.all(d > 0)) and bool(np.all(dq > 0)) and bool(np.all(np.isfinite(q)))
    return ok, {"min table increment": float(d.min()), "min quadrature increment along the sweep": float(dq.min()), "sweep": [sweep[0], sweep[-1], len(sweep)]}, \
        "table column strictly increasing; quadrature values strictly increasing along the pressure sweep"


def check_additive(cfg):
    c = cfg["composition"]
    s = setup(c)
    a, b, cc = cfg["a"], cfg["b"], cfg["c"]
    ac, ab, bc = quad(c, s, cc, a), quad(c, s, b, a), quad(c, s, cc, b)
    err = abs(ac - (ab + bc)) / max(abs(ac), abs(ab), abs(bc), 1e-300)
    return bool(err <= 1e-7), {"m(a->c)": ac, "m(a->b)": ab, "m(b->c)": bc, "relative defect": err}, "m(a->c) = m(a->b) + m(b->c) within 1e-7 relative"


CHECKS = {"routes_agree": check_routes, "standalone_equals_table": check_standalone, "standalone_trapezoid": check_synthetic, "zero_at_reference": check_zero,
          "increasing": check_increasing, "additive": check_additive}


def evaluate(clause, cfg):
    try:
        return CHECKS[clause](cfg)
    except Exception as e:  # noqa: BLE001
        return False, {"exception": "%s: %s" % (type(e).__name__, str(e)[:300])}, "no exception"


def compositions(rng, k):
    out = [{"N2": 0.0, "H2S": 0.0, "CO2": 0.0, "gravity": 0.65, "temperature": 200.0, "dryness": "dry gas"},
           {"N2": 0.02, "H2S": 0.01, "CO2": 0.03, "gravity": 0.8, "temperature": 150, "dryness": "wet gas"}]
    while len(out) < k:
        out.append({"N2": round(rng.uniform(0, 0.05), 4), "H2S": round(rng.choice([0.0, rng.uniform(0, 0.04)]), 4), "CO2": round(rng.uniform(0, 0.06), 4),
                    "gravity": round(rng.uniform(0.6, 1.0), 3), "temperature": round(rng.uniform(100.0, 300.0), 1), "dryness": rng.choice(["dry gas", "wet gas"])})
    return out[:k]


def _import_quietly():
    """bluebonnet's import registers a matplotlib scale and may emit (pending) deprecation warnings"""
    with warnings.catch_warnings():
        warnings.simplefilter("ignore")
        import bluebonnet.fluids  # noqa: F401
        import bluebonnet.forecast  # noqa: F401
        import bluebonnet.plotting  # noqa: F401


def run(ctx):
    _import_quietly()
    quick = ctx.tier == "quick"
    rng = random.Random(ctx.seed)
    ncomp, npairs, nadd = (3, 40, 10) if quick else (6, 300, 60)
    B = Bounded("%d gas compositions (2 fixed + seeded: gravity 0.6..1.0, T 100..300 F, N2 <= 5 %%, H2S <= 4 %%, CO2 <= 6 %%, dry/wet), table with maximum_pressure=6000 (599 rows, 10 psi); "
                "%d seeded node pairs per composition incl. adjacent nodes, the whole table and the first node (tolerance max(1e-6 rel, 1.25 h^2/12 max|f''| (p2-p1))); stand-alone transform vs table 1e-12; "
                "stand-alone transform on %d seeded positive synthetic tables; zero at default and 3 custom references (1e-9); table monotone, 25-point quadrature sweep monotone; "
                "%d seeded additive triples per composition with custom pressure_standard (1e-7)" % (ncomp, npairs, 6 if quick else 60, nadd))

    def emit(clause, cfg, key):
        ok, observed, required = evaluate(clause, cfg)
        B.case(clause, key, ok, input={"clause": clause, **cfg}, observed=observed, required=required)

    for c in compositions(rng, ncomp):
        ck = comp_key(c)
        n = len(setup(c)["p"])
        pairs = [(0, n - 1), (0, 1), (n - 2, n - 1), (1, n // 2), (n // 2, n // 2 + 1)]
        while len(pairs) < npairs:
            i = rng.randrange(0, n - 1)
            j = rng.choice([i + 1, i + 2, rng.randrange(i + 1, n), rng.randrange(i + 1, n)])
            pairs.append((i, min(j, n - 1)))
        for i, j in pairs:
            emit("routes_agree", {"composition": c, "i": i, "j": j}, (ck, i, j))
        emit("standalone_equals_table", {"composition": c}, ck)
        stds = [round(rng.uniform(1.0, 100.0), 3), round(rng.uniform(100.0, 3000.0), 2), 5990.0]
        emit("zero_at_reference", {"composition": c, "standards": stds}, ck)
        sweep = sorted({round(x, 3) for x in [14.7, 15.0, 5990.0, 6000.0] + [rng.uniform(14.7, 6000.0) for _ in range(21)]})
        emit("increasing", {"composition": c, "sweep": sweep}, ck)
        for _ in range(nadd):
            a, b, cc = sorted(round(rng.uniform(5.0, 6000.0), 3) for _ in range(3))
            if rng.random() < 0.2:  # also non-monotone order: additivity does not need a <= b <= c
                a, b, cc = b, cc, a
            emit("additive", {"composition": c, "a": a, "b": b, "c": cc}, (ck, a, b, cc))
        # nearly coinciding limits (a sub-grid pair, neighbouring table rows): the last leg is tiny but not zero
        for a, b, cc in ((round(rng.uniform(5.0, 3000.0), 3), 5990.0, 5992.0), (14.7, 3000.0, 3000.9), (round(rng.uniform(100.0, 2000.0), 3), 4500.0, 4500.004)):
            emit("additive", {"composition": c, "a": a, "b": b, "c": cc}, (ck, a, b, cc))
    for k in range(6 if quick else 60):
        cfg = {"seed": rng.randrange(10**6), "n": rng.choice([2, 3, 10, 200, 1000]), "form": ("array", "series")[k % 2]}
        emit("standalone_trapezoid", cfg, (cfg["seed"], cfg["n"], cfg["form"]))
    return B.result()


def replay(case):
    _import_quietly()
    cfg = dict(case.get("input", case))
    clause = cfg.pop("clause", None) or case.get("clause")
    ok, observed, required = evaluate(clause, cfg)
    return {"reproduced": not ok, "call": "%s on %s" % (clause, cfg), "observed": observed, "required": required}
