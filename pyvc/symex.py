"""Symbolic execution of the real bluebonnet source, straight from its AST.

Nothing is imported or run: the functions under contract are interpreted statement by statement
over symbolic values (terms, symbolic arrays, records), producing for every path its path
condition, its result (or the exception class it raises), the well-definedness conditions met on
the way (division, log, sqrt, real powers) and the heap effects.  Contracts (pyvc/contracts) turn
those into obligations.

Subset: see DESIGN.md 2.2.  Anything outside it raises OutOfSubset (never silently skipped).
"""
from __future__ import annotations

import ast
import hashlib
import os
from fractions import Fraction

from . import term as tm
from .term import T

SRC_ROOT = os.environ.get("PYVC_SRC", "/repo/src")


class OutOfSubset(Exception):
    pass


class Raised(Exception):
    """a Python exception of class `exc` raised by the interpreted code"""

    def __init__(self, exc, msg=""):
        super().__init__(exc)
        self.exc = exc
        self.msg = msg


class _Return(Exception):
    def __init__(self, value):
        self.value = value


class _Break(Exception):
    pass


class _Continue(Exception):
    pass


class _Backtrack(Exception):
    pass


EXC_PARENTS = {
    "ValueError": "Exception", "RuntimeError": "Exception", "AttributeError": "Exception",
    "TypeError": "Exception", "KeyError": "LookupError", "IndexError": "LookupError", "LookupError": "Exception",
    "ZeroDivisionError": "ArithmeticError", "ArithmeticError": "Exception", "NotImplementedError": "RuntimeError",
    "Exception": None,
}


def exc_matches(exc, handler):
    while exc is not None:
        if exc == handler:
            return True
        exc = EXC_PARENTS.get(exc, "Exception" if exc != "Exception" else None)
    return False


# =============================================================================================
# values


_ALLOC = [0]
_STAMPS = {}


def stamp(obj):
    _ALLOC[0] += 1
    try:
        obj._stamp = _ALLOC[0]
    except AttributeError:
        _STAMPS[id(obj)] = (_ALLOC[0], obj)
    return obj


def stamp_of(obj):
    st = getattr(obj, "_stamp", None)
    if st is not None:
        return st
    e = _STAMPS.get(id(obj))
    if e is not None and e[1] is obj:
        return e[0]
    return 0


class ArrV:
    """numpy array: shape (tuple of integer terms), element function idx-tuple -> term, dtype tag.
    Mutable (stores replace the element function); `view_of` makes it a view (stores go to the base).
    `mask` (idx -> bool term) marks an array obtained by boolean-mask selection a[m]: it lives in
    the index space of the base and only positions with mask true exist."""

    _ids = [0]

    def __init__(self, shape, fn, dtype="f8", mask=None, name=None):
        self.shape = tuple(tm.lift(s) for s in shape)
        self._fn = fn
        self.dtype = dtype
        self.mask = mask
        self.view_of = None  # (base ArrV, index map)
        ArrV._ids[0] += 1
        self.id = ArrV._ids[0]
        stamp(self)
        self.name = name or f"arr{self.id}"
        self.version = 0

    @property
    def ndim(self):
        return len(self.shape)

    def cur(self):
        if self.view_of is not None:
            base, imap = self.view_of
            f = base.cur()
            return lambda idx: f(imap(idx))
        return self._fn

    def get(self, *idx):
        return self.cur()(tuple(tm.lift(i) for i in idx))

    def static_len(self, axis=0):
        s = self.shape[axis]
        return int(tm.cval(s)) if tm.is_const(s) else None

    def store(self, pred, valfn):
        """elements with pred(idx) true become valfn(idx)"""
        if self.view_of is not None:
            raise OutOfSubset("store through a derived view")
        old = self._fn
        dt = self.dtype

        def new(idx, old=old):
            v = valfn(idx)
            if dt in ("i8", "i4") and v.sort != tm.I:
                v = tm.trunc(v)
            elif dt in ("f8", "f4"):
                v = tm.toreal(v)
            return tm.ite(pred(idx), v, old(idx))

        self._fn = new
        self.version += 1

    def tolist(self):
        n = self.static_len()
        if n is None:
            raise OutOfSubset("list of a symbolic-length array")
        if self.ndim == 1:
            return [self.get(tm.const(i)) for i in range(n)]
        return [row_view(self, tm.const(i)) for i in range(n)]


def row_view(a, i):
    v = ArrV(a.shape[1:], None, a.dtype)
    v.view_of = (a, lambda idx, i=i: (i,) + tuple(idx))
    return v


def arr_from_list(items, dtype=None):
    """static 1-D (or nested 2-D) array from python list of terms / lists"""
    if items and isinstance(items[0], (list, tuple, ArrV)):
        rows = [r.tolist() if isinstance(r, ArrV) else list(r) for r in items]
        m = len(rows[0])
        flat = [[tm.lift(x) for x in r] for r in rows]

        def fn(idx):
            return _select(flat, idx[0], lambda row: _select(row, idx[1], lambda x: x))

        dt = dtype or ("i8" if all(x.sort == tm.I for r in flat for x in r) else "f8")
        return ArrV((tm.const(len(rows)), tm.const(m)), fn, dt)
    elems = [tm.lift(x) for x in items]
    dt = dtype or ("i8" if elems and all(x.sort == tm.I for x in elems) else "f8")
    if dt in ("f8", "f4"):
        elems = [tm.toreal(x) for x in elems]

    def fn1(idx):
        return _select(elems, idx[0], lambda x: x)

    return ArrV((tm.const(len(elems)),), fn1, dt)


def _select(items, i, k):
    """items[i] for a (possibly symbolic) index term i"""
    if tm.is_const(i):
        j = int(tm.cval(i))
        if not (0 <= j < len(items)):
            raise Raised("IndexError")
        return k(items[j])
    if not items:
        raise Raised("IndexError")
    r = k(items[-1])
    for j in range(len(items) - 2, -1, -1):
        r = tm.ite(tm.eq(i, tm.const(j)), k(items[j]), r)
    return r


class RecArrV:
    """numpy structured / record array (also a pandas to_records result): field name -> ArrV"""

    def __init__(self, fields):
        self.fields = dict(fields)
        stamp(self)

    @property
    def shape(self):
        return next(iter(self.fields.values())).shape


class TableV:
    """mapping column name -> array: dict of arrays or pandas DataFrame"""

    _index_ids = [0]

    def __init__(self, cols, kind="dict", index_id=None):
        self.cols = dict(cols)
        self.kind = kind
        self.version = 0
        # identity of the ROW LABELS of a DataFrame (pandas aligns Series and column stores on labels, not positions): a column
        # read from a DataFrame carries it (ArrV.labels), element-wise results inherit it, and storing a labelled column into a
        # DataFrame with OTHER labels - or combining two differently labelled columns - is outside the positional model
        if index_id is None:
            TableV._index_ids[0] += 1
            index_id = ("rows", TableV._index_ids[0])
        self.index_id = index_id
        stamp(self)

    def copy(self, deep=False):
        if deep:
            cols = {}
            for k, a in self.cols.items():
                f = a.cur()
                cols[k] = ArrV(a.shape, f, a.dtype)
            return TableV(cols, self.kind, self.index_id)
        return TableV(self.cols, self.kind, self.index_id)


class ObjV:
    def __init__(self, cls, fields=None):
        self.cls = cls
        self.fields = dict(fields or {})
        self.writes = []  # log of attribute writes/deletes (frame checks)
        stamp(self)


class ClassV:
    def __init__(self, name, node, module, bases, kind="plain"):
        self.name = name
        self.node = node
        self.module = module
        self.bases = bases
        self.kind = kind  # plain | dataclass | namedtuple
        self.field_names = []
        self.methods = {}
        self.attrs = {}
        self.nested = {}

    def mro(self):
        out = [self]
        for b in self.bases:
            for c in b.mro():
                if c not in out:
                    out.append(c)
        return out

    def lookup(self, name):
        for c in self.mro():
            if name in c.methods:
                return c.methods[name]
            if name in c.attrs:
                return c.attrs[name]
            if name in c.nested:
                return c.nested[name]
        return None


class FuncV:
    def __init__(self, node, module, closure=None, bound=None, qualname=None, is_classmethod=False):
        self.node = node
        self.module = module
        self.closure = closure
        self.bound = bound
        self.qualname = qualname or getattr(node, "name", "<lambda>")
        self.is_classmethod = is_classmethod

    def bind(self, obj):
        return FuncV(self.node, self.module, self.closure, obj, self.qualname, self.is_classmethod)


class LibV:
    """namespace of a modelled library (np, math, scipy.sparse, …)"""

    def __init__(self, path):
        self.path = path


class LibFn:
    def __init__(self, name, impl):
        self.name = name
        self.impl = impl


class OpaqueFn:
    """callable symbol: applying it to terms gives an uninterpreted application"""

    def __init__(self, name, sort=tm.R, on_call=None):
        self.name = name
        self.sort = sort
        self.on_call = on_call


class ModuleV:
    def __init__(self, name, path, tree, source):
        self.name = name
        self.path = path
        self.tree = tree
        self.source = source
        self.sha256 = hashlib.sha256(source.encode()).hexdigest()
        self.raw = {}  # name -> ast node defining it (lazy evaluation)
        self.cache = {}


class Outcome:
    def __init__(self, kind, value, pc, wd, facts, qfacts, decisions, heap=None):
        self.kind = kind  # 'return' | 'raise'
        self.value = value
        self.pc = pc
        self.wd = wd
        self.facts = facts
        self.qfacts = qfacts
        self.decisions = decisions
        self.heap = heap or {}

    def __repr__(self):
        return f"<Outcome {self.kind} {self.value!r} pc={self.pc}>"


# =============================================================================================
# engine


class Engine:
    def __init__(self, src_root=None):
        self.src_root = src_root or SRC_ROOT
        self.modules = {}
        self.opaque = {}  # qualname 'pkg.mod:func' -> handler(exec, args, kwargs) -> value
        self.dropped = {}  # qualname -> set of things the extraction dropped
        from . import libmodels

        self.lib = libmodels
        self.call_log = []

    # ---- module loading
    def module(self, name):
        m = self.modules.get(name)
        if m is not None:
            return m
        rel = name.replace(".", "/")
        for cand in (f"{self.src_root}/{rel}.py", f"{self.src_root}/{rel}/__init__.py"):
            if os.path.exists(cand):
                src = open(cand).read()
                tree = ast.parse(src)
                m = ModuleV(name, cand, tree, src)
                for st in tree.body:
                    if isinstance(st, (ast.FunctionDef, ast.ClassDef)):
                        m.raw[st.name] = st
                    elif isinstance(st, ast.Assign):
                        for tg in st.targets:
                            if isinstance(tg, ast.Name):
                                m.raw[tg.id] = st
                            elif isinstance(tg, (ast.Tuple, ast.List)) and all(isinstance(e_, ast.Name) for e_ in tg.elts):
                                # a, b, c = x, y, z at module level
                                if isinstance(st.value, (ast.Tuple, ast.List)) and len(st.value.elts) == len(tg.elts):
                                    for e_, v_ in zip(tg.elts, st.value.elts):
                                        m.raw[e_.id] = ast.Assign(targets=[ast.Name(id=e_.id, ctx=ast.Store())], value=v_, lineno=st.lineno)
                                else:
                                    for k_, e_ in enumerate(tg.elts):
                                        m.raw[e_.id] = ast.Assign(targets=[ast.Name(id=e_.id, ctx=ast.Store())], value=ast.Subscript(value=st.value, slice=ast.Constant(value=k_), ctx=ast.Load()), lineno=st.lineno)
                    elif isinstance(st, ast.AnnAssign) and isinstance(st.target, ast.Name) and st.value is not None:
                        m.raw[st.target.id] = st
                    elif isinstance(st, ast.Import):
                        for al in st.names:
                            m.raw[(al.asname or al.name).split(".")[0]] = ("import", al.name, al.asname)
                    elif isinstance(st, ast.ImportFrom):
                        for al in st.names:
                            m.raw[al.asname or al.name] = ("from", st.module, al.name)
                self.modules[name] = m
                return m
        raise OutOfSubset(f"module {name} not found")

    def is_repo_module(self, name):
        return name is not None and (name == "bluebonnet" or name.startswith("bluebonnet."))

    def mod_global(self, m, name):
        if name in m.cache:
            return m.cache[name]
        if name not in m.raw:
            raise KeyError(name)
        d = m.raw[name]
        if isinstance(d, tuple):
            if d[0] == "import":
                full, asname = d[1], d[2]
                v = LibV(full if asname else full.split(".")[0])
            else:
                _, modname, attr = d
                if self.is_repo_module(modname):
                    sub = f"{modname}.{attr}"
                    try:
                        self.module(sub)
                        v = LibV(sub)
                    except OutOfSubset:
                        v = self.mod_global(self.module(modname), attr)
                else:
                    v = self.lib.resolve(f"{modname}.{attr}")
        elif isinstance(d, ast.FunctionDef):
            v = FuncV(d, m, None, None, f"{m.name}:{d.name}")
        elif isinstance(d, ast.ClassDef):
            v = self.build_class(d, m, None)
        else:
            ex = Exec(self, None)
            ex.frames.append(Frame(m, {}, None))
            v = ex.eval(d.value)
            if isinstance(v, (dict, list, set)):
                MODULE_STATE[id(v)] = (m.name, name, v)
                _STAMPS[id(v)] = (0, v)
        m.cache[name] = v
        return v

    def build_class(self, node, m, outer_q):
        q = f"{outer_q}.{node.name}" if outer_q else node.name
        bases = []
        ex = Exec(self, None)
        ex.frames.append(Frame(m, {}, None))
        for b in node.bases:
            try:
                bv = ex.eval(b)
            except OutOfSubset:
                bv = None
            if isinstance(bv, ClassV):
                bases.append(bv)
        kind = "plain"
        for dec in node.decorator_list:
            dn = dec.func if isinstance(dec, ast.Call) else dec
            if isinstance(dn, ast.Name) and dn.id == "dataclass":
                kind = "dataclass"
        base_names = [ast.unparse(b) for b in node.bases]
        if any(bn in ("NamedTuple", "typing.NamedTuple") for bn in base_names):
            kind = "namedtuple"
        unknown_bases = [bn for bn, b in zip(base_names, node.bases) if bn not in ("NamedTuple", "typing.NamedTuple", "object")]
        c = ClassV(q, node, m, bases, kind)
        c.unmodelled_bases = len(unknown_bases) != len(bases)
        for st in node.body:
            if isinstance(st, ast.FunctionDef):
                iscm = any(isinstance(d, ast.Name) and d.id == "classmethod" for d in st.decorator_list)
                c.methods[st.name] = FuncV(st, m, None, None, f"{m.name}:{q}.{st.name}", iscm)
            elif isinstance(st, ast.AnnAssign) and isinstance(st.target, ast.Name):
                c.field_names.append(st.target.id)
                if st.value is not None:
                    c.attrs[st.target.id] = ("default", st.value)
            elif isinstance(st, ast.Assign) and len(st.targets) == 1 and isinstance(st.targets[0], ast.Name):
                c.attrs[st.targets[0].id] = ("value", st.value)
            elif isinstance(st, ast.ClassDef):
                c.nested[st.name] = self.build_class(st, m, q)
        return c

    def func(self, qualname):
        """'bluebonnet.fluids.water:b_water_McCain' or 'bluebonnet.flow.reservoir:IdealReservoir.simulate'"""
        modname, path = qualname.split(":")
        m = self.module(modname)
        parts = path.split(".")
        try:
            v = self.mod_global(m, parts[0])
        except KeyError:
            raise OutOfSubset(f"{qualname} does not exist on this tree") from None
        for p in parts[1:]:
            if isinstance(v, ClassV):
                v = v.lookup(p)
            else:
                raise OutOfSubset(f"cannot resolve {qualname}")
        if v is None:
            raise OutOfSubset(f"cannot resolve {qualname}")
        return v

    def cls(self, qualname):
        return self.func(qualname)

    def source_of(self, qualname):
        f = self.func(qualname)
        node = f.node
        m = f.module
        seg = ast.get_source_segment(m.source, node)
        return {
            "qualname": qualname, "file": m.path, "lines": [node.lineno, node.end_lineno],
            "sha256_file": m.sha256, "sha256_function": hashlib.sha256((seg or "").encode()).hexdigest(),
        }

    # ---- running
    def run_paths(self, fv, args=(), kwargs=None, pc=(), max_paths=256, setup=None):
        """all paths of a call.  `args` may be a callable returning (args, kwargs) so that mutable
        argument objects are fresh on every path.  Returns list of Outcome."""
        outcomes = []
        trail = []
        while True:
            ex = Exec(self, trail, pc0=list(pc))
            if callable(args):
                a, kw = args()
            else:
                a, kw = list(args), dict(kwargs or {})
            ex.arg_stamp = _ALLOC[0]   # everything allocated so far (the arguments included) is caller-owned
            if setup:
                setup(ex)
            try:
                try:
                    v = simplify_under(ex.call(fv, a, kw), ex.pc)
                    outcomes.append(Outcome("return", v, list(ex.pc), ex.wd, ex.facts, ex.qfacts, list(ex.decisions), ex.heap_info(a, kw)))
                except Raised as r:
                    outcomes.append(Outcome("raise", r.exc, list(ex.pc), ex.wd, ex.facts, ex.qfacts, list(ex.decisions), ex.heap_info(a, kw)))
            except _Backtrack:
                pass
            trail = next_trail(ex.decisions)
            if trail is None:
                break
            if len(outcomes) > max_paths:
                raise OutOfSubset("too many paths")
        return outcomes


#: real keyword names of library functions -> the parameter names of their models (calls by keyword are ordinary calls)
KW_ALIASES = {
    "linspace": {"start": "a", "stop": "b", "num": "n"},
    "zeros": {"shape": "n"}, "empty": {"shape": "n"}, "ones": {"shape": "n"},
    "full": {"shape": "n", "fill_value": "fill"},
    "empty_like": {"prototype": "proto", "a": "proto"}, "ones_like": {"a": "proto"}, "full_like": {"a": "proto", "fill_value": "fill"},
    "minimum": {"x1": "a", "x2": "b"}, "maximum": {"x1": "a", "x2": "b"},
    "sum": {}, "cumsum": {"a": "v"}, "gradient": {"f": "y"},
    "where": {"condition": "c", "x": "a", "y": "b"},
    "clip": {"a_min": "lo", "a_max": "hi"},
    "interp": {"x": "q"},
    "array": {"object": "v"}, "asarray": {"a": "v"},
    "any": {"a": "v"}, "all": {"a": "v"}, "diff": {"a": "v"},
}


#: stores into caller-owned data containers (arrays, tables, record arrays that existed when the call under contract
#: started), collected per obligation run; read by oblig._run_one
ARG_DATA_WRITES = []


class Frame:
    def __init__(self, module, env, closure, func=None):
        self.module = module
        self.env = env
        self.closure = closure
        self.func = func


class SuperV:
    """zero-argument super() inside a method: attribute lookup continues in the MRO after the defining class"""

    def __init__(self, obj, after):
        self.obj, self.after = obj, after


def simplify_under(v, pc):
    """conditions decided on the path are replaced by their truth value inside the (merged) result terms"""
    sub = {}
    for c in pc:
        if c.op == "not":
            sub[c.args[0]] = tm.FALSE
        elif c.op not in ("bool",):
            sub[c] = tm.TRUE
    if not sub:
        return v

    def go(x):
        if isinstance(x, T):
            return tm.subst(x, sub)
        if isinstance(x, tuple):
            return tuple(go(y) for y in x)
        return x

    return go(v)


def next_trail(decisions):
    """DFS over decision trails: drop trailing decisions that were already flipped, flip the last
    default one.  None when the tree is exhausted."""
    dec = list(decisions)
    while dec and dec[-1][1] is False:
        dec.pop()
    if not dec:
        return None
    return dec[:-1] + [(not dec[-1][0], False)]


class Exec:
    def __init__(self, engine, trail, pc0=None):
        self.eng = engine
        self.trail = trail
        self.pos = 0
        self.decisions = []  # (value, was_default)
        self.pc = list(pc0 or [])
        self.wd = []  # (condition term that must hold, description, pc snapshot)
        self.loop_kinds = []  # innermost last: "concrete" (python iteration), "independent", "recurrence", "append"
        self.facts = []
        self.qfacts = []  # callables idx-term -> fact term
        self.frames = []
        self.merge_mode = 0
        self.heap_writes = 0
        self.entry_stamp = _ALLOC[0]
        self.fresh = [0]
        self.hooks = {}
        self.ghost = {}

    # ---- decisions
    def known(self, c):
        if c is tm.TRUE:
            return True
        if c is tm.FALSE:
            return False
        nc = tm.lnot(c)
        for p in self.pc:
            if p is c:
                return True
            if p is nc:
                return False
        return None

    def decide(self, c):
        c = tm.lift(c)
        k = self.known(c)
        if k is not None:
            return k
        k = self.int_known(c)
        if k is not None:
            return k
        if self.trail is None:
            raise OutOfSubset("symbolic branch in a context without path enumeration")
        if self.pos < len(self.trail):
            v, default = self.trail[self.pos]
        else:
            v = True
            default = True
        self.pos += 1
        self.decisions.append((v, default))
        self.pc.append(c if v else tm.lnot(c))
        return v

    def int_known(self, c):
        """cheap pruning of infeasible branches on pure integer (length/index) conditions: decided by z3 against
        the integer part of the path condition"""
        def pure_int(t):
            return all(n.op != "app" and not (n.op == "var" and n.sort != tm.I) and n.op not in ("exp", "log", "rpow", "sqrt", "/") for n in tm.postorder(t))
        if not pure_int(c) or not tm.free_vars(c):
            return None
        base = [p for p in self.pc if pure_int(p) and tm.free_vars(p)]
        if not base:
            return None
        from . import backends as be
        sat_t, _ = be.check_sat(base + [c], timeout_ms=500)
        sat_f, _ = be.check_sat(base + [tm.lnot(c)], timeout_ms=500)
        if sat_t is False and sat_f is not False:
            return False
        if sat_f is False and sat_t is not False:
            return True
        return None

    def need(self, cond, what):
        """well-definedness condition"""
        cond = tm.lift(cond)
        if cond is tm.TRUE:
            return
        self.wd.append((cond, what, list(self.pc)))

    def fresh_var(self, stem, sort=tm.R):
        self.fresh[0] += 1
        return tm.var(f"{stem}#{self.fresh[0]}", sort)

    def note_write(self, target, masked=False):
        """a store into `target`: counts as a heap effect of the current (nested) call only when the
        object existed before the call started"""
        base = target
        while isinstance(base, ArrV) and base.view_of is not None:
            base = base.view_of[0]
        if isinstance(base, (ArrV, TableV, RecArrV)) and 0 < stamp_of(base) <= getattr(self, "arg_stamp", -1):
            ARG_DATA_WRITES.append((getattr(base, "name", None) or getattr(base, "srcname", None) or type(base).__name__) + (" [masked store]" if masked else ""))
        if stamp_of(base) <= self.entry_stamp:
            self.heap_writes += 1
            if getattr(base, "is_module_state", False) or id(base) in MODULE_STATE:
                self.ghost.setdefault("global_writes", []).append(getattr(base, "name", type(base).__name__))

    def heap_info(self, args, kwargs):
        return {"args": args, "kwargs": kwargs, "ghost": dict(self.ghost)}

    # ---- calls
    def call(self, f, args, kwargs=None):
        kwargs = kwargs or {}
        if isinstance(f, FuncV):
            q = f.qualname
            h = self.eng.opaque.get(q)
            if h is not None:
                a = ([f.bound] if f.bound is not None else []) + list(args)
                # a contract installed for the callee sees the arguments in the callee's own parameter order, however the
                # caller spelled the call (keywords are moved into their positions as far as they are contiguous)
                kwargs = dict(kwargs)
                if isinstance(f.node, ast.FunctionDef):
                    params = [p_.arg for p_ in f.node.args.posonlyargs + f.node.args.args]
                    while len(a) < len(params) and params[len(a)] in kwargs:
                        a.append(kwargs.pop(params[len(a)]))
                return h(self, a, kwargs)
            return self.call_funcv(f, args, kwargs)
        if isinstance(f, LibFn):
            if kwargs:
                al = KW_ALIASES.get(f.name.split(".")[-1]) or KW_ALIASES.get(f.name)
                if al:
                    kwargs = {al.get(k_, k_): v_ for k_, v_ in kwargs.items()}
            try:
                return f.impl(self, *args, **kwargs)
            except TypeError as e:
                if "argument" in str(e) and ("positional" in str(e) or "keyword" in str(e)):
                    raise OutOfSubset(f"call signature of {f.name} not modelled: {e}") from None
                raise
        if isinstance(f, OpaqueFn):
            if f.on_call:
                return f.on_call(self, f, args, kwargs)
            return self.eng.lib.apply_opaque(self, f, args, kwargs)
        if isinstance(f, ClassV):
            return self.instantiate(f, args, kwargs)
        if hasattr(f, "__call_model__"):
            return f.__call_model__(self, *args, **kwargs)
        if isinstance(f, ObjV):
            m = f.cls.lookup("__call__")
            if isinstance(m, FuncV):
                return self.call(m.bind(f), args, kwargs)
        raise OutOfSubset(f"call of {type(f).__name__}")

    def bind_args(self, f, args, kwargs):
        node = f.node
        a = node.args
        if a.kwonlyargs and any(k.arg not in kwargs for k, d in zip(a.kwonlyargs, a.kw_defaults) if d is None):
            raise OutOfSubset("missing kw-only")
        params = [p.arg for p in a.posonlyargs + a.args]
        env = {}
        args = list(args)
        if f.bound is not None:
            args = [f.bound] + args
        if len(args) > len(params):
            if a.vararg:
                env[a.vararg.arg] = tuple(args[len(params):])
                args = args[: len(params)]
            else:
                raise Raised("TypeError", "too many positional arguments")
        elif a.vararg:
            env[a.vararg.arg] = ()
        for p, v in zip(params, args):
            env[p] = v
        defaults = a.defaults
        first_default = len(params) - len(defaults)
        for i, p in enumerate(params):
            if p in env:
                if p in kwargs:
                    raise Raised("TypeError", "multiple values")
                continue
            if p in kwargs:
                env[p] = kwargs.pop(p) if False else kwargs[p]
            elif i >= first_default:
                env[p] = ("__default__", defaults[i - first_default])
            else:
                raise Raised("TypeError", f"missing argument {p}")
        for k, d in zip(a.kwonlyargs, a.kw_defaults):
            if k.arg in kwargs:
                env[k.arg] = kwargs[k.arg]
            elif d is not None:
                env[k.arg] = ("__default__", d)
        extra = [k for k in kwargs if k not in params and k not in [x.arg for x in a.kwonlyargs]]
        if a.kwarg:
            env[a.kwarg.arg] = {k: kwargs[k] for k in extra}
        elif extra:
            raise Raised("TypeError", f"unexpected keyword {extra}")
        return env

    HARMLESS_DECORATORS = ("staticmethod", "classmethod", "property", "dataclass", "functools.lru_cache", "lru_cache", "functools.cache", "cache", "functools.wraps", "np.vectorize", "abstractmethod")

    def call_funcv(self, f, args, kwargs):
        for dec in getattr(f.node, "decorator_list", []) or []:
            dn = dec.func if isinstance(dec, ast.Call) else dec
            name = ast.unparse(dn)
            if name not in self.HARMLESS_DECORATORS or name == "np.vectorize":
                raise OutOfSubset(f"call of a function decorated with @{name}")
        env = self.bind_args(f, args, kwargs)
        fr = Frame(f.module, env, f.closure, f)
        self.frames.append(fr)
        try:
            for k, v in list(env.items()):
                if isinstance(v, tuple) and len(v) == 2 and v[0] == "__default__":
                    immutable_call = isinstance(v[1], ast.Call) and ast.unparse(v[1].func) in ("np.dtype", "numpy.dtype", "float", "int", "tuple", "frozenset", "np.float64", "np.float32", "np.int64")
                    if isinstance(v[1], (ast.Call, ast.List, ast.Dict, ast.Set, ast.ListComp, ast.DictComp)) and not immutable_call:
                        # Python evaluates a default ONCE, at definition: a mutable default is state shared by every call
                        # that omits the argument.  Not modelled (a per-call evaluation would hide exactly that sharing).
                        raise OutOfSubset(f"mutable default argument {k}={ast.unparse(v[1])} of {f.qualname}: state shared between calls")
                    env[k] = self.eval(v[1])
            if isinstance(f.node, ast.Lambda):
                return self.eval(f.node.body)
            try:
                self.exec_block(f.node.body)
            except _Return as r:
                return r.value
            return None
        finally:
            self.frames.pop()

    def nested_paths(self, f, args, kwargs=None):
        """all paths of a nested call: list of (kind, value, path-condition suffix, exec)"""
        sub_trail = []
        results = []
        n0 = len(self.pc)
        while True:
            ex = Exec(self.eng, sub_trail, pc0=list(self.pc))
            ex.arg_stamp = getattr(self, "arg_stamp", -1)
            ex.wd = self.wd   # shared: element functions built inside the call add their conditions when they are evaluated, later
            ex.frames = list(self.frames)
            ex.fresh = self.fresh
            ex.hooks = self.hooks
            ex.ghost = self.ghost
            ex.merge_mode = self.merge_mode
            try:
                try:
                    v = ex.call(f, list(args), dict(kwargs or {}))
                    results.append(("return", v, ex.pc[n0:], ex))
                except Raised as r:
                    results.append(("raise", r.exc, ex.pc[n0:], ex))
            except _Backtrack:
                pass
            sub_trail = next_trail(ex.decisions)
            if sub_trail is None:
                break
            if len(results) > 64:
                raise OutOfSubset("too many paths in nested call")
        return results

    def call_merged(self, f, args, kwargs=None):
        """all paths of a nested call merged into one value (ite over the path conditions);
        a raising path makes the caller branch on its condition."""
        results = self.nested_paths(f, args, kwargs)
        if len(results) > 1 and any(r[3].heap_writes for r in results):
            raise OutOfSubset("nested call with several paths writes to the heap")
        for kind, v, pcs, ex in results:
            self.heap_writes += ex.heap_writes
        # well-definedness and facts of the sub-paths are kept (conditions already carry their pc)
        for kind, v, pcs, ex in results:
            if ex.wd is not self.wd:
                self.wd.extend(ex.wd)
            for fa in ex.facts:
                if fa not in self.facts:
                    self.facts.append(tm.implies(tm.land(*pcs), fa))
            self.qfacts.extend(ex.qfacts)
        rets = [(tm.land(*pcs), v) for kind, v, pcs, ex in results if kind == "return"]
        for kind, v, pcs, ex in results:
            if kind == "raise":
                c = tm.land(*pcs)
                if self.merge_mode:
                    # inside a map body: the element-wise raise condition is recorded as ill-definedness
                    self.need(tm.lnot(c), f"raises {v}")
                elif self.decide(c):
                    raise Raised(v)
        if not rets:
            raise _Backtrack()
        return merge_values(rets, self)

    def instantiate(self, cls, args, kwargs):
        obj = ObjV(cls)
        if cls.kind == "namedtuple":
            names = cls.field_names
            vals = list(args)
            if len(vals) > len(names) or any(k_ not in names or k_ in names[:len(vals)] for k_ in kwargs):
                raise Raised("TypeError", "namedtuple arguments")
            for n in names[len(vals):]:
                if n in kwargs:
                    vals.append(kwargs[n])
                elif n in cls.attrs and cls.attrs[n][0] == "default":
                    self.frames.append(Frame(cls.module, {}, None))
                    try:
                        vals.append(self.eval(cls.attrs[n][1]))
                    finally:
                        self.frames.pop()
                else:
                    raise Raised("TypeError", f"missing {n}")
            obj.fields = dict(zip(names, vals))
            return obj
        init = cls.lookup("__init__")
        if init is not None and isinstance(init, FuncV):
            self.call(init.bind(obj), args, kwargs)
            return obj
        if any(c.kind == "dataclass" for c in cls.mro()):
            names = []
            defaults = {}
            for c in reversed(cls.mro()):
                for n in c.field_names:
                    if n not in names:
                        names.append(n)
                    if n in c.attrs and c.attrs[n][0] == "default":
                        defaults[n] = (c, c.attrs[n][1])
            vals = dict(zip(names, args))
            if len(args) > len(names):
                raise Raised("TypeError")
            for k, v in kwargs.items():
                if k not in names or k in vals:
                    raise Raised("TypeError")
                vals[k] = v
            for n in names:
                if n not in vals:
                    if n in defaults:
                        c, node = defaults[n]
                        self.frames.append(Frame(c.module, {}, None))
                        try:
                            vals[n] = self.eval(node)
                        finally:
                            self.frames.pop()
                    else:
                        raise Raised("TypeError", f"missing {n}")
            obj.fields = vals
            post = cls.lookup("__post_init__")
            if post is not None:
                self.call(post.bind(obj), [], {})
            return obj
        if args or kwargs:
            if getattr(cls, "unmodelled_bases", False) or cls.node is None:
                raise OutOfSubset(f"instantiation with arguments of {cls.name}, whose base classes are not modelled")
            raise Raised("TypeError")
        return obj

    # ---- statements
    def exec_block(self, body):
        for st in body:
            self.exec_stmt(st)

    def exec_stmt(self, st):
        m = getattr(self, "st_" + type(st).__name__, None)
        if m is None:
            raise OutOfSubset(f"statement {type(st).__name__} line {st.lineno}")
        return m(st)

    def st_Expr(self, st):
        if isinstance(st.value, ast.Constant):
            return  # docstring
        self.eval(st.value)

    def st_Pass(self, st):
        pass

    def st_Return(self, st):
        raise _Return(self.eval(st.value) if st.value is not None else None)

    def st_Assign(self, st):
        v = self.eval(st.value)
        for tg in st.targets:
            self.assign(tg, v)

    def st_AnnAssign(self, st):
        if st.value is not None:
            self.assign(st.target, self.eval(st.value))

    def st_AugAssign(self, st):
        cur = self.eval(_load(st.target))
        v = self.binop(st.op, cur, self.eval(st.value))
        if isinstance(cur, ArrV) and isinstance(v, ArrV):
            # numpy in-place operator: the existing array object is overwritten (visible through every alias)
            vf = v.cur()
            if cur.view_of is not None:
                # in-place operator on a view: the base array is overwritten through the view.  The exact new
                # contents are not modelled (havoc); the write itself is what frame conditions need to see.
                base = cur.view_of[0]
                hv = self.fresh_var("havoc")
                base._fn = (lambda idx, hv=hv: tm.app("havoc", (hv,) + tuple(idx), tm.R))
                base.version += 1
                self.note_write(base)
                self.ghost.setdefault("view_writes", []).append(getattr(base, "name", "array"))
                return
            cur.store(lambda idx: tm.TRUE, vf)
            self.note_write(cur)
            if isinstance(st.target, ast.Name):
                return
            return  # a[...] op= b / t[key] op= b : the container keeps the same (mutated) array object
        self.assign(st.target, v)

    def st_If(self, st):
        c = self.truth(self.eval(st.test))
        if c:
            self.exec_block(st.body)
        else:
            self.exec_block(st.orelse)

    def st_Assert(self, st):
        c = self.eval(st.test)
        if not self.truth(c):
            raise Raised("AssertionError")

    def st_Raise(self, st):
        if st.exc is None:
            raise OutOfSubset("bare raise")
        e = st.exc
        name = None
        if isinstance(e, ast.Call) and isinstance(e.func, ast.Name):
            name = e.func.id
        elif isinstance(e, ast.Name):
            name = e.id
        if name is None:
            raise OutOfSubset("raise of a computed exception")
        raise Raised(name)

    def st_Try(self, st):
        if st.finalbody or st.orelse:
            raise OutOfSubset("try/finally/else")
        try:
            self.exec_block(st.body)
        except Raised as r:
            for h in st.handlers:
                names = []
                if h.type is None:
                    names = ["Exception"]
                elif isinstance(h.type, ast.Name):
                    names = [h.type.id]
                elif isinstance(h.type, ast.Tuple):
                    names = [e.id for e in h.type.elts]
                if any(exc_matches(r.exc, n) for n in names):
                    if h.name:
                        self.frames[-1].env[h.name] = ("exception", r.exc)
                    self.exec_block(h.body)
                    return
            raise

    def st_Delete(self, st):
        for tg in st.targets:
            if isinstance(tg, ast.Attribute):
                o = self.eval(tg.value)
                if isinstance(o, ObjV):
                    if tg.attr not in o.fields:
                        raise Raised("AttributeError")
                    del o.fields[tg.attr]
                    o.writes.append(("del", tg.attr))
                    self.note_write(o)
                    continue
            raise OutOfSubset("del of non-attribute")

    def st_FunctionDef(self, st):
        fr = self.frames[-1]
        self.frames[-1].env[st.name] = FuncV(st, fr.module, fr, None, f"{fr.module.name}:<local>.{st.name}")

    def st_With(self, st):
        # `with warnings.catch_warnings():` only
        for it in st.items:
            src = ast.unparse(it.context_expr)
            if not (src.startswith("warnings.") or src.startswith("np.errstate(") or src.startswith("numpy.errstate(")):
                raise OutOfSubset(f"with {src}")
            if "errstate" in src and isinstance(it.context_expr, ast.Call) and any(isinstance(k_.value, ast.Constant) and k_.value.value == "raise" for k_ in it.context_expr.keywords):
                # floating-point conditions (underflow, overflow, invalid, division) become exceptions inside the block:
                # the real-number semantics cannot see them - the bounded search decides
                raise OutOfSubset(f"with {src}: floating-point conditions raise FloatingPointError inside the block")
        self.exec_block(st.body)

    def st_For(self, st):
        if st.orelse:
            raise OutOfSubset("for/else")
        hook = self.hooks.get(("for", st.lineno))
        if hook is not None:
            return hook(self, st)
        it = self.eval(st.iter)
        if isinstance(it, RangeV) and not all(tm.is_const(x) for x in (it.start, it.stop, it.step)):
            return self.loop_recurrence(st, it)
        if isinstance(it, EnumV) and isinstance(it.inner, ArrV) and it.inner.static_len() is None:
            return self.loop_independent(st, it)
        if isinstance(it, ArrV) and it.ndim == 1 and it.static_len() is None and it.mask is None:
            return self.loop_append(st, it)
        seq = self.iterate(it)
        self.loop_kinds.append("concrete")
        try:
            for v in seq:
                self.assign(st.target, v)
                try:
                    self.exec_block(st.body)
                except _Continue:
                    continue
                except _Break:
                    break
        finally:
            self.loop_kinds.pop()

    def st_Continue(self, st):
        if not self.loop_kinds or self.loop_kinds[-1] not in ("concrete", "independent"):
            raise OutOfSubset("continue in a loop that is summarised symbolically")
        raise _Continue()

    def st_Break(self, st):
        # an early exit makes the iterations of a summarised loop depend on each other: outside the subset there
        if not self.loop_kinds or self.loop_kinds[-1] != "concrete":
            raise OutOfSubset("break in a loop that is summarised symbolically (early exit)")
        raise _Break()

    # ---- `for v in arr: ...; out.append(expr)` over a symbolic-length array: the loop form of a comprehension
    def loop_append(self, st, arr):
        """the body may bind locals and must end its effect in `L.append(expr)` on python lists L that are EMPTY when the
        loop starts (one append per list, unconditional, last use of the list in the body); iterations are independent, so
        each list becomes the map of its expression over the array (as for a list comprehension)"""
        if not isinstance(st.target, ast.Name):
            raise OutOfSubset("loop target")
        appends = {}
        plain = []
        for b in st.body:
            if (isinstance(b, ast.Expr) and isinstance(b.value, ast.Call) and isinstance(b.value.func, ast.Attribute) and b.value.func.attr == "append"
                    and isinstance(b.value.func.value, ast.Name) and len(b.value.args) == 1 and not b.value.keywords):
                nm = b.value.func.value.id
                if nm in appends:
                    raise OutOfSubset("two appends to one list in a loop over a symbolic-length array")
                appends[nm] = b.value.args[0]
            elif isinstance(b, (ast.Assign, ast.AnnAssign)) and all(isinstance(t_, ast.Name) for t_ in (b.targets if isinstance(b, ast.Assign) else [b.target])):
                if appends:
                    raise OutOfSubset("statement after an append in a loop over a symbolic-length array")
                plain.append(b)
            else:
                raise OutOfSubset("loop over a symbolic-length array whose body is not `locals...; list.append(expr)`")
        if not appends:
            raise OutOfSubset("loop over a symbolic-length array without an append")
        fr = self.frames[-1]
        for nm in appends:
            cur = self.lookup(nm)
            if not (isinstance(cur, list) and len(cur) == 0):
                raise OutOfSubset(f"append to {nm}, which is not an empty list at loop entry")
        results = {}
        for nm, expr in appends.items():
            def body(v, expr=expr):
                saved = dict(fr.env)
                self.assign(st.target, v)
                try:
                    for b in plain:
                        self.exec_stmt(b) if hasattr(self, "exec_stmt") else self.exec_block([b])
                    return self.eval(expr)
                finally:
                    fr.env.clear()
                    fr.env.update(saved)
            results[nm] = self.eng.lib.map_over(self, arr, body)
        for nm, ml in results.items():
            self.assign(ast.Name(id=nm, ctx=ast.Store()), ml)

    # ---- loops over a symbolic range: summarised exactly as a recurrence
    def loop_recurrence(self, st, rng):
        """for i in range(N) whose body reads outer arrays at row i (and loop-invariant values) and writes row i+1:
        the arrays after the loop are PP with PP[0] = row 0 before the loop and PP[i+1] = body(PP[i], i) for
        0 <= i < N.  The body is executed once at a symbolic i; the record goes to ghost['loops'] for contracts."""
        if not (tm.is_const(rng.start) and tm.cval(rng.start) == 0 and tm.is_const(rng.step) and tm.cval(rng.step) == 1):
            raise OutOfSubset("symbolic loop not of the form range(N)")
        self.loop_kinds.append("recurrence")
        try:
            return self._loop_recurrence(st, rng)
        finally:
            self.loop_kinds.pop()

    def _loop_recurrence(self, st, rng):
        if not isinstance(st.target, ast.Name):
            raise OutOfSubset("loop target")
        N = rng.stop
        fr = self.frames[-1]
        assigned, first_store, first_load = [], {}, {}
        order = 0
        for node in ast.walk(ast.Module(body=st.body, type_ignores=[])):
            if isinstance(node, ast.Name):
                order = (node.lineno, node.col_offset)
                if isinstance(node.ctx, ast.Store):
                    first_store.setdefault(node.id, order)
                    if node.id not in assigned:
                        assigned.append(node.id)
                elif isinstance(node.ctx, ast.Load):
                    if node.id not in first_load or order < first_load[node.id]:
                        first_load[node.id] = order
        for nm in assigned:
            if nm in first_load and first_load[nm] < first_store[nm] and nm != st.target.id:
                raise OutOfSubset(f"loop-carried variable {nm!r}: the iteration depends on more than the previous row")
        stored = []
        for node in ast.walk(ast.Module(body=st.body, type_ignores=[])):
            tg = []
            if isinstance(node, ast.Assign):
                tg = node.targets
            elif isinstance(node, ast.AugAssign):
                tg = [node.target]
            for t in tg:
                for e in (t.elts if isinstance(t, (ast.Tuple, ast.List)) else [t]):
                    if isinstance(e, ast.Subscript) and isinstance(e.value, ast.Name) and e.value.id not in assigned and e.value.id not in stored:
                        stored.append(e.value.id)
                    elif isinstance(e, ast.Attribute):
                        raise OutOfSubset("attribute store inside a symbolic loop")
        k = len(self.ghost.setdefault("loops", []))
        i = tm.var(f"i{k}", tm.I)
        rec = {"index": i, "N": N, "arrays": {}, "lineno": st.lineno, "function": fr.module.name}
        arrs = {}
        for nm in stored:
            A = self.lookup(nm)
            if not isinstance(A, ArrV) or A.view_of is not None or A.ndim not in (1, 2):
                raise OutOfSubset(f"loop stores into {nm!r}, which is not a plain array")
            pre = A.cur()
            pp = f"{nm}@L{k}"
            A._fn = (lambda idx, pp=pp: tm.app(pp, idx, tm.R))
            arrs[nm] = (A, pre, pp)
        self.pc.append(tm.land(tm.le(tm.const(0), i), tm.lt(i, N)))
        n_solves = len(self.ghost.get("solves", []))
        fr.env[st.target.id] = i
        self.exec_block(st.body)
        one = tm.const(1)
        for nm, (A, pre, pp) in arrs.items():
            cur = A.cur()
            probe = tuple(tm.var(f"#R{d}", tm.I) for d in range(A.ndim))
            t = cur(probe)
            hit = tm.eq(probe[0], tm.add(i, one))
            frame = tm.subst(t, {hit: tm.FALSE}) if hit.op != "bool" else t
            if frame is not tm.app(pp, probe, tm.R):
                raise OutOfSubset(f"the loop body writes {nm!r} elsewhere than at row i+1")
            newrow = (lambda c, cur=cur: cur((tm.add(i, one),) + tuple(c)))
            rec["arrays"][nm] = {"array": A, "symbol": pp, "pre": pre, "newrow": newrow}
            A._fn = (lambda idx, pp=pp: tm.app(pp, idx, tm.R))
        rec["locals"] = {nm: fr.env.get(nm) for nm in assigned if nm in fr.env}
        rec["solves"] = list(self.ghost.get("solves", [])[n_solves:])
        for nm in assigned:
            fr.env.pop(nm, None)
        self.ghost["loops"].append(rec)
        from . import libmodels
        libmodels.used(self, "symbolic loop summarised as the recurrence row[i+1] = body(row[i], i) (body executed once at a symbolic index)")

    def loop_independent(self, st, it):
        """for i, row in enumerate(arr): iterations that only append to ghost lists (plots): the body is executed once at a
        symbolic index under each combination of its branch conditions; effects are recorded with their guards."""
        arr = it.inner
        k = len(self.ghost.setdefault("loops", []))
        i = tm.var(f"i{k}", tm.I)
        fr = self.frames[-1]
        self.pc.append(tm.land(tm.le(tm.const(0), i), tm.lt(i, arr.shape[0])))
        base = len(self.pc)
        if arr.ndim == 2:
            elt = row_view(arr, i)
        else:
            elt = arr.get(i)
        effects = self.ghost.setdefault("effects", [])
        n0 = len(effects)
        results = []
        sub_trail = []
        saved_env = dict(fr.env)
        while True:
            ex = Exec(self.eng, sub_trail, pc0=list(self.pc))
            ex.arg_stamp = getattr(self, "arg_stamp", -1)
            ex.frames = list(self.frames)
            ex.fresh, ex.hooks, ex.ghost = self.fresh, self.hooks, self.ghost
            ex.loop_kinds = ["independent"]
            fr.env.clear()
            fr.env.update(saved_env)
            m0 = len(effects)
            try:
                ex.assign(st.target, (i, elt))
                ex.exec_block(st.body)
            except _Backtrack:
                pass
            except _Continue:
                pass      # this iteration ends here on this path: the effects recorded so far keep their guard
            except _Break:
                raise OutOfSubset("break in a loop with independent iterations") from None
            for e in effects[m0:]:
                e["guard"] = tm.land(*ex.pc[base:])
                e["index"] = i
            sub_trail = next_trail(ex.decisions)
            if sub_trail is None:
                break
        fr.env.clear()
        fr.env.update(saved_env)
        self.pc.pop()
        self.ghost["loops"].append({"index": i, "N": arr.shape[0], "kind": "independent", "effects": effects[n0:]})
        from . import libmodels
        libmodels.used(self, "loop with independent iterations evaluated at a symbolic index; drawn curves recorded with their guards")

    def st_While(self, st):
        hook = self.hooks.get(("while", self._loop_key(st)))
        if hook is not None:
            return hook(self, st)
        return self.while_last_iteration(st)

    def while_last_iteration(self, st):
        """`while c: body` whose body only rebinds local scalar names: summarised, for PARTIAL correctness, by its last
        iteration - every terminating run that enters the loop has a last iteration, which starts in some state where c
        holds and ends in one where it does not.  The state before that iteration is havocked (fresh symbols for every
        name the body assigns; no invariant is inferred or assumed), the body is executed once, and the negated condition
        is added to the path.  Termination is NOT proved; well-definedness conditions of the body are recorded against the
        havocked state (the contract using the loop must say how it treats them)."""
        if st.orelse:
            raise OutOfSubset("while ... else")
        # `while True: body; if c: break` (test after the body): the same summary with the loop left when c holds after the body
        do_while = None
        if isinstance(st.test, ast.Constant) and st.test.value is True and st.body and isinstance(st.body[-1], ast.If) and not st.body[-1].orelse \
                and len(st.body[-1].body) == 1 and isinstance(st.body[-1].body[0], ast.Break):
            do_while = st.body[-1].test
            st = ast.While(test=st.test, body=st.body[:-1], orelse=[])
            ast.copy_location(st, do_while)
            st.lineno = getattr(do_while, "lineno", 0)
        names = []
        for nd in ast.walk(st):
            if isinstance(nd, (ast.While, ast.For)) and nd is not st:
                raise OutOfSubset("nested loop inside a while loop")
            if isinstance(nd, (ast.Return, ast.Break, ast.Continue, ast.Raise, ast.Try, ast.With, ast.Delete, ast.Global, ast.Nonlocal, ast.FunctionDef, ast.Lambda, ast.NamedExpr, ast.Yield, ast.Await)):
                raise OutOfSubset(f"{type(nd).__name__} inside a while loop")
            tgs = nd.targets if isinstance(nd, ast.Assign) else ([nd.target] if isinstance(nd, (ast.AugAssign, ast.AnnAssign)) else [])
            for tg in tgs:
                for t_ in (tg.elts if isinstance(tg, (ast.Tuple, ast.List)) else [tg]):
                    if not isinstance(t_, ast.Name):
                        raise OutOfSubset("while loop body stores into something else than a local name")
                    if t_.id not in names:
                        names.append(t_.id)
        if self.merge_mode:
            raise OutOfSubset("while loop inside a merged call")
        fr = self.frames[-1]
        if do_while is None:
            first = self.truth(self.eval(st.test))  # path split when symbolic: a run that never enters the loop is its own path
            if not first:
                return
        hw0 = self.heap_writes
        key = len(self.ghost.setdefault("while_loops", []))
        havoc = {}
        for nm in names:
            if nm in fr.env:
                v = fr.env[nm]
                if isinstance(v, bool) or not isinstance(v, (int, float, T)):
                    raise OutOfSubset(f"while loop rebinds {nm}, which is not a scalar")
                sort = v.sort if isinstance(v, T) else (tm.I if isinstance(v, int) else tm.R)
                if isinstance(v, T) and sort == tm.B:
                    raise OutOfSubset("while loop rebinds a boolean")
                # a python int that the body rebinds may become a float: only floats / reals are havocked as reals
                havoc[nm] = tm.var(f"{nm}@while{key}", tm.R if sort != tm.I else tm.I)
                if sort == tm.I and not isinstance(v, T):
                    havoc[nm] = tm.var(f"{nm}@while{key}", tm.R)  # e.g. `fdum = 1` before a loop that assigns floats
                fr.env[nm] = havoc[nm]
        if do_while is None:
            entry = self.eval(st.test)
            if isinstance(entry, (bool, int, float)) and not isinstance(entry, T):
                raise OutOfSubset("while condition does not depend on the loop state")
            entry = tm.lift(entry) if entry.sort == tm.B else tm.ne(entry, tm.const(0))
            self.pc.append(entry)
        else:
            entry = tm.TRUE
        self.loop_kinds.append("while")
        try:
            self.exec_block(st.body)
        finally:
            self.loop_kinds.pop()
        if self.heap_writes != hw0:
            raise OutOfSubset("while loop body writes to the heap")
        post = {nm: fr.env.get(nm) for nm in names}
        ex_ = self.eval(st.test if do_while is None else do_while)
        if not isinstance(ex_, T):
            raise OutOfSubset("while condition is concrete after the body")
        ex_ = tm.lift(ex_) if ex_.sort == tm.B else tm.ne(ex_, tm.const(0))
        if do_while is not None:
            ex_ = tm.lnot(ex_)   # the loop is left when the break condition HOLDS
        self.pc.append(tm.lnot(ex_))
        self.ghost["while_loops"].append({"names": names, "havoc": havoc, "post": post, "entry": entry, "exit": tm.lnot(ex_), "lineno": st.lineno})
        from . import libmodels
        libmodels.used(self, "while loop summarised by its last iteration from a havocked state (partial correctness only: no invariant, termination not proved)")

    def _loop_key(self, st):
        # ordinal of the loop inside its function
        return getattr(st, "_ordinal", None)

    def iterate(self, it):
        if isinstance(it, (list, tuple)):
            return list(it)
        if isinstance(it, dict):
            return list(it.keys())
        if isinstance(it, set):
            return sorted(it)
        if isinstance(it, RangeV):
            if all(tm.is_const(x) for x in (it.start, it.stop, it.step)):
                return [tm.const(i) for i in range(int(tm.cval(it.start)), int(tm.cval(it.stop)), int(tm.cval(it.step)))]
            raise OutOfSubset("loop over a symbolic range without invariant")
        if isinstance(it, ArrV):
            return it.tolist()
        if isinstance(it, TableV):
            return list(it.cols.keys())
        if isinstance(it, EnumV):
            return [(tm.const(i), v) for i, v in enumerate(self.iterate(it.inner))]
        if isinstance(it, ZipV):
            return list(zip(*[self.iterate(x) for x in it.parts]))
        if isinstance(it, ObjV) and it.cls.kind == "namedtuple":
            return [it.fields[n] for n in it.cls.field_names]
        if isinstance(it, RecordV):
            return list(it.values)
        raise OutOfSubset(f"iteration over {type(it).__name__}")

    # ---- assignment
    def assign(self, tg, v):
        if isinstance(tg, ast.Name):
            self.frames[-1].env[tg.id] = v
        elif isinstance(tg, (ast.Tuple, ast.List)):
            vals = self.iterate(v) if not isinstance(v, (tuple, list)) else list(v)
            stars = [k_ for k_, t_ in enumerate(tg.elts) if isinstance(t_, ast.Starred)]
            if len(stars) > 1:
                raise OutOfSubset("two starred targets")
            if stars:
                k_ = stars[0]
                after = len(tg.elts) - k_ - 1
                if len(vals) < len(tg.elts) - 1:
                    raise Raised("ValueError", "not enough values to unpack")
                for t, x in zip(tg.elts[:k_], vals[:k_]):
                    self.assign(t, x)
                self.assign(tg.elts[k_].value, stamp(list(vals[k_:len(vals) - after])))
                for t, x in zip(tg.elts[k_ + 1:], vals[len(vals) - after:] if after else []):
                    self.assign(t, x)
                return
            if len(vals) != len(tg.elts):
                raise Raised("ValueError", "unpack")
            for t, x in zip(tg.elts, vals):
                self.assign(t, x)
        elif isinstance(tg, ast.Attribute):
            o = self.eval(tg.value)
            if isinstance(o, ObjV):
                o.fields[tg.attr] = v
                o.writes.append(("set", tg.attr))
                self.note_write(o)
            else:
                raise OutOfSubset(f"attribute store on {type(o).__name__}")
        elif isinstance(tg, ast.Subscript):
            o = self.eval(tg.value)
            idx = self.eval_index(tg.slice)
            self.eng.lib.setitem(self, o, idx, v)
            self.note_write(o, masked=(isinstance(idx, ArrV) and idx.dtype == "b"))
        else:
            raise OutOfSubset(f"assignment target {type(tg).__name__}")

    # ---- expressions
    def truth(self, v):
        if isinstance(v, bool):
            return v
        if v is None:
            return False
        if isinstance(v, T):
            if v.sort == tm.B:
                return self.decide(v)
            return self.decide(tm.ne(v, tm.const(0)))
        if isinstance(v, (list, tuple, dict, set, str)):
            return len(v) > 0
        if isinstance(v, ArrV):
            n_ = v.static_len() if v.ndim == 1 and v.mask is None else None
            if n_ is not None and n_ > 1:
                raise Raised("ValueError", "truth value of an array is ambiguous")
            if n_ == 1:
                return self.truth(v.get(tm.const(0)))
            # length unknown: numpy raises only for more than one element
            raise OutOfSubset("truth value of an array of symbolic length")
        return True

    def lookup(self, name):
        fr = self.frames[-1]
        f = fr
        while f is not None:
            if name in f.env:
                return f.env[name]
            f = f.closure
        try:
            return self.eng.mod_global(fr.module, name)
        except KeyError:
            pass
        if name == "__name__":
            return fr.module.name
        b = self.eng.lib.builtin(name)
        if b is not None:
            return b
        raise OutOfSubset(f"name {name}")

    def eval(self, e):
        m = getattr(self, "ev_" + type(e).__name__, None)
        if m is None:
            raise OutOfSubset(f"expression {type(e).__name__} line {getattr(e, 'lineno', '?')}")
        return m(e)

    def ev_Constant(self, e):
        v = e.value
        if isinstance(v, bool) or v is None or isinstance(v, str):
            return v
        if isinstance(v, (int, float)):
            return tm.const(v)
        raise OutOfSubset(f"constant {v!r}")

    def ev_Name(self, e):
        return self.lookup(e.id)

    def ev_JoinedStr(self, e):
        parts = []
        for v in e.values:
            if isinstance(v, ast.Constant) and isinstance(v.value, str):
                parts.append(v.value)
            elif isinstance(v, ast.FormattedValue) and v.format_spec is None and v.conversion == -1:
                try:
                    x = self.eval(v.value)
                except OutOfSubset:
                    return "<fstring>"
                if isinstance(x, str) and x not in ("<str>", "<fstring>", "<repr>"):
                    parts.append(x)
                else:
                    return "<fstring>"
            else:
                return "<fstring>"
        return "".join(parts)

    def ev_Tuple(self, e):
        out = []
        for x in e.elts:
            if isinstance(x, ast.Starred):
                out.extend(self.iterate(self.eval(x.value)))
            else:
                out.append(self.eval(x))
        return tuple(out)

    def ev_List(self, e):
        return stamp(list(self.ev_Tuple(e)))

    def ev_Set(self, e):
        return set(self.ev_Tuple(e))

    def ev_Dict(self, e):
        d = {}
        for k, v in zip(e.keys, e.values):
            if k is None:
                inner = self.eval(v)
                if isinstance(inner, TableV) and inner.kind == "dict":
                    inner = dict(inner.cols)
                if not isinstance(inner, dict):
                    raise OutOfSubset("** of a non-dict in a dict display")
                d.update(inner)
                continue
            d[self.eval(k)] = self.eval(v)
        return stamp(d)

    def ev_NamedExpr(self, e):
        v = self.eval(e.value)
        if not isinstance(e.target, ast.Name):
            raise OutOfSubset("walrus target")
        self.frames[-1].env[e.target.id] = v
        return v

    def ev_Lambda(self, e):
        fr = self.frames[-1]
        return FuncV(e, fr.module, fr, None, f"{fr.module.name}:<lambda>")

    def ev_IfExp(self, e):
        c = self.eval(e.test)
        if isinstance(c, T) and c.sort == tm.B and self.known(c) is None:
            # each arm is evaluated UNDER its condition (its well-definedness needs and facts are those of that arm only);
            # an arm that branches, raises or is not a scalar makes the whole expression an ordinary path split on c
            n_pc, n_dec, pos0 = len(self.pc), len(self.decisions), self.pos
            arms = []
            ok = True
            for cond, node in ((c, e.body), (tm.lnot(c), e.orelse)):
                self.pc.append(cond)
                try:
                    v = self.eval(node)
                except (Raised, _Backtrack):
                    ok = False
                    v = None
                if len(self.decisions) != n_dec or len(self.pc) != n_pc + 1:
                    ok = False
                del self.pc[n_pc:]
                del self.decisions[n_dec:]
                self.pos = pos0
                if not ok or not isinstance(v, T):
                    ok = False
                    break
                arms.append(v)
            if ok:
                return tm.ite(c, arms[0], arms[1])
        return self.eval(e.body) if self.truth(c) else self.eval(e.orelse)

    def ev_Attribute(self, e):
        o = self.eval(e.value)
        return self.getattr(o, e.attr)

    def getattr(self, o, name):
        if isinstance(o, SuperV):
            cls_of = o.obj if isinstance(o.obj, ClassV) else o.obj.cls
            mro = cls_of.mro()
            if o.after not in mro:
                raise OutOfSubset("super(): object is not an instance of the defining class")
            for c in mro[mro.index(o.after) + 1:]:
                if name in c.methods:
                    m = c.methods[name]
                    return m.bind(o.obj) if isinstance(m, FuncV) else m
            raise Raised("AttributeError", name)
        if isinstance(o, ObjV):
            if name in o.fields:
                return o.fields[name]
            if name == "__dict__":
                return DictProxy(o)
            c = o.cls.lookup(name)
            if c is None:
                if any(getattr(k_, "unmodelled_bases", False) for k_ in o.cls.mro()):
                    raise OutOfSubset(f"attribute {name} of an object whose base classes are not modelled")
                raise Raised("AttributeError", name)
            if isinstance(c, FuncV):
                decs = [ast.unparse(d_.func if isinstance(d_, ast.Call) else d_) for d_ in getattr(c.node, "decorator_list", [])]
                if "property" in decs:
                    return self.call(c.bind(o), [], {})
                if any(d_.endswith("cached_property") for d_ in decs):
                    raise OutOfSubset("cached_property (state kept on the instance)")
                if "staticmethod" in decs:
                    return c
                return c.bind(o.cls if c.is_classmethod else o)
            if isinstance(c, tuple):
                self.frames.append(Frame(o.cls.module, {}, None))
                try:
                    return self.eval(c[1])
                finally:
                    self.frames.pop()
            return c
        if isinstance(o, ClassV):
            c = o.lookup(name)
            if c is None:
                raise Raised("AttributeError", name)
            if isinstance(c, FuncV) and c.is_classmethod:
                return c.bind(o)
            if isinstance(c, tuple):
                self.frames.append(Frame(o.module, {}, None))
                try:
                    return self.eval(c[1])
                finally:
                    self.frames.pop()
            return c
        if isinstance(o, LibV):
            if self.eng.is_repo_module(o.path):
                try:
                    return self.eng.mod_global(self.eng.module(o.path), name)
                except KeyError:
                    sub = f"{o.path}.{name}"
                    self.eng.module(sub)
                    return LibV(sub)
            return self.eng.lib.resolve(f"{o.path}.{name}")
        return self.eng.lib.lib_getattr(self, o, name)

    def ev_Subscript(self, e):
        o = self.eval(e.value)
        idx = self.eval_index(e.slice)
        return self.eng.lib.getitem(self, o, idx)

    def eval_index(self, s):
        if isinstance(s, ast.Slice):
            return SliceV(*(None if x is None else self.eval(x) for x in (s.lower, s.upper, s.step)))
        if isinstance(s, ast.Tuple):
            return tuple(self.eval_index(x) for x in s.elts)
        return self.eval(s)

    def ev_UnaryOp(self, e):
        v = self.eval(e.operand)
        if isinstance(e.op, ast.Not):
            if isinstance(v, T) and v.sort == tm.B:
                return tm.lnot(v)
            return not self.truth(v)
        if isinstance(e.op, ast.USub):
            return self.eng.lib.map1(self, tm.neg, v)
        if isinstance(e.op, ast.UAdd):
            return v
        raise OutOfSubset("unary op")

    def ev_BinOp(self, e):
        return self.binop(e.op, self.eval(e.left), self.eval(e.right))

    def binop(self, op, a, b):
        return self.eng.lib.binop(self, op, a, b)

    def ev_BoolOp(self, e):
        isand = isinstance(e.op, ast.And)
        acc = None
        for i, x in enumerate(e.values):
            v = self.eval(x)
            if isinstance(v, T) and v.sort == tm.B:
                k = self.known(v)
                if k is None:
                    # symbolic: combine the rest symbolically if they are boolean terms
                    rest = [self.eval(y) for y in e.values[i + 1:]]
                    parts = ([acc] if acc is not None else []) + [v] + rest
                    if all(isinstance(p, (T, bool)) for p in parts):
                        parts = [tm.lift(p) for p in parts]
                        return tm.land(*parts) if isand else tm.lor(*parts)
                    raise OutOfSubset("mixed boolean operation")
                v = k
            t = self.truth(v)
            if isand and not t:
                return v
            if not isand and t:
                return v
            acc = v
        return acc

    def ev_Compare(self, e):
        left = self.eval(e.left)
        result = None
        for op, r in zip(e.ops, e.comparators):
            right = self.eval(r)
            c = self.eng.lib.compare(self, op, left, right)
            if result is None:
                result = c
            else:
                if isinstance(result, bool) and isinstance(c, bool):
                    result = result and c
                else:
                    result = tm.land(tm.lift(result), tm.lift(c))
            left = right
        return result

    def zero_arg_super(self):
        fr = self.frames[-1]
        while fr is not None and (fr.func is None or isinstance(fr.func.node, ast.Lambda)):
            fr = fr.closure
        if fr is None or ":" not in fr.func.qualname or "." not in fr.func.qualname.split(":")[1]:
            raise OutOfSubset("super() outside a method")
        mod, path = fr.func.qualname.split(":")
        owner = self.eng.cls(mod + ":" + path.rsplit(".", 1)[0])
        a = fr.func.node.args
        params = [p.arg for p in a.posonlyargs + a.args]
        if not isinstance(owner, ClassV) or not params or params[0] not in fr.env:
            raise OutOfSubset("super() outside a method")
        return SuperV(fr.env[params[0]], owner)

    def ev_Call(self, e):
        if isinstance(e.func, ast.Name) and e.func.id == "super" and not e.args and not e.keywords:
            return self.zero_arg_super()
        f = self.eval(e.func)
        args = []
        for a in e.args:
            if isinstance(a, ast.Starred):
                args.extend(self.iterate(self.eval(a.value)))
            else:
                args.append(self.eval(a))
        kwargs = {}
        for k in e.keywords:
            if k.arg is None:
                d = self.eval(k.value)
                if not isinstance(d, dict):
                    raise OutOfSubset("** of non-dict")
                kwargs.update(d)
            else:
                kwargs[k.arg] = self.eval(k.value)
        if isinstance(f, FuncV) and f.qualname not in self.eng.opaque and self.eng.is_repo_module(f.module.name):
            self.eng.call_log.append(f.qualname)
            if self.nested_should_merge(f):
                return self.call_merged(f, args, kwargs)
        return self.call(f, args, kwargs)

    def nested_should_merge(self, f):
        if self.merge_mode:
            return True
        if self.trail is None:
            return True
        return not self.writes_params_deep(f)

    def writes_params_deep(self, f, depth=3):
        """writes_params, also through helpers: a parameter handed on to a repository function that stores into ITS
        parameter is written as well (an extracted helper must not change how the caller is executed)"""
        if writes_params(f.node):
            return True
        if depth == 0 or not isinstance(f.node, ast.FunctionDef):
            return False
        params = {a.arg for a in f.node.args.posonlyargs + f.node.args.args + f.node.args.kwonlyargs}
        for n in ast.walk(f.node):
            if not isinstance(n, ast.Call):
                continue
            passed = [a for a in list(n.args) + [k.value for k in n.keywords] if isinstance(a, ast.Name) and a.id in params]
            if not passed:
                continue
            callee = None
            try:
                if isinstance(n.func, ast.Name):
                    callee = self.eng.mod_global(f.module, n.func.id)
                elif isinstance(n.func, ast.Attribute) and isinstance(n.func.value, ast.Name) and n.func.value.id in ("self", "cls") and ":" in f.qualname and "." in f.qualname.split(":")[1]:
                    owner = self.eng.cls(f.qualname.split(":")[0] + ":" + f.qualname.split(":")[1].rsplit(".", 1)[0])
                    callee = owner.lookup(n.func.attr) if isinstance(owner, ClassV) else None
            except Exception:  # noqa: BLE001 - not resolvable statically: no information
                callee = None
            if isinstance(callee, FuncV) and callee.node is not f.node and self.writes_params_deep(callee, depth - 1):
                return True
        return False

    def comprehension(self, e, make):
        if len(e.generators) != 1:
            raise OutOfSubset("nested comprehension")
        g = e.generators[0]
        it = self.eval(g.iter)
        if isinstance(it, RecArrV):
            if g.ifs:
                raise OutOfSubset("filtered comprehension over a record array")
            return self.eng.lib.map_over_records(self, it, lambda v: self._comp_body(g.target, v, e))
        if isinstance(it, ArrV) and it.static_len() is None or (isinstance(it, ArrV) and it.mask is not None):
            if g.ifs:
                raise OutOfSubset("filtered comprehension over symbolic array")
            return self.eng.lib.map_over(self, it, lambda v: self._comp_body(g.target, v, e))
        out = []
        for v in self.iterate(it):
            fr = self.frames[-1]
            saved = dict(fr.env)
            self.assign(g.target, v)
            if all(self.truth(self.eval(c)) for c in g.ifs):
                out.append(make())
            # comprehension variables do not leak
            for k in list(fr.env):
                if k not in saved:
                    del fr.env[k]
                else:
                    fr.env[k] = saved[k]
        return out

    def _comp_body(self, target, v, e):
        fr = self.frames[-1]
        saved = dict(fr.env)
        self.assign(target, v)
        try:
            return self.eval(e.elt)
        finally:
            fr.env.clear()
            fr.env.update(saved)

    def ev_ListComp(self, e):
        return self.comprehension(e, lambda: self.eval(e.elt))

    def ev_GeneratorExp(self, e):
        return self.comprehension(e, lambda: self.eval(e.elt))

    def ev_DictComp(self, e):
        g = e.generators[0]
        out = {}
        for v in self.iterate(self.eval(g.iter)):
            self.assign(g.target, v)
            if all(self.truth(self.eval(c)) for c in g.ifs):
                out[self.eval(e.key)] = self.eval(e.value)
        return stamp(out)


MODULE_STATE = {}  # id(container) -> (module, name): mutable module-level objects


class StrSym:
    """symbolic string: only (in)equality with string constants is modelled"""

    def __init__(self, name):
        self.name = name
        self.tests = {}

    def eq_const(self, ex, c):
        b = self.tests.get(c)
        if b is None:
            b = tm.var(f"{self.name}=={c!r}", tm.B)
            for other in self.tests.values():
                ex.facts.append(tm.lnot(tm.land(b, other)))
            self.tests[c] = b
        return b


class RecordV:
    """one record of a structured array"""

    def __init__(self, names, values):
        self.names = list(names)
        self.values = list(values)


class SliceV:
    def __init__(self, lo, hi, step):
        self.lo, self.hi, self.step = lo, hi, step


class RangeV:
    def __init__(self, start, stop, step):
        self.start, self.stop, self.step = start, stop, step


class EnumV:
    def __init__(self, inner):
        self.inner = inner


class ZipV:
    def __init__(self, parts):
        self.parts = parts


class DictProxy:
    def __init__(self, obj):
        self.obj = obj


_WP = {}


def writes_params(node):
    """static check: does the function store into (or delete) an attribute/subscript of one of its
    parameters?  Such callees are inlined into the caller's path enumeration instead of merged."""
    r = _WP.get(id(node))
    if r is not None:
        return r[0]
    res = False
    if isinstance(node, ast.FunctionDef):
        params = {a.arg for a in node.args.posonlyargs + node.args.args + node.args.kwonlyargs}

        def base(t):
            while isinstance(t, (ast.Subscript, ast.Attribute)):
                t = t.value
            return t.id if isinstance(t, ast.Name) else None

        for n in ast.walk(node):
            tgts = []
            if isinstance(n, ast.Assign):
                tgts = n.targets
            elif isinstance(n, (ast.AugAssign, ast.AnnAssign)):
                tgts = [n.target]
            elif isinstance(n, ast.Delete):
                tgts = n.targets
            for t in tgts:
                for e in (t.elts if isinstance(t, (ast.Tuple, ast.List)) else [t]):
                    if isinstance(e, (ast.Subscript, ast.Attribute)) and base(e) in params:
                        res = True
    _WP[id(node)] = (res, node)
    return res


def _load(tg):
    import copy

    n = copy.copy(tg)
    n.ctx = ast.Load()
    return n


def merge_values(rets, ex=None):
    """[(cond, value)] -> one value.  conds are exhaustive under the current path condition."""
    if len(rets) == 1:
        return rets[0][1]
    vals = [v for _, v in rets]
    if all(isinstance(v, T) for v in vals):
        r = vals[-1]
        for c, v in reversed(rets[:-1]):
            r = tm.ite(c, v, r)
        return r
    if all(isinstance(v, (T, bool)) for v in vals):
        return merge_values([(c, tm.lift(v)) for c, v in rets])
    if all(v is None for v in vals):
        return None
    if all(isinstance(v, (tuple, list)) for v in vals) and len({len(v) for v in vals}) == 1:
        typ = type(vals[0])
        return typ(merge_values([(c, v[i]) for c, v in rets]) for i in range(len(vals[0])))
    if all(isinstance(v, ArrV) for v in vals):
        realv = [v for v in vals if not getattr(v, "is_empty_literal", False)]
        a0 = realv[0] if realv else vals[0]
        fns = [(c, (v.cur() if not getattr(v, "is_empty_literal", False) else (lambda idx: tm.rconst(0)))) for c, v in rets]
        dts = {v.dtype for v in (realv or vals)}
        if len(dts) != 1:
            # the dtype of the result depends on the path (e.g. a buffer that is float32 above some size): an array has ONE dtype,
            # so the alternatives cannot be folded into one array; the caller's path is split on the callee's conditions instead
            ex_ = ex
            if ex_ is None or ex_.merge_mode or ex_.trail is None:
                raise OutOfSubset(f"arrays of different dtype {sorted(dts)} on different paths of a nested call")
            for c, v in rets[:-1]:
                if ex_.decide(c):
                    return v
            return rets[-1][1]

        def fn(idx):
            r = fns[-1][1](idx)
            for c, f in reversed(fns[:-1]):
                r = tm.ite(c, f(idx), r)
            return r

        dt = a0.dtype if len(dts) == 1 else "f8"
        out = ArrV(a0.shape, fn, dt, mask=a0.mask)
        if not realv:
            out.is_empty_literal = True
        return out
    if all(isinstance(v, str) for v in vals) and len(set(vals)) == 1:
        return vals[0]
    if all(v is vals[0] for v in vals):
        return vals[0]
    raise OutOfSubset(f"cannot merge values of types {[type(v).__name__ for v in vals]}")
