"""C14  Brooks-Corey relative permeabilities are finite, within [0, k_max] and monotone.

Contract on flowproperties.relative_permeabilities(saturations, params) for record arrays of any length:
  rejects        raises ValueError exactly when a saturation record does not sum to one (1e-3), an exponent is
                 outside [1, 6], a residual or an end point outside [0, 1]
  welldefined    for admissible parameters (residuals summing to less than one) every division and every real
                 power is well defined: the result is finite
  range / zero_below_residual / monotone   0 <= k <= k_max; k == 0 for S <= S_r; non-decreasing in own saturation
and on relative_permeabilities_twophase: saturations sum to one, immobile water, Sw > S_wc rejected.
Real powers are uninterpreted in SMT with the axioms  0 <= u <= 1, n >= 1  =>  0 <= u^n <= u;  0^n = 0 (n > 0);
u <= v => u^n <= v^n (0 <= u, n > 0), instantiated at the power terms of the goal.
"""
from __future__ import annotations

from .. import backends as be
from .. import term as tm
from ..symex import ArrV, ObjV, RecArrV
from .common import *  # noqa: F403

LEVEL = "proof"
EXPLANATION = "validation paths, well-definedness, range, zero-below-residual and monotonicity are SMT obligations at symbolic record indices of a symbolic-length record array, generated from the real relative_permeabilities; the two-phase helper's columns are proved from the linspace model"
TRUSTED = ["real-power axioms: 0<=u<=1, n>=1 => 0<=u^n<=u; 0^n=0 for n>0; u<=v => u^n<=v^n for 0<=u, n>0 (textbook facts; instantiated, not proved here)",
           "pandas DataFrame(dict) / to_records / DataFrame(records) / concat(axis=1) keep the columns", "np.any: true iff some element is true"]
ASSUMPTIONS = ["admissible parameter set includes S_or + S_wc + S_gc < 1 (from the property statement)"]

RP = FP + "relative_permeabilities"
RP2 = FP + "relative_permeabilities_twophase"
NAMES = "n_o n_w n_g S_or S_wc S_gc k_ro_max k_rw_max k_rg_max".split()
PV = {k: tm.var(k) for k in NAMES}
n = tm.var("n", tm.I)
j, j2 = tm.var("j", tm.I), tm.var("j2", tm.I)
ZERO, ONE = tm.rconst(0), tm.rconst(1)
PHASES = [("kro", "So", "n_o", "S_or", "k_ro_max"), ("krw", "Sw", "n_w", "S_wc", "k_rw_max"), ("krg", "Sg", "n_g", "S_gc", "k_rg_max")]


def S(name, idx):
    return tm.app(name, [idx])


def mkargs(ctx):
    P = ctx.engine.cls(FP + "RelPermParams")

    def mk():
        sat = RecArrV({k: ArrV((n,), (lambda i, k=k: tm.app(k, i)), "f8") for k in ("So", "Sw", "Sg")})
        prm = ObjV(P)
        prm.fields = dict(PV)
        return [sat, prm], {}

    return mk


def param_ok():
    c = []
    for k in ("n_o", "n_w", "n_g"):
        c += [tm.le(ONE, PV[k]), tm.le(PV[k], tm.rconst(6))]
    for k in ("S_or", "S_wc", "S_gc", "k_ro_max", "k_rw_max", "k_rg_max"):
        c += [tm.le(ZERO, PV[k]), tm.le(PV[k], ONE)]
    return tm.land(*c)


def sum_ok(idx):
    s = tm.add(S("So", idx), S("Sw", idx), S("Sg", idx), tm.rconst(-1))
    return tm.land(tm.le(s, tm.rconst("1e-3")), tm.le(tm.neg(s), tm.rconst("1e-3")))


def inrange(idx):
    return tm.land(tm.le(tm.const(0), idx), tm.lt(idx, n))


def pow_axioms(formulas):
    """instances of the real-power axioms for the rpow terms occurring in the formulas"""
    pws = []
    for f in formulas:
        for t in tm.postorder(f):
            if t.op == "rpow" and t not in pws:
                pws.append(t)
    ax = []
    for t in pws:
        u, e = t.args
        ax.append(tm.implies(tm.land(tm.le(ZERO, u), tm.le(u, ONE), tm.le(ONE, e)), tm.land(tm.le(ZERO, t), tm.le(t, u))))
        ax.append(tm.implies(tm.land(tm.eq(u, ZERO), tm.lt(ZERO, e)), tm.eq(t, ZERO)))
    for x in pws:
        for y in pws:
            if x is not y and x.args[1] is y.args[1]:
                ax.append(tm.implies(tm.land(tm.le(ZERO, x.args[0]), tm.le(x.args[0], y.args[0]), tm.lt(ZERO, x.args[1])), tm.le(x, y)))
    return ax


def run(ctx):
    outs = ctx.engine.run_paths(ctx.engine.func(RP), mkargs(ctx), pc=[tm.ge(n, tm.const(1))])
    rets = [o for o in outs if o.kind == "return"]
    if len(rets) != 1:
        raise sx.OutOfSubset(f"relative_permeabilities: {len(rets)} returning paths")
    return outs, rets[0]


def hyps_of(o, *idx):
    h = list(o.pc) + list(o.facts)
    for q in o.qfacts:
        for i in idx:
            h.append(q(i))
    return h


LAYOUTS = (("So", "Sw", "Sg"), ("So", "Sg", "Sw"), ("Sg", "Sw", "So"))


def real_call(sats, params, layout=("So", "Sw", "Sg")):
    """sats: (So, Sw, Sg) triples; the record array's FIELD ORDER is `layout` (fields are looked up by name, so every
    order is the same input - the function's own docstring lists So, Sg, Sw)"""
    import numpy as np
    f = real(RP)
    Pc = real(FP + "RelPermParams")
    arr = np.zeros(len(sats), dtype=[(nm, "f8") for nm in layout])
    for col, nm in enumerate(("So", "Sw", "Sg")):
        arr[nm] = [r[col] for r in sats]
    return f(arr, Pc(**params))


def params_from(w, default=None):
    d = dict(n_o=2.5, n_w=2.0, n_g=1.5, S_or=0.2, S_wc=0.15, S_gc=0.05, k_ro_max=0.9, k_rw_max=0.8, k_rg_max=0.7)
    for k in NAMES:
        if isinstance(w.get(k), (int, float)):
            d[k] = float(w[k])
    return d


def build(ctx):
    obs = []
    fs = [RP]

    # ---------------- validation
    def rejects():
        outs, ret = run(ctx)
        goals = []
        for o in outs:
            h = tm.land(*hyps_of(o, j))
            if o.kind == "return":
                goals.append(tm.implies(tm.land(h, inrange(j)), tm.land(param_ok(), sum_ok(j))))
            else:
                if o.value != "ValueError":
                    return be.Verdict(be.REFUTED, "SMT", witness={}, detail=f"raises {o.value}")
                # a raising path is justified: parameters out of range, or some record does not sum to one
                anyb = [b for (b, k, f, nn) in o.heap["ghost"].get("any", [])]
                bad_rec = tm.lor(*[tm.land(inrange(k), tm.lnot(sum_ok(k))) for (b, k, f, nn) in o.heap["ghost"].get("any", [])]) if anyb else tm.FALSE
                goals.append(tm.implies(h, tm.lor(tm.lnot(param_ok()), bad_rec)))
        want = {k: PV[k] for k in NAMES}
        want.update({"So": S("So", j), "Sw": S("Sw", j), "Sg": S("Sg", j)})
        return with_models(be.prove_smt(tm.land(*goals), [], want=want), *outs)

    def rejects_replay(w):
        base = params_from({})
        cases = []
        if all(isinstance(w.get(k), (int, float)) for k in ("So", "Sw", "Sg")):
            cases.append(([(w["So"], w["Sw"], w["Sg"])], params_from(w)))
        cases += [([(0.5, 0.15, 0.15)], base), ([(0.5, 0.3, 0.2), (0.5, 0.2, 0.2)], base), ([(0.0, 0.0, 0.0)], base), ([(0.6, 0.3, 0.3)], base)]
        for key, val in (("n_o", 0.5), ("n_w", 6.5), ("n_g", 0.9), ("S_or", -0.1), ("S_wc", 1.1), ("S_gc", -0.01), ("k_ro_max", 1.2), ("k_rw_max", -0.1), ("k_rg_max", 1.01)):
            cases.append(([(0.5, 0.3, 0.2)], dict(base, **{key: val})))
        cases.append(([(0.5, 0.3, 0.2)], base))
        for sats, prm in cases:
            ok_p = all(1 <= prm[k] <= 6 for k in ("n_o", "n_w", "n_g")) and all(0 <= prm[k] <= 1 for k in NAMES[3:])
            ok_s = all(abs(sum(r) - 1) <= 1e-3 for r in sats)
            try:
                real_call(sats, prm)
                got = "returns"
            except ValueError:
                got = "ValueError"
            except Exception as e:  # noqa: BLE001
                got = type(e).__name__
            if (got == "returns") != (ok_p and ok_s) or (got not in ("returns", "ValueError")):
                return {"reproduced": True, "input": {"saturations": sats, "params": prm}, "observed": got, "required": "returns" if (ok_p and ok_s) else "ValueError"}
        return {"reproduced": False}

    obs.append(Obligation("relperm.rejects", "relative_permeabilities raises ValueError iff some record does not sum to one (1e-3) or an exponent / residual / end point is outside its range", rejects, fs, "SMT", rejects_replay))

    # ---------------- numeric part on the returning path
    admissible = tm.lt(tm.add(PV["S_or"], PV["S_wc"], PV["S_gc"]), ONE)

    def numeric(kind):
        def go():
            outs, ret = run(ctx)
            res = ret.value
            if not isinstance(res, RecArrV) or set(res.fields) != {"kro", "krw", "krg"}:
                return be.Verdict(be.REFUTED, "SMT", witness={}, detail="result is not a record array with kro, krw, krg")
            vals = {ph[0]: (res.fields[ph[0]].get(j), res.fields[ph[0]].get(j2)) for ph in PHASES}
            h = hyps_of(ret, j, j2) + [admissible, inrange(j), inrange(j2), param_ok()]
            goals = []
            if kind == "welldefined":
                for cond, what, pc in ret.wd:
                    goals.append(tm.implies(tm.land(*pc), cond))
                if not goals:
                    return be.Verdict(be.UNKNOWN, "SMT", detail="no well-definedness condition was generated: the obligation would be vacuous (undecided, never a violation)")
            for name, sat, ne, sr, km in PHASES:
                k1, k2 = vals[name]
                if kind == "range":
                    goals.append(tm.land(tm.le(ZERO, k1), tm.le(k1, PV[km])))
                elif kind == "zero":
                    goals.append(tm.implies(tm.le(S(sat, j), PV[sr]), tm.eq(k1, ZERO)))
                elif kind == "monotone":
                    goals.append(tm.implies(tm.le(S(sat, j), S(sat, j2)), tm.le(k1, k2)))
            goal = tm.land(*goals)
            ax = pow_axioms([goal] + h)
            want = {k: PV[k] for k in NAMES}
            want.update({"So": S("So", j), "Sw": S("Sw", j), "Sg": S("Sg", j), "So2": S("So", j2), "Sw2": S("Sw", j2), "Sg2": S("Sg", j2)})
            return with_models(be.prove_smt(goal, h + ax, want=want, timeout_ms=20000), ret)
        return go

    def numeric_replay(w):
        import numpy as np
        prm = params_from(w)
        if prm["S_or"] + prm["S_wc"] + prm["S_gc"] >= 1 or not all(1 <= prm[k] <= 6 for k in NAMES[:3]) or not all(0 <= prm[k] <= 1 for k in NAMES[3:]):
            prm = params_from({})
        plist = [prm, params_from({}), dict(params_from({}), n_o=2.0, n_w=4.0, n_g=2.0, S_or=0.25, S_wc=0.1, S_gc=0.15),
                 dict(params_from({}), n_o=6.0, n_w=6.0, n_g=6.0, S_or=0.0, S_wc=0.0, S_gc=0.0), dict(params_from({}), k_ro_max=1e-250, k_rw_max=0.0, k_rg_max=1.0)]
        for prm, layout in [(p_, l_) for l_ in LAYOUTS for p_ in plist]:
            sats = []
            if all(isinstance(w.get(k), (int, float)) for k in ("So", "Sw", "Sg")) and abs(w["So"] + w["Sw"] + w["Sg"] - 1) <= 1e-3:
                sats.append((w["So"], w["Sw"], w["Sg"]))
            for so in np.linspace(0, 1, 21):
                for sw in np.linspace(0, 1 - so, 6):
                    sats.append((float(so), float(sw), float(1 - so - sw)))
            # trace saturations (admissible: the triple sums to one to rounding) whose powers underflow, and saturations a hair above a residual
            for tiny in (1e-60, 1e-200, 5e-324):
                sats += [(1.0 - 0.3, 0.3, tiny), (tiny, 0.4, 0.6), (0.5, tiny, 0.5), (prm["S_or"] + tiny, 1 - prm["S_or"] - prm["S_gc"] - 0.1, prm["S_gc"] + 0.1)]
            try:
                k = real_call(sats, prm, layout)
            except Exception as e:  # noqa: BLE001
                return {"reproduced": True, "input": {"params": prm, "saturations": sats[:3], "record_fields": list(layout)}, "observed": f"{type(e).__name__}: {e}", "required": "finite permeabilities"}
            sa = np.array(sats)
            for (name, col, ne, sr, km) in [(p_[0], i, p_[2], p_[3], p_[4]) for i, p_ in zip((0, 1, 2), PHASES)]:
                kk = np.asarray(k[name], dtype=float)
                s_ = sa[:, col]
                bad = ~np.isfinite(kk) | (kk < 0) | (kk > prm[km] + 1e-12) | ((s_ <= prm[sr]) & (kk != 0))
                order = np.argsort(s_, kind="stable")
                mono_bad = np.diff(kk[order]) < -1e-12
                if bad.any() or mono_bad.any():
                    i = int(np.argmax(bad)) if bad.any() else int(order[int(np.argmax(mono_bad)) + 1])
                    return {"reproduced": True, "input": {"params": prm, "saturation": dict(zip(("So", "Sw", "Sg"), sats[i])), "record_fields": list(layout)}, "observed": {name: float(kk[i])},
                            "required": f"finite, within [0, {prm[km]}], 0 at or below the residual {prm[sr]}, non-decreasing in {PHASES[col][1]}"}
        return {"reproduced": False}

    obs.append(Obligation("relperm.welldefined", "admissible parameters: every division has a non-zero denominator and every real power a non-negative base (result finite)", numeric("welldefined"), fs, "SMT", numeric_replay))
    obs.append(Obligation("relperm.range", "0 <= k_r <= its declared maximum for each phase, at every record", numeric("range"), fs, "SMT+axioms", numeric_replay))
    obs.append(Obligation("relperm.zero_below_residual", "k_r == 0 exactly when the phase saturation is at or below its residual", numeric("zero"), fs, "SMT+axioms", numeric_replay))
    obs.append(Obligation("relperm.monotone", "k_r is non-decreasing in the phase's own saturation (two symbolic records)", numeric("monotone"), fs, "SMT+axioms", numeric_replay))

    # ---------------- two-phase helper
    Sw = tm.var("Sw_arg")

    def twophase_paths():
        P = ctx.engine.cls(FP + "RelPermParams")

        def mk():
            prm = ObjV(P)
            prm.fields = dict(PV)
            return [prm, Sw], {}

        return ctx.engine.run_paths(ctx.engine.func(RP2), mk)

    def twophase():
        outs = twophase_paths()
        goals = []
        hy = [param_ok(), admissible, tm.le(ZERO, Sw), tm.le(Sw, ONE)]
        nret = 0
        for o in outs:
            h = tm.land(*(list(o.pc) + list(o.facts) + [q(j) for q in o.qfacts]))
            if o.kind == "raise":
                if o.value != "ValueError":
                    return be.Verdict(be.REFUTED, "SMT", witness={}, detail=f"raises {o.value}")
                continue
            nret += 1
            tb = o.value
            cols = getattr(tb, "cols", {})
            if not {"So", "Sw", "Sg", "kro", "krw", "krg"} <= set(cols):
                return be.Verdict(be.REFUTED, "SMT", witness={}, detail=f"returned table lacks columns: {sorted(cols)}")
            nn = cols["So"].shape[0]
            inr = tm.land(tm.le(tm.const(0), j), tm.lt(j, nn))
            goals.append(tm.implies(tm.land(h, inr), tm.land(
                tm.eq(tm.add(cols["So"].get(j), cols["Sw"].get(j), cols["Sg"].get(j)), ONE),
                tm.eq(cols["Sw"].get(j), Sw), tm.le(Sw, PV["S_wc"]), tm.eq(cols["krw"].get(j), ZERO), tm.ge(nn, tm.const(2)))))
        if nret == 0:
            return be.Verdict(be.REFUTED, "SMT", witness={}, detail="no returning path")
        # rejection: Sw > S_wc => every returning path is infeasible
        for o in outs:
            if o.kind == "return":
                goals.append(tm.implies(tm.land(*o.pc), tm.le(Sw, PV["S_wc"])))
        goal = tm.land(*goals)
        return with_models(be.prove_smt(goal, hy + pow_axioms([goal]), want={"Sw": Sw, **{k: PV[k] for k in NAMES}}, timeout_ms=20000), *outs)

    def twophase_replay(w):
        import numpy as np
        f = real(RP2)
        Pc = real(FP + "RelPermParams")
        for prm, sw in ((params_from({}), 0.15), (params_from({}), 0.1), (dict(params_from({}), S_wc=0.3, S_or=0.0, S_gc=0.0), 0.3), (params_from({}), 0.0)):
            try:
                df = f(Pc(**prm), sw)
            except Exception as e:  # noqa: BLE001
                return {"reproduced": True, "input": {"params": prm, "Sw": sw}, "observed": f"{type(e).__name__}: {e}", "required": "a table"}
            tot = np.asarray(df["So"] + df["Sw"] + df["Sg"], dtype=float)
            if not (np.allclose(tot, 1, atol=1e-12) and np.all(np.asarray(df["krw"]) == 0) and np.all(np.isfinite(np.asarray(df[["kro", "krw", "krg"]], dtype=float)))):
                return {"reproduced": True, "input": {"params": prm, "Sw": sw}, "observed": {"sum": tot[:3].tolist(), "krw": np.asarray(df["krw"])[:3].tolist()}, "required": "saturations summing to one, krw == 0, finite"}
        try:
            f(Pc(**params_from({})), 0.2)
            return {"reproduced": True, "input": {"params": params_from({}), "Sw": 0.2}, "observed": "returns", "required": "ValueError (Sw above S_wc)"}
        except ValueError:
            pass
        return {"reproduced": False}

    obs.append(Obligation("twophase.table", "relative_permeabilities_twophase: So + Sw + Sg == 1 and Sw column == Sw at every row, krw == 0 (immobile water), and Sw > S_wc is rejected with ValueError", twophase,
                          [RP2, RP], "SMT", twophase_replay))

    def canary():
        outs, ret = run(ctx)
        k1 = ret.value.fields["kro"].get(j)
        h = hyps_of(ret, j) + [admissible, inrange(j), param_ok()]
        goal = tm.le(k1, tm.mul(tm.rconst("0.5"), PV["k_ro_max"]))
        return be.prove_smt(goal, h + pow_axioms([goal] + h))

    obs.append(Obligation("canary.smt", "CANARY (must be refuted): k_ro <= 0.5 k_ro_max at every record", canary, fs, "SMT", expect=be.REFUTED))
    if ctx.tier == "thorough":
        obs.append(lean_obligation(ctx, ['pyvc_rpow_unit', 'pyvc_zero_rpow', 'pyvc_rpow_mono']))
    return obs
