"""Back ends that discharge obligations: CAS (sympy), SMT (z3, cvc5 CLI as second opinion), INT
(outward-rounded interval branch-and-bound).  Verdicts: PROVED / REFUTED(witness) / UNKNOWN."""
from __future__ import annotations

import math
import os
import random
import subprocess
import time
from fractions import Fraction

from . import term as tm
from .term import T

PROVED, REFUTED, UNKNOWN = "PROVED", "REFUTED", "UNKNOWN"
import os as _os


def thorough():
    return _os.environ.get("PYVC_TIER", "quick") == "thorough"


class Verdict:
    def __init__(self, status, backend, witness=None, detail="", seconds=0.0, stats=None):
        self.status = status
        self.backend = backend
        self.witness = witness  # dict name -> float/int (a concrete point), or None
        self.detail = detail
        self.seconds = seconds
        self.stats = stats or {}

    def __repr__(self):
        return f"<{self.status} {self.backend} {self.seconds:.3f}s {self.detail[:80]}>"


# =============================================================================================
# CAS


def to_sympy(t, positive=()):
    import sympy as sp

    pos = {v.args[0] if isinstance(v, T) else v for v in positive}
    memo = {}
    for n in tm.postorder(t):
        op = n.op
        a = [memo[c] for c in tm.children(n)]
        if op == "const":
            f = tm.cval(n)
            v = sp.Rational(f.numerator, f.denominator)
        elif op == "bool":
            v = sp.true if n.args[0] else sp.false
        elif op == "inf":
            v = sp.oo
        elif op == "var":
            name = n.args[0]
            if n.sort == tm.I:
                v = sp.Symbol(name, integer=True)
            elif name in pos:
                v = sp.Symbol(name, positive=True)
            else:
                v = sp.Symbol(name, real=True)
        elif op == "toreal":
            v = a[0]
        elif op == "+":
            v = sp.Add(*a)
        elif op == "*":
            v = sp.Mul(*a)
        elif op == "neg":
            v = -a[0]
        elif op == "/":
            v = a[0] / a[1]
        elif op in ("ipow", "rpow"):
            v = sp.Pow(a[0], a[1])
        elif op == "exp":
            v = sp.exp(a[0])
        elif op == "log":
            v = sp.log(a[0])
        elif op == "sqrt":
            v = sp.sqrt(a[0])
        elif op == "abs":
            v = sp.Abs(a[0])
        elif op == "min":
            v = sp.Min(*a)
        elif op == "max":
            v = sp.Max(*a)
        elif op == "<":
            v = sp.Lt(a[0], a[1])
        elif op == "<=":
            v = sp.Le(a[0], a[1])
        elif op == "==":
            v = sp.Eq(a[0], a[1])
        elif op == "and":
            v = sp.And(*a)
        elif op == "or":
            v = sp.Or(*a)
        elif op == "not":
            v = sp.Not(a[0])
        elif op == "ite":
            v = sp.Piecewise((a[1], a[0]), (a[2], True))
        elif op == "app":
            # all opaque values are positive physical quantities or handled via hypotheses; keep real
            v = sp.Function(n.args[0], real=True)(*a)
        elif op == "trunc":
            v = sp.sign(a[0]) * sp.floor(sp.Abs(a[0]))
        else:
            raise NotImplementedError(f"to_sympy {op}")
        memo[n] = v
    return memo[t]


def cas_normal_form(e):
    import sympy as sp

    e = sp.together(e)
    e = sp.expand_log(e, force=True)
    e = sp.powdenest(e, force=True)
    e = sp.expand_power_base(e, force=True)
    e = sp.expand(e)
    e = sp.powsimp(e, force=True)
    e = sp.expand(e)
    return e


class _StepTimeout(Exception):
    pass


def _limited(seconds, fn, *args):
    """fn(*args) under a wall-clock limit (SIGALRM; main thread of the worker process) - sympy has no budget of its own"""
    import signal

    def handler(signum, frame):
        raise _StepTimeout()

    try:
        old = signal.signal(signal.SIGALRM, handler)
    except ValueError:  # not in the main thread
        return fn(*args)
    signal.setitimer(signal.ITIMER_REAL, seconds)
    try:
        return fn(*args)
    finally:
        signal.setitimer(signal.ITIMER_REAL, 0)
        signal.signal(signal.SIGALRM, old)


def cas_is_zero(d, budget_s=None):
    """True iff a normal form of d is identically 0.  Each normal-form attempt runs under a wall-clock budget
    (20 s quick, 120 s thorough); an attempt that runs out is skipped (never a verdict)."""
    import sympy as sp

    if d == 0:
        return True
    if budget_s is None:
        budget_s = 120.0 if thorough() else 20.0
    for step in (
        lambda e: sp.expand(e),
        lambda e: sp.expand(sp.numer(sp.together(e))),
        lambda e: sp.expand(sp.numer(sp.together(sp.expand_power_base(sp.powdenest(sp.expand_log(e, force=True), force=True), force=True)))),
        cas_normal_form,
        lambda e: sp.expand(sp.powsimp(sp.expand(sp.numer(sp.together(cas_normal_form(e)))), force=True)),
        lambda e: sp.simplify(cas_normal_form(e)),
    ):
        try:
            r = _limited(budget_s, step, d)
        except _StepTimeout:
            continue
        except Exception:  # sympy internal failure: not a verdict
            continue
        if r == 0:
            return True
    return False


def sample_point(box, rng, ints=()):
    """random point of a box {name: (lo, hi)}; rational with short decimal expansion"""
    pt = {}
    for k, (lo, hi) in box.items():
        if k in ints:
            pt[k] = rng.randint(int(math.ceil(lo)), int(math.floor(hi)))
        else:
            u = rng.random()
            x = lo + (hi - lo) * u
            # 6 significant digits so that the point is exactly representable as a short decimal
            pt[k] = float(f"{x:.6g}")
            if not (lo <= pt[k] <= hi):
                pt[k] = x
    return pt


def boundary_points(box, rng, ints=(), cap=48):
    """corners of the box (all of them up to `cap`, otherwise a seeded selection) and points with one coordinate on a
    bound and the others random: members of the domain where clamps, guards and special cases switch"""
    names = list(box)
    n = len(names)
    pts = []
    if n == 0:
        return pts
    if 2 ** n <= cap:
        masks = range(2 ** n)
    else:
        masks = [rng.getrandbits(n) for _ in range(cap)]
    for m in masks:
        pts.append({k: (box[k][(m >> i) & 1]) for i, k in enumerate(names)})
    for k in names:
        for side in (0, 1):
            pt = sample_point(box, rng, ints)
            pt[k] = box[k][side]
            pts.append(pt)
    for pt in pts:
        for k in ints:
            if k in pt:
                pt[k] = int(math.ceil(pt[k])) if pt[k] == box[k][0] else int(math.floor(pt[k]))
    return pts


def guard_points(t, box, rng, ints=(), funcs=None, budget=400, per_guard=3):
    """points of the box on BOTH sides of every guard occurring in t (the two arguments of a min / max, the condition of an
    ite): a clamp or a special case that bites only in a small interior region is invisible to uniform sampling of the
    value, but its guard changes sign there.  Float evaluation only; used to seed the exact numeric pass."""
    guards = []
    for nd in tm.postorder(t):
        if nd.op in ("max", "min") and len(nd.args) == 2:
            guards.append(tm.sub(tm.toreal(nd.args[0]), tm.toreal(nd.args[1])))
        elif nd.op == "ite":
            c = nd.args[0]
            c = c.args[0] if c.op == "not" else c
            if c.op in ("<", "<=", "==") and len(c.args) == 2:
                guards.append(tm.sub(tm.toreal(c.args[0]), tm.toreal(c.args[1])))
    guards = guards[:6]
    if not guards:
        return []
    pts = [sample_point(box, rng, ints) for _ in range(budget)]
    out = []
    for g in guards:
        pos, neg = [], []
        for pt in pts:
            try:
                v = tm.feval(g, pt, funcs)
            except Exception:  # noqa: BLE001
                continue
            (pos if v > 0 else neg).append(pt)
        # only the rarer side is interesting (the common side is found by plain sampling anyway)
        rare = pos if len(pos) < len(neg) else neg
        out += rare[:per_guard]
    return out


def mp_eval(t, point, funcs=None, dps=50):
    import mpmath

    mpmath.mp.dps = dps
    env = {}
    for k, v in point.items():
        if isinstance(v, bool):
            env[k] = v
        elif isinstance(v, int):
            env[k] = mpmath.mpf(v)
        else:
            fr = Fraction(repr(float(v)))
            env[k] = mpmath.mpf(fr.numerator) / mpmath.mpf(fr.denominator)
    return tm.feval(t, env, funcs=funcs, mp=mpmath)


def default_app_interp(t, seed=0):
    """Deterministic smooth positive interpretations for uninterpreted functions, used only to look
    for separating points of a CAS equality (any interpretation that separates the sides refutes an
    identity that must hold for all interpretations)."""
    import mpmath

    funcs = {}
    for a in tm.apps(t):
        name = a.args[0]
        if name in funcs:
            continue
        h = (hash((name, seed)) % 9973) / 9973.0

        def f(*xs, _h=h):
            s = mpmath.mpf(1) + mpmath.mpf(_h)
            for i, x in enumerate(xs):
                s = s + mpmath.mpf(x) * (mpmath.mpf("0.37") + i * mpmath.mpf("0.11") + _h) / 1000
                s = s + mpmath.sin(mpmath.mpf(x) * (i + 1 + _h)) / 7
            return s + 2

        funcs[name] = f
    return funcs


CONSTRUCTION_BOX = {"nx_at_construction": (3, 400), "pf_at_construction": (100.0, 5000.0), "pi_at_construction": (5000.0, 9000.0), "T_at_construction": (80.0, 350.0),
                    "api_at_construction": (12.0, 55.0), "gg_at_construction": (0.56, 1.3), "R_at_construction": (20.0, 2500.0), "S_at_construction": (0.0, 25.0)}


def prove_equal_cas(lhs, rhs, box, hyp=None, positive=None, seed=0, npoints=12, rel_tol="1e-30", ints=()):
    """lhs == rhs for every point of `box` (dict var-name -> (lo, hi)) [that satisfies hyp].
    PROVED iff sympy normal form of the difference is 0 (and the numeric double-check agrees);
    REFUTED iff a point of the box separates the two sides at 50 digits; else UNKNOWN."""
    import mpmath

    t0 = time.time()
    rng = random.Random(seed)
    if thorough():
        npoints = npoints * 4
    # symbols for the values an object was CONSTRUCTED with (contracts reassign the public fields afterwards): a result
    # that still mentions one is stale state; they get a range of their own so that the numeric pass can separate
    extra = {v.args[0]: v.sort for t_ in (lhs, rhs) for v in tm.free_vars(t_) if v.args[0].endswith("_at_construction") and v.args[0] not in box}
    if extra:
        box = dict(box)
        for nm, srt in extra.items():
            box[nm] = CONSTRUCTION_BOX.get(nm, (0.5, 2.0))
        ints = tuple(ints) + tuple(nm for nm, srt in extra.items() if srt == tm.I)
    d = tm.sub(lhs, rhs)
    # numeric pass first: cheap, and gives the witness
    funcs = default_app_interp(tm.add(lhs, rhs), seed)
    tol = mpmath.mpf(rel_tol)
    evaluated = 0
    tries = 0
    edge = boundary_points(box, random.Random(seed + 1), ints) + guard_points(tm.sub(lhs, rhs), box, random.Random(seed + 2), ints, funcs)
    while (evaluated < npoints and tries < npoints * 40) or edge:
        if edge:
            pt = edge.pop()
            is_edge = True
        else:
            tries += 1
            pt = sample_point(box, rng, ints)
            is_edge = False
        try:
            if hyp is not None and not mp_eval(hyp, pt, funcs):
                continue
            a = mp_eval(lhs, pt, funcs)
            b = mp_eval(rhs, pt, funcs)
        except (tm.EvalError, ZeroDivisionError, ValueError, OverflowError):
            continue
        if not is_edge:
            evaluated += 1
        scale = max(abs(a), abs(b), mpmath.mpf(1) / 10**20)
        if abs(a - b) > tol * scale:
            # cancellation noise or a genuine difference?  Re-evaluate with twice the digits: noise shrinks with the
            # precision, a genuine difference does not.
            try:
                a2, b2 = mp_eval(lhs, pt, funcs, dps=110), mp_eval(rhs, pt, funcs, dps=110)
            except tm.EvalError:
                a2, b2 = a, b
            mpmath.mp.dps = 50
            if abs(a2 - b2) <= mpmath.mpf(10) ** (-70) * max(abs(a2), abs(b2), mpmath.mpf(1) / 10**20) or abs(a2 - b2) < abs(a - b) * mpmath.mpf(10) ** (-20):
                continue
            return Verdict(
                REFUTED, "CAS", witness=pt,
                detail=f"sides differ at the witness: lhs={mpmath.nstr(a, 17)} rhs={mpmath.nstr(b, 17)}",
                seconds=time.time() - t0, stats={"points": evaluated},
            )
    if evaluated == 0:
        return Verdict(UNKNOWN, "CAS", detail="no evaluable point in the box", seconds=time.time() - t0)
    pos = positive if positive is not None else [k for k, (lo, _) in box.items() if lo > 0]
    try:
        # first attempt: abstract every transcendental sub-term (exp / log / real power / sqrt / opaque
        # application) by a fresh symbol; an identity of the abstraction holds for every value of the
        # symbols, in particular for the functions (sound, incomplete)
        amap = {}
        for n in tm.postorder(d):
            if n.op in ("exp", "log", "sqrt", "app") or (n.op == "rpow" and not tm.is_const(n.args[1])):
                amap[n] = tm.var(f"_abs{len(amap)}", tm.R)
        ok = False
        if amap:
            # innermost-first substitution keeps outer transcendental terms abstract as wholes
            da = tm.subst(d, amap)
            try:
                ok = cas_is_zero(to_sympy(da, positive=list(pos) + [v.args[0] for k, v in amap.items() if k.op in ("exp", "sqrt")]))
            except NotImplementedError:
                ok = False
        if not ok:
            sd = to_sympy(d, positive=pos)
            ok = cas_is_zero(sd)
    except NotImplementedError as e:
        return Verdict(UNKNOWN, "CAS", detail=str(e), seconds=time.time() - t0)
    if ok:
        return Verdict(PROVED, "CAS", detail=f"normal form 0; {evaluated} points agree to {rel_tol}",
                       seconds=time.time() - t0, stats={"points": evaluated})
    return Verdict(UNKNOWN, "CAS", detail="normal form not 0 and no separating point found",
                   seconds=time.time() - t0, stats={"points": evaluated})


# =============================================================================================
# SMT


class Z3Ctx:
    """translation of terms to z3 with uninterpreted exp/log/rpow/sqrt (+ optional axioms)"""

    def __init__(self):
        import z3

        self.z3 = z3
        self.memo = {}
        self.funcs = {}
        self.side = []  # side constraints (definitions of sqrt, abs ...)
        self.vars = {}

    def fn(self, name, arity, sort=tm.R):
        z3 = self.z3
        key = (name, arity, sort)
        f = self.funcs.get(key)
        if f is None:
            rs = {tm.R: z3.RealSort(), tm.I: z3.IntSort(), tm.B: z3.BoolSort()}[sort]
            f = z3.Function(name, *([z3.RealSort()] * arity), rs)
            self.funcs[key] = f
        return f

    def tr(self, t):
        z3 = self.z3
        memo = self.memo
        for n in tm.postorder(t):
            if n in memo:
                continue
            op = n.op
            a = [memo[c] for c in tm.children(n)]
            if op == "const":
                f = tm.cval(n)
                v = z3.IntVal(f.numerator) if n.sort == tm.I else z3.RealVal(f"{f.numerator}/{f.denominator}")
            elif op == "bool":
                v = z3.BoolVal(n.args[0])
            elif op == "inf":
                raise NotImplementedError("arithmetic on INF")
            elif op == "var":
                name = n.args[0]
                v = {tm.R: z3.Real, tm.I: z3.Int, tm.B: z3.Bool}[n.sort](name)
                self.vars[name] = v
            elif op == "toreal":
                v = z3.ToReal(a[0]) if n.args[0].sort == tm.I else a[0]
            elif op == "+":
                v = z3.Sum(*a) if len(a) > 1 else a[0]
            elif op == "*":
                v = a[0]
                for y in a[1:]:
                    v = v * y
            elif op == "neg":
                v = -a[0]
            elif op == "/":
                v = a[0] / a[1]
            elif op == "floordiv":
                if n.sort == tm.I:
                    v = a[0] / a[1]  # z3 int division is floor for positive divisor
                else:
                    v = z3.ToReal(z3.ToInt(a[0] / a[1]))
            elif op == "mod":
                if n.sort != tm.I:
                    raise NotImplementedError("real mod")
                v = a[0] % a[1]
            elif op == "ipow":
                k = int(tm.cval(n.args[1]))
                base = a[0]
                if abs(k) > 12:
                    v = self.fn("rpow", 2)(z3.ToReal(base) if n.args[0].sort == tm.I else base, z3.RealVal(k))
                else:
                    v = base
                    for _ in range(abs(k) - 1):
                        v = v * base
                    if k < 0:
                        v = 1 / (z3.ToReal(v) if n.args[0].sort == tm.I else v)
            elif op == "rpow":
                v = self.fn("rpow", 2)(a[0], a[1])
            elif op in ("exp", "log"):
                v = self.fn(op, 1)(a[0])
            elif op == "sqrt":
                v = self.fn("sqrt", 1)(a[0])
                self.side.append(z3.Implies(a[0] >= 0, z3.And(v >= 0, v * v == a[0])))
            elif op == "abs":
                v = z3.If(a[0] >= 0, a[0], -a[0])
            elif op == "trunc":
                v = z3.If(a[0] >= 0, z3.ToInt(a[0]), -z3.ToInt(-a[0]))
            elif op == "min":
                v = z3.If(a[0] <= a[1], a[0], a[1])
            elif op == "max":
                v = z3.If(a[0] >= a[1], a[0], a[1])
            elif op == "<":
                v = a[0] < a[1]
            elif op == "<=":
                v = a[0] <= a[1]
            elif op == "==":
                v = a[0] == a[1]
            elif op == "and":
                v = z3.And(*a)
            elif op == "or":
                v = z3.Or(*a)
            elif op == "not":
                v = z3.Not(a[0])
            elif op == "iff":
                v = a[0] == a[1]
            elif op == "ite":
                v = z3.If(a[0], a[1], a[2])
            elif op == "app":
                kids = tm.children(n)
                args = [z3.ToReal(x) if k.sort == tm.I else x for x, k in zip(a, kids)]
                if not args:
                    v = {tm.R: z3.Real, tm.I: z3.Int, tm.B: z3.Bool}[n.sort](n.args[0])
                else:
                    v = self.fn(n.args[0], len(args), n.sort)(*args)
            else:
                raise NotImplementedError(f"to_z3 {op}")
            memo[n] = v
        return memo[t]


def _z3_value(z3, m, v):
    r = m.eval(v, model_completion=True)
    try:
        if z3.is_int_value(r):
            return r.as_long()
        if z3.is_rational_value(r):
            return float(Fraction(r.numerator_as_long(), r.denominator_as_long()))
        if z3.is_algebraic_value(r):
            return float(r.approx(20).as_fraction())
        if z3.is_true(r):
            return True
        if z3.is_false(r):
            return False
    except Exception:
        pass
    return str(r)


def _abstract_apps(formulas):
    """every uninterpreted application (array element, library result, opaque callee) replaced by a fresh variable of
    its sort, identical applications by the same variable: a weakening (congruence is dropped), so a proof of the
    abstraction is a proof of the original; pure NRA/LIA is far more stable for z3 than its combination with UF"""
    amap = {}
    for f in formulas:
        for nd in tm.postorder(f):
            if nd.op == "app" and len(nd.args) > 1 and nd not in amap:
                amap[nd] = None
    # innermost applications first so that nested applications are abstracted as wholes of their abstracted arguments
    out = {}
    for nd in sorted(amap, key=tm.size):
        out[nd] = tm.var(f"_a{len(out)}", nd.sort)
    return [tm.subst(f, out) for f in formulas]


def prove_smt(goal, hyps=(), timeout_ms=10000, extra_z3=None, want=None, second_opinion=True, try_abstract=True):
    if try_abstract and extra_z3 is None:
        fs = _abstract_apps([goal] + list(hyps))
        if fs[0] is not goal or any(a is not b for a, b in zip(fs[1:], hyps)):
            v = prove_smt(fs[0], fs[1:], timeout_ms=min(3000, max(1000, timeout_ms // 3)), want=None, second_opinion=False, try_abstract=False)
            if v.status == PROVED:
                v.detail = (v.detail + " " if v.detail else "") + "(applications abstracted)"
                return v
    """hyps |= goal ?   UNSAT of hyps ∧ ¬goal -> PROVED; SAT -> REFUTED with the model (values of all
    variables and of the terms in `want` {label: term}); unknown -> second solver -> UNKNOWN."""
    import z3

    t0 = time.time()
    ctx = Z3Ctx()
    try:
        g = ctx.tr(goal)
        hs = [ctx.tr(h) for h in hyps]
        wanted = {k: ctx.tr(v) for k, v in (want or {}).items()}
    except NotImplementedError as e:
        return Verdict(UNKNOWN, "SMT", detail=str(e), seconds=time.time() - t0)
    s = z3.Solver()
    import shutil as _sh
    # with the command-line z3 available as a second opinion (different strategy, full budget), the incremental
    # in-process attempt is capped: what it cannot do in 8 s it rarely does in 60
    s.set("timeout", min(timeout_ms, 8000) if (second_opinion and _sh.which("z3-new")) else timeout_ms)
    for h in hs:
        s.add(h)
    for c in ctx.side:
        s.add(c)
    if extra_z3:
        for c in extra_z3(ctx):
            s.add(c)
    s.add(z3.Not(g))
    r = s.check()
    dt = time.time() - t0
    if r == z3.unsat:
        v = Verdict(PROVED, "SMT:z3-" + z3.get_version_string(), seconds=dt)
        if thorough():
            smt2 = s.to_smt2()
            agree = []
            for cmd in (["/usr/bin/z3", "-in", "-T:60"], ["/usr/bin/cvc5", "--lang=smt2", "--tlimit=60000", "-"]):
                try:
                    p = subprocess.run(cmd, input=smt2, capture_output=True, text=True, timeout=80)
                    out = p.stdout.strip().splitlines()[0] if p.stdout.strip() else "no-answer"
                except Exception as e:  # noqa: BLE001
                    out = "no-answer"
                if out == "sat":
                    return Verdict("ERROR", "SMT", detail=f"solver disagreement: z3 {z3.get_version_string()} says unsat, {cmd[0]} says sat", seconds=time.time() - t0)
                agree.append(f"{cmd[0].split('/')[-1]}:{out}")
            v.detail = "second opinions: " + ", ".join(agree)
            v.stats = {"second_opinions": agree}
            v.seconds = time.time() - t0
        return v
    if r == z3.sat:
        m = s.model()
        wit = {name: _z3_value(z3, m, v) for name, v in ctx.vars.items()}
        for k, v in wanted.items():
            wit[k] = _z3_value(z3, m, v)
        return Verdict(REFUTED, "SMT:z3-" + z3.get_version_string(), witness=wit, detail="model of hyps ∧ ¬goal", seconds=dt)
    detail = "z3: " + s.reason_unknown()
    if os.environ.get("PYVC_DUMP_SMT"):
        os.makedirs(os.environ["PYVC_DUMP_SMT"], exist_ok=True)
        open(os.path.join(os.environ["PYVC_DUMP_SMT"], f"unknown_{os.getpid()}_{int(time.time() * 1000) % 100000}.smt2"), "w").write(s.to_smt2())
    if second_opinion:
        smt2 = s.to_smt2()
        # the same z3 through its command line first: a non-incremental check-sat picks the nlsat-based strategy for
        # non-linear real arithmetic, which the incremental solver object used above does not
        import shutil
        z3cli = shutil.which("z3-new")
        for cmd in ([[z3cli, "-in", f"-T:{max(timeout_ms, 20000) // 1000}"]] if z3cli else []) + [["/usr/bin/cvc5", "--lang=smt2", f"--tlimit={max(timeout_ms, 20000)}"], ["/usr/bin/z3", "-in", f"-T:{max(timeout_ms, 20000) // 1000}"]]:
            try:
                p = subprocess.run(cmd if "z3" in os.path.basename(cmd[0]) else cmd + ["-"], input=smt2, capture_output=True, text=True, timeout=max(timeout_ms, 20000) / 1000 + 10)
                out = p.stdout.strip().splitlines()[0] if p.stdout.strip() else ""
            except Exception as e:  # noqa: BLE001
                out = f"error {e}"
            if out == "unsat":
                return Verdict(PROVED, "SMT:" + cmd[0], detail=detail + "; second solver unsat", seconds=time.time() - t0)
            detail += f"; {cmd[0]}: {out}"
    return Verdict(UNKNOWN, "SMT", detail=detail, seconds=time.time() - t0)


def check_sat(formulas, timeout_ms=10000):
    """satisfiability of a conjunction (used for precondition reachability / vacuity guards)"""
    import z3

    ctx = Z3Ctx()
    s = z3.Solver()
    s.set("timeout", timeout_ms)
    for f in formulas:
        s.add(ctx.tr(f))
    for c in ctx.side:
        s.add(c)
    r = s.check()
    if r == z3.sat:
        m = s.model()
        return True, {name: _z3_value(z3, m, v) for name, v in ctx.vars.items()}
    if r == z3.unsat:
        return False, None
    return None, None


# =============================================================================================
# INT: outward-rounded interval arithmetic + branch and bound

_nx = math.nextafter
_INF = math.inf


def _dn(x):
    return _nx(x, -_INF)


def _up(x):
    return _nx(x, _INF)


class Iv:
    __slots__ = ("lo", "hi")

    def __init__(self, lo, hi=None):
        self.lo = lo
        self.hi = lo if hi is None else hi

    def __repr__(self):
        return f"[{self.lo:.17g}, {self.hi:.17g}]"

    @staticmethod
    def of_fraction(f):
        x = f.numerator / f.denominator
        if Fraction(x) == f:
            return Iv(x, x)
        return Iv(_dn(x), _up(x))

    def width(self):
        return self.hi - self.lo


class IvUndefined(Exception):
    """the enclosure leaves the domain of an operation (log of an interval touching 0, …)"""


def iv_add(a, b):
    return Iv(_dn(a.lo + b.lo), _up(a.hi + b.hi))


def iv_neg(a):
    return Iv(-a.hi, -a.lo)


def iv_mul(a, b):
    ps = (a.lo * b.lo, a.lo * b.hi, a.hi * b.lo, a.hi * b.hi)
    ps = [0.0 if p != p else p for p in ps]  # 0*inf
    return Iv(_dn(min(ps)), _up(max(ps)))


def iv_div(a, b):
    if b.lo <= 0.0 <= b.hi:
        raise IvUndefined("division by an interval containing 0")
    return iv_mul(a, Iv(_dn(1.0 / b.hi), _up(1.0 / b.lo)))


def _wide(x, ulps=2):
    lo = hi = x
    for _ in range(ulps):
        lo, hi = _dn(lo), _up(hi)
    return lo, hi


def iv_exp(a):
    def e(x):
        try:
            return math.exp(x)
        except OverflowError:
            return _INF

    lo = max(0.0, _wide(e(a.lo))[0])
    hi = _wide(e(a.hi))[1]
    return Iv(lo, hi)


def iv_log(a):
    if a.lo <= 0.0:
        raise IvUndefined("log of an interval reaching 0")
    return Iv(_wide(math.log(a.lo))[0], _wide(math.log(a.hi))[1])


def iv_sqrt(a):
    if a.lo < 0.0:
        raise IvUndefined("sqrt of an interval reaching below 0")
    return Iv(max(0.0, _wide(math.sqrt(a.lo))[0]), _wide(math.sqrt(a.hi))[1])


def iv_ipow(a, k):
    if k == 0:
        return Iv(1.0, 1.0)
    if k < 0:
        return iv_div(Iv(1.0, 1.0), iv_ipow(a, -k))

    def p(x):
        try:
            return x**k
        except OverflowError:
            return _INF if (x > 0 or k % 2 == 0) else -_INF

    if k % 2 == 1:
        lo, hi = p(a.lo), p(a.hi)
    else:
        if a.lo >= 0:
            lo, hi = p(a.lo), p(a.hi)
        elif a.hi <= 0:
            lo, hi = p(a.hi), p(a.lo)
        else:
            lo, hi = 0.0, max(p(a.lo), p(a.hi))
    lo2 = _wide(lo)[0]
    if lo >= 0 and k % 2 == 0:
        lo2 = max(0.0, lo2)
    return Iv(lo2, _wide(hi)[1])


def iv_rpow(a, b):
    # a**b = exp(b log a), a > 0 ; a == [0,0] allowed with b > 0
    if a.lo == 0.0 and b.lo > 0:
        if a.hi == 0.0:
            return Iv(0.0, 0.0)
        hi = iv_exp(iv_mul(b, iv_log(Iv(a.hi, a.hi))))
        hi2 = iv_exp(iv_mul(b, iv_log(Iv(min(a.hi, 1.0) if a.hi > 0 else 1.0, a.hi))))
        return Iv(0.0, max(hi.hi, hi2.hi))
    if a.lo <= 0.0:
        raise IvUndefined("real power of an interval reaching 0 or below")
    return iv_exp(iv_mul(b, iv_log(a)))


TRI_T, TRI_F, TRI_U = 1, 0, -1


def ieval(t, box, cuts=None):
    """interval enclosure of term t over box {var name: Iv}; cuts {term: Iv} replace sub-terms by a
    proved range.  Boolean terms evaluate to TRI_T / TRI_F / TRI_U."""
    memo = {}
    cuts = cuts or {}
    for n in tm.postorder(t):
        if n in cuts:
            memo[n] = cuts[n]
            continue
        op = n.op
        a = [memo[c] for c in tm.children(n)]
        if op == "const":
            v = Iv.of_fraction(tm.cval(n))
        elif op == "bool":
            v = TRI_T if n.args[0] else TRI_F
        elif op == "var":
            v = box[n.args[0]]
        elif op == "toreal":
            v = a[0]
        elif op == "ite":
            c = a[0]
            if c == TRI_T:
                v = a[1]
            elif c == TRI_F:
                v = a[2]
            else:
                x, y = a[1], a[2]
                if isinstance(x, Exception):
                    v = x
                elif isinstance(y, Exception):
                    v = y
                else:
                    v = Iv(min(x.lo, y.lo), max(x.hi, y.hi))
        elif any(isinstance(y, Exception) for y in a):
            v = next(y for y in a if isinstance(y, Exception))
        else:
            try:
                if op == "+":
                    v = a[0]
                    for y in a[1:]:
                        v = iv_add(v, y)
                elif op == "*":
                    # x*x*... of the same child: use the tighter power enclosure
                    v = None
                    kids = tm.children(n)
                    i = 0
                    while i < len(kids):
                        j = i
                        while j + 1 < len(kids) and kids[j + 1] is kids[i]:
                            j += 1
                        part = iv_ipow(a[i], j - i + 1) if j > i else a[i]
                        v = part if v is None else iv_mul(v, part)
                        i = j + 1
                elif op == "neg":
                    v = iv_neg(a[0])
                elif op == "/":
                    v = iv_div(a[0], a[1])
                elif op == "ipow":
                    v = iv_ipow(a[0], int(tm.cval(n.args[1])))
                elif op == "rpow":
                    v = iv_rpow(a[0], a[1])
                elif op == "exp":
                    v = iv_exp(a[0])
                elif op == "log":
                    v = iv_log(a[0])
                elif op == "sqrt":
                    v = iv_sqrt(a[0])
                elif op == "abs":
                    x = a[0]
                    if x.lo >= 0:
                        v = x
                    elif x.hi <= 0:
                        v = iv_neg(x)
                    else:
                        v = Iv(0.0, max(-x.lo, x.hi))
                elif op == "min":
                    v = Iv(min(a[0].lo, a[1].lo), min(a[0].hi, a[1].hi))
                elif op == "max":
                    v = Iv(max(a[0].lo, a[1].lo), max(a[0].hi, a[1].hi))
                elif op == "<":
                    v = TRI_T if a[0].hi < a[1].lo else (TRI_F if a[0].lo >= a[1].hi else TRI_U)
                elif op == "<=":
                    v = TRI_T if a[0].hi <= a[1].lo else (TRI_F if a[0].lo > a[1].hi else TRI_U)
                elif op == "==":
                    if a[0].lo == a[0].hi == a[1].lo == a[1].hi:
                        v = TRI_T
                    elif a[0].hi < a[1].lo or a[1].hi < a[0].lo:
                        v = TRI_F
                    else:
                        v = TRI_U
                elif op == "and":
                    v = TRI_F if any(y == TRI_F for y in a) else (TRI_T if all(y == TRI_T for y in a) else TRI_U)
                elif op == "or":
                    v = TRI_T if any(y == TRI_T for y in a) else (TRI_F if all(y == TRI_F for y in a) else TRI_U)
                elif op == "not":
                    v = {TRI_T: TRI_F, TRI_F: TRI_T, TRI_U: TRI_U}[a[0]]
                else:
                    raise NotImplementedError(f"ieval {op}")
            except IvUndefined as e:
                v = e
        memo[n] = v
    r = memo[t]
    if isinstance(r, Exception):
        raise r
    return r


def _bb_worker(args):
    t, boxes, cuts, mode, hyp, max_boxes, min_width = args
    return _bb(t, boxes, cuts, mode, hyp, max_boxes, min_width)


def _bb(t, boxes, cuts, mode, hyp, max_boxes, min_width):
    """branch and bound.  mode '>0' / '>=0' / '<0' / '<=0' / 'defined'.  returns (status, nboxes, info)"""
    stack = list(boxes)
    n = 0
    worst = None
    while stack:
        box = stack.pop()
        n += 1
        if n > max_boxes:
            return ("budget", n, {"box": {k: (v.lo, v.hi) for k, v in box.items()}})
        if hyp is not None:
            try:
                h = ieval(hyp, box, cuts)
            except IvUndefined:
                h = TRI_U
            if h == TRI_F:
                continue  # box outside the hypothesis
        ok = False
        try:
            r = ieval(t, box, cuts)
            if mode == "defined":
                ok = True
            elif mode == ">0":
                ok = r.lo > 0
            elif mode == ">=0":
                ok = r.lo >= 0
            elif mode == "<0":
                ok = r.hi < 0
            elif mode == "<=0":
                ok = r.hi <= 0
            if not ok and mode != "defined":
                # is the midpoint a genuine counterexample?
                mid = {k: Iv((v.lo + v.hi) / 2) for k, v in box.items()}
                try:
                    hm = TRI_T if hyp is None else ieval(hyp, mid, cuts)
                    rm = ieval(t, mid, cuts) if not cuts else None
                except IvUndefined:
                    hm, rm = TRI_U, None
                if rm is not None and hm == TRI_T:
                    bad = (mode == ">0" and rm.hi <= 0) or (mode == ">=0" and rm.hi < 0) or (mode == "<0" and rm.lo >= 0) or (mode == "<=0" and rm.lo > 0)
                    if bad:
                        return ("refuted", n, {"point": {k: v.lo for k, v in mid.items()}, "value": (rm.lo, rm.hi)})
        except IvUndefined as e:
            ok = False
            r = None
            if mode == "defined" or True:
                # undefined on the whole (thin) box -> witness of ill-definedness
                if all(v.width() <= min_width * max(1.0, abs(v.lo)) for v in box.values()):
                    return ("undefined", n, {"point": {k: v.lo for k, v in box.items()}, "why": str(e)})
        if ok:
            continue
        # split widest relative edge
        key = None
        best = -1.0
        for k, v in box.items():
            w = v.width() / max(1e-300, max(abs(v.lo), abs(v.hi), 1e-12))
            if v.width() > 0 and w > best:
                best, key = w, k
        if key is None or best < min_width:
            if worst is None:
                worst = {"box": {k: (v.lo, v.hi) for k, v in box.items()}, "enclosure": None if r is None else (r.lo, r.hi)}
            continue
        v = box[key]
        m = (v.lo + v.hi) / 2
        b1, b2 = dict(box), dict(box)
        b1[key] = Iv(v.lo, m)
        b2[key] = Iv(m, v.hi)
        stack.append(b1)
        stack.append(b2)
    if worst is not None:
        return ("stuck", n, worst)
    return ("proved", n, None)


def _presample(t, ivbox, ivcuts, mode, hyp, n=300, seed=0):
    """cheap search for a definite counterexample at thin boxes (grid corners + random points)"""
    if ivcuts or mode == "defined":
        return None
    rng = random.Random(seed)
    keys = list(ivbox)
    for i in range(n):
        if i < 2 ** min(len(keys), 6):
            pt = {k: (ivbox[k].lo if (i >> j) & 1 == 0 else ivbox[k].hi) for j, k in enumerate(keys)}
        else:
            pt = {k: ivbox[k].lo + (ivbox[k].hi - ivbox[k].lo) * rng.random() for k in keys}
        b = {k: Iv(v) for k, v in pt.items()}
        try:
            if hyp is not None and ieval(hyp, b) != TRI_T:
                continue
            r = ieval(t, b)
        except IvUndefined:
            continue
        bad = (mode == ">0" and r.hi <= 0) or (mode == ">=0" and r.hi < 0) or (mode == "<0" and r.lo >= 0) or (mode == "<=0" and r.lo > 0)
        if bad:
            return {"point": pt, "value": (r.lo, r.hi)}
    return None


def prove_int(t, box, mode=">0", hyp=None, cuts=None, max_boxes=400000, min_width=1e-9, presplit=None, pool=None):
    """t `mode` 0 on the whole box {name: (lo, hi)} (restricted to hyp).  cuts: {term: (lo, hi)}.
    thorough tier: a PROVED verdict is repeated with mpmath.iv (an independent interval implementation)."""
    v = _prove_int(t, box, mode, hyp, cuts, max_boxes, min_width, presplit, pool)
    if v.status == PROVED and thorough() and mode != "defined":
        t1 = time.time()
        ok, nb, why = _bb_mp(t, box, mode, hyp, cuts, max_boxes=max(20000, 3 * v.stats.get("boxes", 1)))
        v.stats["mpmath_iv_boxes"] = nb
        v.seconds += time.time() - t1
        if ok is True:
            v.detail += f"; re-proved with mpmath.iv in {nb} boxes"
        elif ok is False:
            return Verdict("ERROR", "INT", detail=f"interval implementations disagree: float B&B proved, mpmath.iv found {why}", seconds=v.seconds)
        else:
            v.detail += f"; mpmath.iv re-check inconclusive within its budget ({why})"
    return v


def _iv_mp_eval(t, box, cuts):
    from mpmath import iv
    memo = {}
    for n in tm.postorder(t):
        if n in cuts:
            memo[n] = cuts[n]
            continue
        op = n.op
        a = [memo[c] for c in tm.children(n)]
        if op == "const":
            f = tm.cval(n)
            v = iv.mpf(f.numerator) / iv.mpf(f.denominator)
        elif op == "bool":
            v = TRI_T if n.args[0] else TRI_F
        elif op == "var":
            v = box[n.args[0]]
        elif op == "toreal":
            v = a[0]
        elif op == "+":
            v = a[0]
            for y in a[1:]:
                v = v + y
        elif op == "*":
            v = a[0]
            for y in a[1:]:
                v = v * y
        elif op == "neg":
            v = -a[0]
        elif op == "/":
            if a[1].a <= 0 <= a[1].b:
                raise IvUndefined("division by an interval containing 0")
            v = a[0] / a[1]
        elif op == "ipow":
            k = int(tm.cval(n.args[1]))
            v = a[0] ** k if k >= 0 else 1 / (a[0] ** (-k))
        elif op == "rpow":
            if a[0].a <= 0:
                if a[0].a == 0 and a[1].a > 0:
                    hi = iv.exp(a[1] * iv.log(iv.mpf([max(a[0].b, iv.mpf("1e-300").a), a[0].b]))) if a[0].b > 0 else iv.mpf(0)
                    v = iv.mpf([0, max(hi.b, 1)]) if a[0].b > 0 else iv.mpf(0)
                else:
                    raise IvUndefined("real power of an interval reaching 0 or below")
            else:
                v = iv.exp(a[1] * iv.log(a[0]))
        elif op == "exp":
            v = iv.exp(a[0])
        elif op == "log":
            if a[0].a <= 0:
                raise IvUndefined("log of an interval reaching 0")
            v = iv.log(a[0])
        elif op == "sqrt":
            if a[0].a < 0:
                raise IvUndefined("sqrt of an interval reaching below 0")
            v = iv.sqrt(a[0])
        elif op == "abs":
            v = abs(a[0])
        elif op == "min":
            v = iv.mpf([min(a[0].a, a[1].a), min(a[0].b, a[1].b)])
        elif op == "max":
            v = iv.mpf([max(a[0].a, a[1].a), max(a[0].b, a[1].b)])
        elif op == "<":
            v = TRI_T if a[0].b < a[1].a else (TRI_F if a[0].a >= a[1].b else TRI_U)
        elif op == "<=":
            v = TRI_T if a[0].b <= a[1].a else (TRI_F if a[0].a > a[1].b else TRI_U)
        elif op == "and":
            v = TRI_F if any(y == TRI_F for y in a) else (TRI_T if all(y == TRI_T for y in a) else TRI_U)
        elif op == "or":
            v = TRI_T if any(y == TRI_T for y in a) else (TRI_F if all(y == TRI_F for y in a) else TRI_U)
        elif op == "not":
            v = {TRI_T: TRI_F, TRI_F: TRI_T, TRI_U: TRI_U}[a[0]]
        else:
            raise NotImplementedError(f"mp ieval {op}")
        memo[n] = v
    return memo[t]


def _bb_mp(t, box, mode, hyp, cuts, max_boxes):
    from mpmath import iv
    iv.dps = 30
    ivbox = {k: iv.mpf([float(lo), float(hi)]) for k, (lo, hi) in box.items()}
    ivcuts = {k: iv.mpf([float(lo), float(hi)]) for k, (lo, hi) in (cuts or {}).items()}
    stack = [ivbox]
    n = 0
    try:
        while stack:
            b = stack.pop()
            n += 1
            if n > max_boxes:
                return None, n, "budget"
            if hyp is not None:
                try:
                    h = _iv_mp_eval(hyp, b, ivcuts)
                except IvUndefined:
                    h = TRI_U
                if h == TRI_F:
                    continue
            ok = False
            try:
                r = _iv_mp_eval(t, b, ivcuts)
                ok = (mode == ">0" and r.a > 0) or (mode == ">=0" and r.a >= 0) or (mode == "<0" and r.b < 0) or (mode == "<=0" and r.b <= 0)
            except IvUndefined:
                ok = False
            if ok:
                continue
            key, best = None, -1.0
            for k, v in b.items():
                w = float(v.delta) / max(1e-300, max(abs(float(v.a)), abs(float(v.b)), 1e-12))
                if float(v.delta) > 0 and w > best:
                    best, key = w, k
            if key is None or best < 1e-9:
                return None, n, "stuck"
            v = b[key]
            m = (v.a + v.b) / 2
            b1, b2 = dict(b), dict(b)
            b1[key] = iv.mpf([v.a, m])
            b2[key] = iv.mpf([m, v.b])
            stack.append(b1)
            stack.append(b2)
    except NotImplementedError as e:
        return None, n, str(e)
    return True, n, ""


def _prove_int(t, box, mode=">0", hyp=None, cuts=None, max_boxes=400000, min_width=1e-9, presplit=None, pool=None):
    t0 = time.time()
    ivbox = {k: Iv(float(lo), float(hi)) for k, (lo, hi) in box.items()}
    ivcuts = {k: Iv(float(lo), float(hi)) for k, (lo, hi) in (cuts or {}).items()}
    pre = _presample(t, ivbox, ivcuts, mode, hyp)
    if pre is not None:
        return Verdict(REFUTED, "INT", witness=pre["point"], detail=f"counterexample point: value in {pre['value']}", seconds=time.time() - t0, stats={"boxes": 0})
    boxes = [ivbox]
    if presplit:
        for k, parts in presplit.items():
            nb = []
            for b in boxes:
                v = b[k]
                for i in range(parts):
                    c = dict(b)
                    c[k] = Iv(v.lo + (v.hi - v.lo) * i / parts, v.lo + (v.hi - v.lo) * (i + 1) / parts)
                    nb.append(c)
            boxes = nb
    if pool is not None and len(boxes) > 1:
        chunks = [boxes[i::16] for i in range(16)]
        chunks = [c for c in chunks if c]
        res = pool.map(_bb_worker, [(t, c, ivcuts, mode, hyp, max_boxes // len(chunks) + 1, min_width) for c in chunks])
    else:
        res = [_bb(t, boxes, ivcuts, mode, hyp, max_boxes, min_width)]
    n = sum(r[1] for r in res)
    dt = time.time() - t0
    for status, _, info in res:
        if status in ("refuted", "undefined"):
            return Verdict(REFUTED, "INT", witness=info["point"], detail=f"{status}: {info}", seconds=dt, stats={"boxes": n})
    for status, _, info in res:
        if status != "proved":
            return Verdict(UNKNOWN, "INT", detail=f"{status}: {info}", seconds=dt, stats={"boxes": n})
    return Verdict(PROVED, "INT", detail=f"{n} boxes", seconds=dt, stats={"boxes": n})


# =============================================================================================
# sympy -> term (used to hand a CAS-normalised form of a term to INT; the rewriting is re-checked
# numerically at 50 digits by the caller)


def from_sympy(e, sorts=None):
    import sympy as sp

    sorts = sorts or {}

    def go(x):
        if x.is_Rational:
            return tm.const(Fraction(int(x.p), int(x.q)), tm.R)
        if x.is_Float:
            return tm.rconst(Fraction(str(x)))
        if x.is_Symbol:
            return tm.var(x.name, sorts.get(x.name, tm.I if x.is_integer else tm.R))
        if x.is_Add:
            return tm.add(*[go(a) for a in x.args])
        if x.is_Mul:
            num, den = [], []
            for a in x.args:
                if a.is_Pow and a.exp.is_Rational and a.exp < 0:
                    den.append(go(sp.Pow(a.base, -a.exp)))
                else:
                    num.append(go(a))
            n = tm.mul(*num) if num else tm.rconst(1)
            if den:
                return tm.div(n, tm.mul(*den))
            return n
        if x.is_Pow:
            if x.exp.is_Rational and x.exp < 0:
                return tm.div(tm.rconst(1), go(sp.Pow(x.base, -x.exp)))
            if x.exp == sp.Rational(1, 2):
                return tm.sqrt(go(x.base))
            return tm.power(go(x.base), go(x.exp))
        if isinstance(x, sp.exp):
            return tm.exp(go(x.args[0]))
        if isinstance(x, sp.log):
            return tm.log(go(x.args[0]))
        if isinstance(x, sp.Abs):
            return tm.absv(go(x.args[0]))
        if isinstance(x, sp.Min):
            r = go(x.args[0])
            for a in x.args[1:]:
                r = tm.minimum(r, go(a))
            return r
        if isinstance(x, sp.Max):
            r = go(x.args[0])
            for a in x.args[1:]:
                r = tm.maximum(r, go(a))
            return r
        if x.is_Function:
            return tm.app(x.func.__name__, [go(a) for a in x.args], tm.R)
        if x == sp.E:
            return tm.exp(tm.rconst(1))
        raise NotImplementedError(f"from_sympy {type(x).__name__}: {x}")

    return go(e)


def cas_rewrite(t, positive=(), how="expand", check_box=None, seed=0):
    """t rewritten by sympy (expand / collect in a variable / horner); the result is checked against t
    at random points of check_box with 50 digits (raises on disagreement: engine error)."""
    import mpmath
    import sympy as sp

    e = to_sympy(t, positive=positive)
    lim = 600.0 if thorough() else 120.0   # a rewrite that runs out raises _StepTimeout: the obligation is UNDECIDED
    if how == "expand":
        e2 = _limited(lim, sp.expand, e)
    elif how == "normal":
        e2 = _limited(lim, cas_normal_form, e)
    elif how == "together":
        e2 = _limited(lim, lambda x: sp.together(sp.expand(x)), e)
    elif isinstance(how, tuple) and how[0] == "collect":
        e2 = sp.collect(sp.expand(e), [sp.Symbol(n, positive=(n in {getattr(p, 'args', [p])[0] if isinstance(p, T) else p for p in positive})) if False else s for s in e.free_symbols if s.name in how[1:]])
    else:
        raise ValueError(how)
    r = from_sympy(e2, {v.args[0]: v.sort for v in tm.free_vars(t)})
    if check_box:
        rng = random.Random(seed)
        funcs = default_app_interp(t, seed)
        ok = 0
        for _ in range(200):
            pt = sample_point(check_box, rng)
            try:
                a, b = mp_eval(t, pt, funcs), mp_eval(r, pt, funcs)
            except tm.EvalError:
                continue
            if abs(a - b) > mpmath.mpf("1e-30") * max(abs(a), abs(b), 1):
                raise RuntimeError(f"CAS rewrite changed the value at {pt}: {a} vs {b}")
            ok += 1
            if ok >= 8:
                break
        if ok == 0:
            raise RuntimeError("CAS rewrite could not be checked at any point")
    return r
