"""Source of MANIFEST.json (bin/mkmanifest)."""

NOTES = "Contract-based deductive verification of the real code: see DESIGN.md. Exit codes of bin/check: 0 held, 1 VIOLATION, 2 undecided (never a violation), 3 checker error."

_PENDING = "check not built yet in this round (contracts planned in DESIGN.md section 3); will move to checks when its obligations are discharged"

CHECKS = {
    "C13": {
        "category": "proof",
        "text": "Each clause of C13 is an identity between terms extracted from the AST of oil.py/water.py/gas.py on every run; the hand-coded derivative is compared with the exact symbolic derivative of the parent's own term and proved equal for every input of the box by CAS normal form (sympy, exact rationals); branch selection at the bubble point is an SMT obligation. All 8 obligations must be discharged.",
        "note": "Reals for floats; sympy normal forms and pyvc's differentiation rules are trusted (cross-checked at 50 digits per run); z_factor_DAK is an uninterpreted function (both sides use the same Z).",
        "technique": "VC generation from the AST + CAS identity proof (sympy) and SMT (z3) over contracts of the real functions",
    },
}

NOT_APPLICABLE = {f"C{i:02d}": _PENDING for i in range(1, 21)}
