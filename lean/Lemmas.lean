/-
  Meta-lemmas behind the trusted schemas of pyvc (DESIGN.md 0.2 / 2.6): each `theorem` below is the Lean 4 / Mathlib
  statement of a schema that SMT obligations use as an instantiated hypothesis.  `bin/lean_check` compiles this file
  (thorough tier); the correspondence statement <-> schema text is by the identifier in the comment and is reviewed
  by hand.
-/
import Mathlib

open Finset

/-- schema `argmax`: a finite non-empty index range has an arg-max (used as Skolem constant J with ∀ j, x j ≤ x J). -/
theorem pyvc_exists_argmax (n : ℕ) (hn : 0 < n) (x : Fin n → ℝ) : ∃ J : Fin n, ∀ j : Fin n, x j ≤ x J := by
  have : Nonempty (Fin n) := ⟨⟨0, hn⟩⟩
  obtain ⟨J, _, hJ⟩ := Finset.exists_max_image (Finset.univ : Finset (Fin n)) x Finset.univ_nonempty
  exact ⟨J, fun j => hJ j (Finset.mem_univ j)⟩

/-- schema `argmin`. -/
theorem pyvc_exists_argmin (n : ℕ) (hn : 0 < n) (x : Fin n → ℝ) : ∃ J : Fin n, ∀ j : Fin n, x J ≤ x j := by
  have : Nonempty (Fin n) := ⟨⟨0, hn⟩⟩
  obtain ⟨J, _, hJ⟩ := Finset.exists_min_image (Finset.univ : Finset (Fin n)) x Finset.univ_nonempty
  exact ⟨J, fun j => hJ j (Finset.mem_univ j)⟩

/-- schema `sum_monotone` (C03 rf.density.ceiling): (∀ j, c ≤ f j) → n • c ≤ ∑ f. -/
theorem pyvc_sum_ge (n : ℕ) (f : Fin n → ℝ) (c : ℝ) (h : ∀ j, c ≤ f j) : (n : ℝ) * c ≤ ∑ j, f j := by
  have := Finset.card_nsmul_le_sum (Finset.univ : Finset (Fin n)) f c (fun j _ => h j)
  simpa [nsmul_eq_mul] using this

theorem pyvc_sum_le (n : ℕ) (f : Fin n → ℝ) (c : ℝ) (h : ∀ j, f j ≤ c) : ∑ j, f j ≤ (n : ℝ) * c := by
  have := Finset.sum_le_card_nsmul (Finset.univ : Finset (Fin n)) f c (fun j _ => h j)
  simpa [nsmul_eq_mul] using this

/-- schema `monotone_sequence` (C09): (∀ j, y j < y (j+1)) → a < b → y a < y b. -/
theorem pyvc_monotone_sequence (y : ℕ → ℝ) (h : ∀ j, y j < y (j + 1)) {a b : ℕ} (hab : a < b) : y a < y b :=
  (strictMono_nat_of_lt_succ h) hab

/-- real-power axioms of C14 (`pow_axioms`). -/
theorem pyvc_rpow_unit (u e : ℝ) (h0 : 0 ≤ u) (h1 : u ≤ 1) (he : 1 ≤ e) : 0 ≤ u ^ e ∧ u ^ e ≤ u := by
  refine ⟨Real.rpow_nonneg h0 e, ?_⟩
  calc u ^ e ≤ u ^ (1 : ℝ) := Real.rpow_le_rpow_of_exponent_ge' h0 h1 (by linarith) he
    _ = u := Real.rpow_one u

theorem pyvc_zero_rpow (e : ℝ) (he : 0 < e) : (0 : ℝ) ^ e = 0 := Real.zero_rpow (ne_of_gt he)

theorem pyvc_rpow_mono (u v e : ℝ) (h0 : 0 ≤ u) (huv : u ≤ v) (he : 0 < e) : u ^ e ≤ v ^ e :=
  Real.rpow_le_rpow h0 huv (le_of_lt he)

/-- one segment of a piecewise-linear interpolant: the chord stays between its end values (C09 alpha.range, C03). -/
theorem pyvc_chord_between (a b θ : ℝ) (h0 : 0 ≤ θ) (h1 : θ ≤ 1) (hab : a ≤ b) : a ≤ a + θ * (b - a) ∧ a + θ * (b - a) ≤ b := by
  constructor <;> nlinarith

/-- AM–HM on a segment (C09 init.alpha_branch): (a + θ(b-a)) (1/a + θ(1/b - 1/a)) ≥ 1 for a, b > 0, 0 ≤ θ ≤ 1. -/
theorem pyvc_am_hm (a b θ : ℝ) (ha : 0 < a) (hb : 0 < b) (h0 : 0 ≤ θ) (h1 : θ ≤ 1) :
    1 ≤ (a + θ * (b - a)) * (1 / a + θ * (1 / b - 1 / a)) := by
  have hab : 0 < a * b := mul_pos ha hb
  have key : (a + θ * (b - a)) * (1 / a + θ * (1 / b - 1 / a)) = 1 + θ * (1 - θ) * (a - b) ^ 2 / (a * b) := by
    field_simp
    ring
  rw [key]
  have : 0 ≤ θ * (1 - θ) * (a - b) ^ 2 / (a * b) := by
    apply div_nonneg _ hab.le
    have := mul_nonneg h0 (sub_nonneg.mpr h1)
    positivity
  linarith

/-- maximum principle, interior row (C01 inv.preserve.upper, case 0 < J < n-1). -/
theorem pyvc_interior_row (k xl xJ xr b : ℝ) (hk : 0 ≤ k) (hl : xl ≤ xJ) (hr : xr ≤ xJ)
    (row : -k * xl + (1 + 2 * k) * xJ - k * xr = b) : xJ ≤ b := by
  nlinarith

/-- strictly increasing ⇒ at most one root (C06 dak.strictly_increasing ⇒ unique root). -/
theorem pyvc_unique_root (g : ℝ → ℝ) (hg : StrictMono g) (c x y : ℝ) (hx : g x = c) (hy : g y = c) : x = y :=
  hg.injective (hx.trans hy.symm)
