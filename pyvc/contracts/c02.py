"""C02  Solver converges to the solution of the documented diffusion problem.

The limit itself is not a contract a prover here can discharge.  Proved is that the scheme IS the backward-Euler finite-
difference discretisation of the boundary-value problem of docs/background.md:36-43 (consistency, the half of Lax's
argument that depends on the code); stability is C01's maximum principle.
  stencil.quadratic_exact   interior row applied to samples of a quadratic q on a grid of spacing h with k = dt a / h^2 gives q - dt a q''
  stencil.noflow            last row == interior row with the mirror ghost u_n = u_{n-1}   (du/dx = 0 at the outer boundary)
  stencil.fracface          row 0 with its right-hand side == interior row with ghost u_{-1} = m_f (ideal: 0) and previous value m_f (ideal: pp[i,0])
  mesh.constant             kt_h2 = dt C(nx) alpha_s with C(nx) = nx^2 (ideal: (nx-1)^2): spacing h = 1/nx (1/(nx-1)), domain length within 2/(nx-1) of 1
  ic.uniform                level 0 is m_i at nodes >= 1 (ideal: 1 everywhere)
  dep.*                     step contract (C04), field a function of the arguments only (C10), recovery = flux stencil + trapezoid (C10), FVF scale (C03)
Convergence ladders against the Fourier series / a method-of-lines reference: BOUNDED run-time contracts.
"""
from __future__ import annotations

from .. import backends as be
from .. import term as tm
from . import c03, c04, c10, resv
from .common import *  # noqa: F403

LEVEL = "other"
EXPLANATION = ("consistency of the scheme with the documented boundary-value problem is proved (exactness of the interior row on quadratics, mirror closure at the outer boundary, ghost-value closure at the fracture face, one mesh constant with the documented spacing, uniform initial state) on the contract of _build_matrix and the extracted step; "
               "stability is C01. Convergence and its first-order rate are limit statements: BOUNDED ladders against the closed-form Fourier series and an independent method-of-lines reference; hence level 'other'")
TRUSTED = ["Lax: consistency + stability => convergence (textbook; not formalised here)", "contracts of _build_matrix / _solve (re-verified as dependencies)"]
ASSUMPTIONS = ["convergence under refinement is a bounded clause"]

n = tm.var("n", tm.I)
r, j = tm.var("r", tm.I), tm.var("j", tm.I)
ZERO, ONE, TWO = tm.rconst(0), tm.rconst(1), tm.rconst(2)
one = tm.const(1)


def rt_replay(w):
    import types
    from ..rt import c02 as rt
    r_ = rt.run(types.SimpleNamespace(tier="quick", seed=0))
    if r_["violations"]:
        v = r_["violations"][0]
        return {"reproduced": True, "input": v.get("input"), "observed": v.get("observed"), "required": v.get("required"), "clause": v.get("clause")}
    return {"reproduced": False}


def build(ctx):
    obs = []
    K = lambda i: tm.app("kin", [i])

    def quadratic():
        # contract matrix applied to u_j = a + b x_j + c x_j^2, x_j = x0 + j h, with K_r = dt*alpha/h^2
        a, b, c, x0, h, dta = sym_args(["qa", "qb", "qc", "x0", "h", "dta"])
        A = resv.bm_spec(n, K)
        x = lambda i: x0 + tm.toreal(i) * h
        u = lambda idx: a + b * x(idx[0]) + c * x(idx[0]) * x(idx[0])
        row = A.row_dot(r, u)
        hyp = [tm.land(tm.le(one, r), tm.le(r, tm.sub(n, tm.const(2)))), tm.gt(h, ZERO), tm.eq(tm.mul(K(r), h, h), dta)]
        goal = tm.eq(row, u((r,)) - dta * 2 * c)
        return be.prove_smt(goal, hyp, timeout_ms=20000)

    obs.append(Obligation("stencil.quadratic_exact", "interior row of the contract matrix applied to samples of a quadratic q on a uniform grid of spacing h with k = dt a / h^2 equals q(x_r) - dt a q'' exactly (second-order consistent backward Euler)", quadratic, [resv.BM], "SMT", rt_replay))

    def noflow():
        A = resv.bm_spec(n, K)
        U = lambda idx: tm.app("u", list(idx))
        last = tm.sub(n, one)
        row = A.row_dot(last, U)
        ghost_row = tm.add(tm.mul(tm.neg(K(last)), U((tm.sub(last, one),))), tm.mul(tm.add(ONE, tm.mul(TWO, K(last))), U((last,))), tm.mul(tm.neg(K(last)), U((last,))))  # u_n := u_{n-1}
        return be.prove_smt(tm.eq(row, ghost_row), [tm.ge(n, tm.const(3))])

    obs.append(Obligation("stencil.noflow", "last row of the contract matrix == interior row with the mirror ghost value u_n = u_{n-1} (no-flow outer boundary)", noflow, [resv.BM], "SMT", rt_replay))

    def fracface():
        v = None
        for cls in ("SinglePhaseReservoir", "IdealReservoir"):
            S = resv.Step(ctx, cls, "none" if cls == "IdealReservoir" else "array")
            s_, b_ = S.single()
            Kc, X = b_["K"], s_["x"]
            z = tm.const(0)
            rowfact = tm.eq(s_["A"].row_dot(z, X), s_["b"]((z,)))
            kdef = tm.eq(Kc(z), b_["arg_fn"]((z,)))
            if cls == "IdealReservoir":
                ghost, prev = ZERO, S.PP(S.i, z)
                hyp = list(S.o.pc) + [rowfact, kdef]
            else:
                ghost = S.M.app(tm.app("pf_sched", [S.i]))
                prev = ghost
                hyp = list(S.o.pc) + [rowfact, kdef] + resv.alpha_facts(S, [rowfact, kdef])
            # interior-type row with the ghost node: -k u_{-1} + (1 + 2k) u_0 - k u_1 = previous value
            goal = tm.eq(tm.add(tm.mul(tm.neg(Kc(z)), ghost), tm.mul(tm.add(ONE, tm.mul(TWO, Kc(z))), X((z,))), tm.mul(tm.neg(Kc(z)), X((one,)))), prev)
            v = be.prove_smt(goal, hyp + [tm.ge(S.n, tm.const(3))], timeout_ms=20000)
            if v.status != be.PROVED:
                v.detail = f"{cls}: " + v.detail
                return with_models(v, S.o)
        return with_models(v, S.o)

    obs.append(Obligation("stencil.fracface", "row 0 of the stored update == interior row with ghost value u_{-1} = m_f[i] and previous value m_f[i] (ideal reservoir: ghost 0, previous value pp[i, 0]): fixed value at the fracture face", fracface, [resv.SSIM, resv.ISIM], "SMT", rt_replay))

    def mesh():
        v = None
        for cls, C in (("SinglePhaseReservoir", lambda nn: tm.toreal(nn) * tm.toreal(nn)), ("IdealReservoir", lambda nn: (tm.toreal(nn) - 1) * (tm.toreal(nn) - 1))):
            S = resv.Step(ctx, cls, "none" if cls == "IdealReservoir" else "array")
            s_, b_ = S.single()
            kj = b_["arg_fn"]((j,))
            ti, ti1 = tm.app("t", [S.i]), tm.app("t", [tm.add(S.i, one)])
            sub = {ti1: ONE, ti: ZERO}
            if cls != "IdealReservoir":
                for nd in tm.postorder(kj):
                    if nd.op == "app" and nd.args[0] == S.A.name:
                        sub[nd] = ONE
            inv_dx2 = tm.subst(kj, sub)
            nn = S.n
            h2 = ONE / C(nn)  # documented spacing squared
            length = (tm.toreal(nn) + tm.rconst("0.5")) * (ONE / tm.toreal(nn) if cls != "IdealReservoir" else ONE / (tm.toreal(nn) - 1))
            goal = tm.land(tm.eq(tm.mul(inv_dx2, h2), ONE), tm.le(length - 1, 2 / (tm.toreal(nn) - 1)), tm.ge(length, ONE))
            v = be.prove_smt(goal, [tm.ge(nn, tm.const(3))], timeout_ms=20000, want={"nx": nn})
            if v.status != be.PROVED:
                v.detail = f"{cls}: mesh constant is not the documented 1/h^2: " + v.detail
                return with_models(v, S.o)
        return with_models(v, S.o)

    obs.append(Obligation("mesh.constant", "the mesh constant of the run is 1/h^2 with h = 1/nx (single phase) resp. 1/(nx-1) (ideal): the ghost-to-mirror domain length (nx + 1/2) h is within 2/(nx-1) of the documented unit length", mesh, [resv.SSIM, resv.ISIM], "SMT", rt_replay))

    def ic():
        S = resv.Step(ctx, "SinglePhaseReservoir", "array")
        row0 = S.pre((tm.const(0), j))
        v = be.prove_smt(tm.implies(tm.land(tm.le(one, j), tm.lt(j, S.n)), tm.eq(row0, S.m_i)), list(S.o.pc))
        if v.status != be.PROVED:
            return with_models(v, S.o)
        S2 = resv.Step(ctx, "IdealReservoir", "none")
        return with_models(be.prove_smt(tm.implies(resv.inr(j, S2.n), tm.eq(S2.pre((tm.const(0), j)), ONE)), list(S2.o.pc)), S.o, S2.o)

    obs.append(Obligation("ic.uniform", "time level 0 is the uniform initial state: m_i at every node beyond the frac-face node (ideal reservoir: 1 everywhere)", ic, [resv.SSIM, resv.ISIM], "SMT", rt_replay))

    deps = []
    c04obs = {o.id: o for o in c04.build(ctx)}
    c10obs = {o.id: o for o in c10.build(ctx)}
    c03obs = {o.id: o for o in c03.build(ctx)}
    from . import c09
    c09obs = {o.id: o for o in c09.build(ctx)}
    # "every admissible pair of frac-face and initial pressures": the wrapper accepts exactly the initial pressures inside the table (ends included)
    for src in [c09obs["init.pi_outside_raises"]] + [c04obs[x] for x in ("build_matrix.entries", "build_matrix.shape", "solve.contract", "ideal.step.uses_contracts", "single.step.uses_contracts", "ideal.step.mesh_ratio", "single.step.mesh_ratio", "ideal.step.rows", "single.step.rows")] + \
               [c10obs[x] for x in ("ideal.simulate.function_of_args", "single.simulate.function_of_args", "ideal.simulate.frame", "single.simulate.frame", "recovery_factor.post")] + [c03obs["rf.plateau_scale"]]:
        def both(w, a=src.replay):
            r1 = a(w) if a else None
            if r1 and r1.get("reproduced"):
                return r1
            return rt_replay(w)
        obs.append(Obligation("dep." + src.id, "[contract relied upon] " + src.statement, src.run, src.functions, src.backend, both))

    def canary():
        A = resv.bm_spec(n, K)
        U = lambda idx: tm.app("u", list(idx))
        last = tm.sub(n, one)
        return be.prove_smt(tm.eq(A.row_dot(last, U), U((last,))), [tm.ge(n, tm.const(3))])

    obs.append(Obligation("canary.smt", "CANARY (must be refuted): the outer row is the identity (Dirichlet)", canary, [resv.BM], "SMT", expect=be.REFUTED))
    return obs


def bounded(ctx):
    from ..rt import c02 as rt
    return rt.run(ctx)
