"""C03  Recovery factor conserves mass and respects its physical ceiling.

  rf.flux.zero_at_start / rf.density.zero_at_start    recovery[0] == 0 in both modes
  rf.density.ceiling    with C01's bound pp[i, j] >= L (lowest frac-face value so far), density non-decreasing in scaled
                        pseudopressure (consistent table) and monotonicity of finite sums:
                        recovery_density[i] <= 1 - rho(L) / rho(m_i)
  rf.scale              the scaling factor is the interpolant of c mu z / (2 p) at p_i (turns flux of scaled pseudopressure
                        into recovered fraction)
  rf.plateau_scale      IdealReservoir.fvf_scale() == 1 - p_f/p_i,  SinglePhaseReservoir.fvf_scale() == 1
  dep.*                 recovery_factor.post (flux stencil, trapezoid over the stored times, frame), wrapper frame, C01 lower bound
  rf.flux.nondecreasing.ideal   IdealReservoir: flux-based recovery is non-decreasing in time on every non-decreasing grid
                        (stencil = (L u)_1 + 2 (u_1 - u_0) >= 0 by C01's concavity and spatial monotonicity, re-verified as dep.*)
Agreement of the two modes within first-order error (shrinking under refinement), monotone recovery of the single-phase
class, plateau reached: BOUNDED run-time contracts.
"""
from __future__ import annotations

from .. import backends as be
from .. import term as tm
from ..symex import ArrV
from . import c01, c09, c10, resv
from .common import *  # noqa: F403

LEVEL = "other"
EXPLANATION = ("proved: both recoveries start at zero, the in-place recovery never exceeds 1 - rho(L)/rho(m_i) (from C01's lower bound, a monotone density map and monotonicity of finite sums), the pseudopressure scaling factor is c mu z/(2p) at p_i, "
               "the FVF scales, the ideal reservoir's flux-based recovery is non-decreasing in time (from C01's concavity invariant), the flux stencil / time quadrature / frames (dependencies). The agreement of flux-based and in-place recovery 'to within first-order discretisation error', its shrinking under refinement, monotone recovery of the single-phase class and the ideal plateau are a-priori error statements no prover here derives: BOUNDED run-time contracts, hence level 'other'")
TRUSTED = ["monotonicity of finite sums: (forall j: f_j >= c) => sum_j f_j >= n c (induction on n)", "piecewise-linear interpolation (with linear continuation) of non-decreasing data over increasing nodes is non-decreasing",
           "C01 bounds (proved there; re-verified here as dependency)"]
ASSUMPTIONS = ["'thermodynamically consistent table' enters as: density positive and non-decreasing in scaled pseudopressure"]

nt, nx = resv.nt, resv.nx
k, j = tm.var("k", tm.I), tm.var("j", tm.I)
ZERO, ONE = tm.rconst(0), tm.rconst(1)
BASE = [tm.ge(nt, tm.const(2)), tm.ge(nx, tm.const(3))]


def rt_replay(clauses=None):
    def rp_(w):
        import types
        from ..rt import c03 as rt
        r_ = rt.run(types.SimpleNamespace(tier="quick", seed=0))
        for v in r_["violations"]:
            if clauses is None or v.get("clause") in clauses:
                return {"reproduced": True, "input": v.get("input"), "observed": v.get("observed"), "required": v.get("required"), "clause": v.get("clause")}
        return {"reproduced": False}
    return rp_


def run_rf(ctx, cls, dens):
    holder = {}

    def mk():
        fluid, fo = resv.make_fluid(ctx)
        st = {"time": ArrV((nt,), lambda i: tm.app("t", i), "f8", name="t"), "pseudopressure": ArrV((nt, nx), lambda i: tm.app("PP", i), "f8", name="PP")}
        r = resv.make_reservoir(ctx, cls, fluid, st)
        holder["r"], holder["fluid"] = r, fluid
        return [r], {"density": dens}

    outs = ctx.engine.run_paths(ctx.engine.func(resv.RF), mk, pc=BASE)
    if len(outs) != 1 or outs[0].kind != "return":
        raise sx.OutOfSubset(f"recovery_factor(density={dens}): {[(o.kind, o.value) for o in outs]}")
    return outs[0], holder


def build(ctx):
    obs = []

    def zero_flux():
        v = None
        for cls in c10.CLASSES:
            o, h = run_rf(ctx, cls, False)
            el0 = o.value.get(tm.const(0))
            v = be.prove_smt(tm.eq(el0, ZERO), list(o.facts) + list(o.pc))
            if v.status != be.PROVED:
                return with_models(v, o)
        return with_models(v, o)

    obs.append(Obligation("rf.flux.zero_at_start", "recovery_factor()[0] == 0 (cumulative trapezoid with initial=0), both classes", zero_flux, [resv.RF], "SMT", rt_replay(("rf.start_zero",))))

    def zero_density():
        v = None
        for cls in c10.CLASSES:
            o, h = run_rf(ctx, cls, True)
            o.value.get(k)  # materialise the generic element: registers mass(t_k) and mass(t_0)
            sums = o.heap["ghost"].get("sums", {})
            if len(sums) != 2:
                return be.Verdict(be.REFUTED, "SMT", witness={}, detail="in-place recovery is not 1 - mass(t)/mass(0) with mass a sum over the nodes")
            el0 = o.value.get(tm.const(0))
            # mass at time 0 is a sum of positive densities over n >= 3 nodes: non-zero (sum monotonicity schema)
            s0 = [tm.app(nm, (), tm.R) for nm, (key, n_, fn) in sums.items() if tm.const(0) in tm.postorder(fn(j)) or True]
            hyp = [tm.gt(tm.app(nm, (), tm.R), ZERO) for nm in sums]
            v = be.prove_smt(tm.eq(el0, ZERO), hyp + list(o.pc))
            if v.status != be.PROVED:
                return with_models(v, o)
        return with_models(v, o)

    obs.append(Obligation("rf.density.zero_at_start", "recovery_factor(density=True)[0] == 0 (1 - mass_0/mass_0 with mass_0 > 0), both classes", zero_density, [resv.RF], "SMT", rt_replay(("rf.start_zero",))))

    def ceiling():
        o, h = run_rf(ctx, "SinglePhaseReservoir", True)
        sums = o.heap["ghost"].get("sums", {})
        interps = o.heap["ghost"].get("interps", {})
        fl = h["fluid"]
        cols = c09.cols_of(h["fluid"].__dict__.get("_outcome", None)) if False else None
        # the density map: interpolant over (m-scaled, density) with linear continuation
        D = [I for I in interps.values() if I.yf(j) is tm.app("T_density", [j])]
        if len(D) != 1 or D[0].mode != "extrapolate" or D[0].kind != "linear":
            return be.Verdict(be.REFUTED, "SMT", witness={}, detail="mass in place is not computed from a linear density(m-scaled) map with linear continuation")
        D = D[0]
        pp_props = fl.fields["pvt_props"]
        pcols = pp_props.cols if hasattr(pp_props, "cols") else pp_props
        if D.xf(j) is not pcols["m-scaled"].get(j):
            return be.Verdict(be.REFUTED, "SMT", witness={}, detail="the density map is not over the scaled pseudopressure column")
        el = o.value.get(k)
        # identify the two sums: mass at time k and mass at time 0
        names = list(sums)
        body = {nm: sums[nm][2](j) for nm in names}
        at0 = [nm for nm in names if body[nm] is D.app(tm.app("PP", [tm.const(0), j]))]
        atk = [nm for nm in names if body[nm] is D.app(tm.app("PP", [k, j]))]
        if len(at0) != 1 or len(atk) != 1:
            return be.Verdict(be.REFUTED, "SMT", witness={}, detail=f"masses are not sums over the nodes of density(pp[k, j]) and density(pp[0, j]): {[str(b)[:60] for b in body.values()]}")
        Mk, M0 = tm.app(atk[0], (), tm.R), tm.app(at0[0], (), tm.R)
        L, m_i = tm.var("L"), fl.fields["m_i"]
        rhoL, rhoI = D.app(L), D.app(m_i)
        n_r = tm.toreal(nx)
        hyp = list(o.pc) + [tm.gt(rhoL, ZERO), tm.ge(rhoI, rhoL),          # density positive, non-decreasing (L <= m_i)
                            tm.ge(Mk, tm.mul(n_r, rhoL)),                     # sum monotonicity with density(pp[k,j]) >= density(L)  (C01: pp >= L)
                            tm.le(M0, tm.mul(n_r, rhoI)), tm.gt(M0, ZERO)]    # sum monotonicity with density(pp[0,j]) <= density(m_i) (C01: pp <= m_i)
        goal = tm.le(el, tm.sub(ONE, tm.div(rhoL, rhoI)))
        return with_models(be.prove_smt(goal, hyp, timeout_ms=20000, want={"mass_k": Mk, "mass_0": M0, "rho_L": rhoL, "rho_i": rhoI}), o)

    obs.append(Obligation("rf.density.ceiling", "in-place recovery[k] <= 1 - rho(L)/rho(m_i) where L is the lowest frac-face scaled pseudopressure applied so far (C01 bounds the field between L and m_i; density is non-decreasing in scaled pseudopressure; sums are monotone)", ceiling,
                          [resv.RF], "SMT", rt_replay(("rf.ceiling",))))

    def scale():
        v = None
        for kind in ("DataFrame", "dict"):
            o = c09.ret_of(c09.run_init(ctx, c09.INIT, "FlowProperties", c09.LONG, kind))
            obj, cols = c09.obj_of(o), c09.cols_of(o)
            msf = obj.fields["m_scaled_func"]
            calls = o.heap["ghost"].get("interp_calls", [])
            I = [I_ for (I_, qq) in calls if I_ is not msf and qq is c09.pi]
            if len(I) != 1:
                return be.Verdict(be.REFUTED, "CAS", witness={}, detail="cannot identify the scaling interpolant")
            I = I[0]
            c, mu, z, p_ = (c09.col(x, j) for x in ("compressibility", "viscosity", "z-factor", "pressure"))
            v = be.prove_equal_cas(I.yf(j), c * mu * z / (2 * p_), {"j": (0, 40)}, ints=("j",), seed=ctx.seed)
            if v.status != be.PROVED:
                v.detail = "the scaling column is not c mu z / (2 p): " + v.detail
                return with_models(v, o)
            if I.xf(j) is not p_ or cols["m-scaled"].get(j) is not tm.mul(c09.col("pseudopressure", j), I.app(c09.pi)):
                return be.Verdict(be.REFUTED, "CAS", witness={}, detail="m-scaled is not pseudopressure times the scaling column interpolated over pressure at p_i")
        return with_models(v, o)

    def scale_replay(w):
        import numpy as np
        import warnings
        warnings.simplefilter("ignore")
        mod = __import__("bluebonnet.flow.flowproperties", fromlist=["x"])
        for name, tb in c09.real_tables():
            if "compressibility" not in tb or "alpha" in tb:   # the statement is about tables WITHOUT a user-supplied diffusivity (C09 has the other branch)
                continue
            P = np.asarray(tb["pressure"], dtype=float)
            p_i = float(0.5 * (P[3] + P[4]))
            fp = mod.FlowProperties(tb, p_i)
            col = np.asarray(tb["compressibility"], dtype=float) * np.asarray(tb["viscosity"], dtype=float) * np.asarray(tb["z-factor"], dtype=float) / (2 * P)
            want = np.asarray(tb["pseudopressure"], dtype=float) * np.interp(p_i, P, col)
            got = np.asarray(fp.pvt_props["m-scaled"], dtype=float)
            if not np.allclose(got, want, rtol=1e-12):
                return {"reproduced": True, "input": {"table": name, "p_i": p_i}, "observed": got[:3].tolist(), "required": want[:3].tolist()}
        return {"reproduced": False}

    obs.append(Obligation("rf.scale", "FlowProperties: m-scaled == pseudopressure * interp(pressure, c mu z / (2 p))(p_i): the factor that turns the flux of scaled pseudopressure into recovered fraction", scale, [c09.INIT], "CAS", scale_replay))

    def plateau():
        # the attached fluid is any of: none, a real-gas FlowProperties (long table), a three-column one
        for cls, want in (("IdealReservoir", ONE - resv.pf / resv.p_init), ("SinglePhaseReservoir", tm.const(1))):
            f = ctx.engine.func(RES + cls + ".fvf_scale")
            for fl in ("none", "long", "short"):
                mk = lambda cls=cls, fl=fl: ([resv.make_reservoir(ctx, cls, None if fl == "none" else resv.make_fluid(ctx, cols=(None if fl == "long" else c09.SHORT))[0])], {})
                outs = [o for o in ctx.engine.run_paths(f, mk) if o.kind != "infeasible"]
                vals = {id(o.value): o.value for o in outs if o.kind == "return"}
                if len(vals) != 1 or any(o.kind != "return" for o in outs):
                    return be.Verdict(be.REFUTED, "CAS", witness={}, detail=f"{cls}.fvf_scale [fluid: {fl}]: the value depends on the attached fluid table or the call raises ({len(outs)} paths, {len(vals)} distinct values)")
                v = be.prove_equal_cas(tm.toreal(list(vals.values())[0]), tm.toreal(want), {"p_f": (100.0, 5000.0), "p_init": (5000.0, 9000.0), "pf_at_construction": (100.0, 5000.0), "pi_at_construction": (5000.0, 9000.0)}, seed=ctx.seed)
                if v.status != be.PROVED:
                    v.detail = f"{cls}.fvf_scale [fluid: {fl}]: " + v.detail
                    return v
        return v

    def plateau_replay(w):
        Ir, Sr = real(RES + "IdealReservoir"), real(RES + "SinglePhaseReservoir")
        a, b_ = Ir(10, 2000.0, 8000.0).fvf_scale(), Sr(10, 2000.0, 8000.0).fvf_scale()
        if not (close(a, 0.75, 1e-14) and b_ == 1):
            return {"reproduced": True, "input": {"p_f": 2000.0, "p_i": 8000.0, "fluid": None}, "observed": [float(a), float(b_)], "required": [0.75, 1]}
        # one object re-used for a drawdown sweep: the public fields are reassigned after construction
        r_ = Ir(10, 1000.0, 5000.0)
        r_.pressure_fracface, r_.pressure_initial = 4000.0, 8000.0
        if not close(r_.fvf_scale(), 0.5, 1e-14):
            return {"reproduced": True, "input": {"constructed with": {"p_f": 1000.0, "p_i": 5000.0}, "then reassigned": {"pressure_fracface": 4000.0, "pressure_initial": 8000.0}, "fluid": None}, "observed": float(r_.fvf_scale()), "required": 0.5}
        from ..rt import c01 as rt1
        for name in ("gas", "syn_kinked", "gas:desc"):
            fluid = rt1.make_fluid(name)
            p_i = rt1.P_INITIAL[name]
            for ratio in (0.25, 0.75):
                a, b_ = Ir(10, ratio * p_i, p_i, fluid).fvf_scale(), Sr(10, ratio * p_i, p_i, fluid).fvf_scale()
                if not (close(float(a), 1 - ratio, 1e-13) and b_ == 1):
                    return {"reproduced": True, "input": {"p_f": ratio * p_i, "p_i": p_i, "fluid": {"table": name, "table_params": rt1.table_params(name)}}, "observed": [float(a), float(b_)], "required": [1 - ratio, 1]}
        return {"reproduced": False}

    obs.append(Obligation("rf.plateau_scale", "IdealReservoir.fvf_scale() == 1 - p_f/p_i and SinglePhaseReservoir.fvf_scale() == 1", plateau, [RES + "IdealReservoir.fvf_scale", RES + "SinglePhaseReservoir.fvf_scale"], "CAS", plateau_replay))

    def flux_monotone_ideal():
        o, h = run_rf(ctx, "IdealReservoir", False)
        elk, elk1 = o.value.get(k), o.value.get(tm.sub(k, tm.const(1)))
        PP = lambda r_, c_: tm.app("PP", [r_, tm.const(c_)])
        two = tm.rconst(2)
        hyp = list(o.pc) + list(o.facts) + [qf(k) for qf in o.qfacts] + [tm.le(tm.const(1), k), tm.lt(k, nt)]
        hyp += [tm.le(tm.app("t", [tm.sub(k, tm.const(1))]), tm.app("t", [k]))]                       # precondition: non-decreasing time grid
        hyp += [tm.le(resv.pf, resv.p_init), tm.gt(resv.p_init, ZERO)]                                  # precondition: p_f <= p_i, p_i > 0
        for r_ in (k, tm.sub(k, tm.const(1))):
            hyp += [tm.ge(tm.sub(tm.sub(tm.mul(two, PP(r_, 1)), PP(r_, 0)), PP(r_, 2)), ZERO)]          # C01 ideal.concave.* at node 1 (interior for nx >= 3)
            hyp += [tm.le(PP(r_, 0), PP(r_, 1))]                                                        # C01 ideal.mono_x.* at the first pair
        return with_models(be.prove_smt(tm.ge(elk, elk1), hyp, timeout_ms=20000, want={"k": k}), o)

    def flux_monotone_replay(w):
        import numpy as np
        Ir = real(RES + "IdealReservoir")
        grids = {"alternating 1e-6 / 5e-2": np.concatenate([[0.0], np.cumsum(np.tile([1e-6, 5e-2], 30))]), "quadratic": np.linspace(0, 3, 200) ** 2}
        for sd in range(3):
            grids[f"lognormal(sigma=3) steps, seed {sd}"] = np.concatenate([[0.0], np.cumsum(np.random.default_rng(sd).lognormal(-6.0, 3.0, 60))])
        for nx_ in (3, 4, 12, 40):
            for ratio in (0.1, 0.95):
                for name, t in grids.items():
                    r_ = Ir(nx_, ratio * 8000.0, 8000.0)
                    r_.simulate(t)
                    rf = np.asarray(r_.recovery_factor(), dtype=float)
                    d = np.diff(rf)
                    if not np.isfinite(rf).all() or d.min() < -1e-12:
                        i_ = int(np.nanargmin(d))
                        return {"reproduced": True, "input": {"reservoir": "IdealReservoir", "nx": nx_, "p_f": ratio * 8000.0, "p_i": 8000.0, "time grid": name, "time": [float(x) for x in t]},
                                "observed": {"rf[i+1] - rf[i]": float(d[i_]), "i": i_}, "required": "rf[i+1] >= rf[i] - 1e-12 (constant drawdown)", "clause": "rf.monotone"}
        return rt_replay(("rf.monotone",))(w)

    obs.append(Obligation("rf.flux.nondecreasing.ideal", "IdealReservoir, every non-decreasing time grid, p_f <= p_i: recovery_factor()[k] >= recovery_factor()[k-1]: the frac-face flux stencil -u2 + 4 u1 - 3 u0 = (L u)_1 + 2 (u1 - u0) is non-negative on a concave, "
                          "non-decreasing level (C01 ideal.concave.*, ideal.mono_x.*), every trapezoid increment is, and the scale 1 - p_f/p_i is", flux_monotone_ideal, [resv.RF, RES + "IdealReservoir.fvf_scale"], "SMT", flux_monotone_replay))

    # ---------------- dependencies re-verified here
    c10obs = {o.id: o for o in c10.build(ctx)}
    c01obs = {o.id: o for o in c01.build(ctx)}
    c09obs = {o.id: o for o in c09.build(ctx)}
    from . import c04
    c04obs = {o.id: o for o in c04.build(ctx)}
    for src, rp_ in ((c04obs["single.step.uses_contracts"], rt_replay()), (c04obs["ideal.step.uses_contracts"], rt_replay()),
                     (c04obs["single.step.mesh_ratio"], rt_replay(("rf.modes_agree",))), (c04obs["single.step.rows"], rt_replay(("rf.modes_agree",))), (c10obs["recovery_factor.post"], rt_replay()), (c01obs["single.inv.preserve.lower"], rt_replay(("rf.ceiling",))), (c01obs["single.inv.preserve.upper"], rt_replay(("rf.ceiling",))),
                     (c01obs["single.step.rhs_consistent"], rt_replay(("rf.ceiling", "rf.modes_agree"))), (c09obs["init.frame"], rt_replay()),
                     (c01obs["ideal.inv.init"], flux_monotone_replay), (c01obs["ideal.step.k_nonneg"], flux_monotone_replay), (c01obs["ideal.inv.preserve.lower"], flux_monotone_replay), (c01obs["ideal.mono_x.preserve"], flux_monotone_replay),
                     (c01obs["ideal.concave.init"], flux_monotone_replay), (c01obs["ideal.concave.preserve"], flux_monotone_replay)):
        def both(w, a=src.replay, b=rp_):
            r1 = a(w) if a else None
            if r1 and r1.get("reproduced"):
                return r1
            return b(w)
        obs.append(Obligation("dep." + src.id, "[contract relied upon] " + src.statement, src.run, src.functions, src.backend, both))

    def canary():
        o, h = run_rf(ctx, "IdealReservoir", False)
        return be.prove_smt(tm.eq(o.value.get(tm.const(1)), ZERO), list(o.facts) + list(o.pc))

    obs.append(Obligation("canary.smt", "CANARY (must be refuted): recovery_factor()[1] == 0", canary, [resv.RF], "SMT", expect=be.REFUTED))
    if ctx.tier == "thorough":
        obs.append(lean_obligation(ctx, ['pyvc_sum_ge', 'pyvc_sum_le', 'pyvc_chord_between']))
    return obs


def bounded(ctx):
    from ..rt import c03 as rt
    return rt.run(ctx)
