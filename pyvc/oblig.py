"""Obligations, the check runner, evidence, ledger, known findings, replay files."""
from __future__ import annotations

import hashlib
import importlib
import json
import multiprocessing as mp
import os
import random
import sys
import time
import traceback

from . import backends as be
from . import symex as sx
from . import term as tm

ROOT = os.path.dirname(os.path.dirname(os.path.abspath(__file__)))
OUT = os.environ.get("PYVC_OUT", ROOT)  # evidence/ and replays/ go here (scratch runs of the seed matrix redirect them)
ERROR = "ERROR"

SEMANTICS = [
    "floats are mathematical reals; float literals denote the decimal rational written in the source; no NaN/inf except the literal np.inf",
    "division, log, sqrt and real powers are total in the logic; every use generates a well-definedness obligation under the precondition",
    "python int is unbounded; numpy int32/int64 arrays carry their width (overflow obligations); storing a real into an integer array truncates toward zero",
    "numpy arrays are (shape, index -> element) with a dtype tag; element-wise ops, scalar/trailing broadcasting, basic slices, boolean masks, stores and copies are modelled; aliases are tracked by identity",
    "pandas: a table is named columns of positional arrays and a pressure argument an array; label alignment of Series / DataFrame rows (non-default, permuted or offset indices) is NOT modelled - the bounded family 'container independence' (C09, C11, C12, C15, C16) evaluates it on the real code",
    "`while` loops whose body only rebinds local scalars are summarised by their LAST iteration from a havocked state: partial correctness only (no invariant inferred, termination not proved; well-definedness of the body is recorded against the havocked state)",
    "what the contract cannot know is explored both ways, one boolean per fact: isinstance(argument, int / float / numpy.generic) for a raw scalar argument (python number or numpy scalar), hasattr(caller-supplied callable, name), MinimizerResult.aborted / success",
    "a reservoir / from_table obligation is a statement about every returning path of the method (the runner repeats it per path while it stays proved)",
    "only explicit raise statements and the documented raises of modelled library calls are control flow",
    "evaluation order, short-circuiting and `is None` follow CPython; no concurrency, no recursion, no metaclasses",
    "extraction drops docstrings, annotations, comments, warnings.warn calls and the text of exception messages (class and path condition are kept)",
    "default arguments are evaluated per call; a mutable default (call / list / dict display) is outside the subset, never modelled as fresh",
    "default frame of every contract: the code under contract stores nothing into caller-owned arrays / tables / record arrays (checked on every run: a store refutes the obligation)",
    "objects under contract (Fluid, reservoirs) are built by the real constructor from one set of values and their public fields are then reassigned to the symbols of the contract (non-frozen dataclasses): state captured at construction shows as a dependence on *_at_construction symbols",
    "library calls with unchecked preconditions on caller data (interp1d(assume_sorted=True), np.interp: increasing abscissa) generate that precondition as an obligation",
    "each obligation runs under a CPU budget (600 s quick / 3600 s thorough) and each CAS normal-form attempt under a wall budget; exhausting one is UNDECIDED, never a verdict; PYTHONHASHSEED is pinned to 0",
]


class Obligation:
    def __init__(self, oid, statement, run, functions=(), backend="", replay=None, assumptions=(), expect=be.PROVED, bounded=False):
        self.id = oid
        self.statement = statement
        self.run = run
        self.functions = list(functions)
        self.backend = backend
        self.replay = replay  # callable(witness dict) -> dict(reproduced=bool, call=str, observed=…, required=…)
        self.assumptions = list(assumptions)
        self.expect = expect
        self.verdict = None
        self.trusted = []


class Ctx:
    def __init__(self, prop, tier, seed):
        self.prop = prop
        self.tier = tier
        self.seed = seed
        self.engine = sx.Engine()
        self.rng = random.Random(seed)
        self.notes = []


_OBLIGS = []
_CTX = None


def _run_one(i):
    ob = _OBLIGS[i]
    t0 = time.time()
    from . import libmodels as lm
    del lm.LIB_PRE_UNMET[:]
    del sx.ARG_DATA_WRITES[:]
    import signal

    class _ObTimeout(Exception):
        pass

    def _vt(signum, frame):
        raise _ObTimeout()

    # watchdog on the CPU time of this obligation (ITIMER_VIRTUAL: independent of the wall-clock alarms used inside);
    # an obligation that exhausts it is UNDECIDED, never a verdict and never a hang of the check
    cpu_budget = float(os.environ.get("PYVC_OB_CPU_S", "3600" if be.thorough() else "600"))
    try:
        signal.signal(signal.SIGVTALRM, _vt)
        signal.setitimer(signal.ITIMER_VIRTUAL, cpu_budget)
    except ValueError:
        pass
    try:
        from .contracts import resv as _resv
        _resv.PATH_SELECT[0], _resv.LAST_NPATHS[0] = 0, 1
        v = ob.run()
        if not isinstance(v, be.Verdict):
            raise TypeError(f"obligation {ob.id} returned {type(v).__name__}")
        k_ = 1
        while isinstance(v, be.Verdict) and v.status == be.PROVED and ob.expect == be.PROVED and k_ < _resv.LAST_NPATHS[0]:
            # simulate() has several returning paths on this tree: the obligation is a statement about every one of them
            _resv.PATH_SELECT[0] = k_
            v2 = ob.run()
            if isinstance(v2, be.Verdict) and v2.status != be.PROVED:
                v2.detail = f"[returning path {k_ + 1} of {_resv.LAST_NPATHS[0]} of simulate()] " + (v2.detail or "")
                v = v2
            k_ += 1
        _resv.PATH_SELECT[0] = 0
        if sx.ARG_DATA_WRITES and v.status == be.PROVED and ob.expect == be.PROVED:
            # default frame of every contract here: a function under contract stores nothing into caller-owned data
            # (arrays, tables, record arrays that existed when the call started) - on the unchanged tree none does.
            # Such a store changes what the NEXT call on the same data sees, so the per-call postcondition just proved
            # does not carry over to histories.
            names = sorted(set(map(str, sx.ARG_DATA_WRITES)))
            only_masked = all(n_.endswith("[masked store]") for n_ in names)
            # a store through a boolean mask writes only where the mask is true; whether it ever is depends on invariants this
            # obligation may not have: undecided (the bounded search of the replay decides), not refuted
            v = be.Verdict(be.UNKNOWN if only_masked else be.REFUTED, "FRAME", witness=(None if only_masked else {}), detail=("a masked store into caller-owned data " if only_masked else "the code under contract stores into caller-owned data ") + f"{names} (arguments, or arrays held by the object, that existed before the call): the caller's data / the stored state is changed by a call that should only read it" + (" - if the mask is ever non-empty" if only_masked else ""), seconds=time.time() - t0)
        if lm.LIB_PRE_UNMET and v.status == be.PROVED and ob.expect == be.PROVED:
            # the code under contract calls a library function whose precondition the code does not establish: the
            # facts assumed about that call (and hence this proof) are void
            worst = "refuted" if any(s_ == "refuted" for s_, _ in lm.LIB_PRE_UNMET) else "unknown"
            text = "; ".join(sorted({t_ for _, t_ in lm.LIB_PRE_UNMET}))
            v = be.Verdict(be.REFUTED if worst == "refuted" else be.UNKNOWN, "PRE", witness=({} if worst == "refuted" else None), detail="library precondition not established on a path of the code under contract: " + text, seconds=time.time() - t0)
    except (_ObTimeout, be._StepTimeout):
        v = be.Verdict(be.UNKNOWN, "BUDGET", detail=f"budget exhausted ({cpu_budget:.0f} s CPU per obligation / CAS rewrite limit): undecided", seconds=time.time() - t0)
    except sx.OutOfSubset as e:
        v = be.Verdict(be.UNKNOWN, "SYMEX", detail=f"OUT-OF-SUBSET: {e}", seconds=time.time() - t0)
        v.out_of_subset = True
    except tm.NotDifferentiable as e:
        v = be.Verdict(be.UNKNOWN, "SYMEX", detail=f"OUT-OF-SUBSET: the extracted term is not differentiable in the variable of the contract ({e}): abs / trunc / mod of it", seconds=time.time() - t0)
        v.out_of_subset = True
    except tm.NotScalar as e:
        v = be.Verdict(be.UNKNOWN, "SYMEX", detail=f"OUT-OF-SUBSET: a {type(e.args[0]).__name__} where the models handle scalars only (e.g. an index array, an array-valued argument of a scalar model)", seconds=time.time() - t0)
        v.out_of_subset = True
    except sx.Raised as e:
        v = be.Verdict(be.UNKNOWN, "SYMEX", detail=f"OUT-OF-SUBSET: interpreted code raised {e.exc} outside a modelled path ({e.msg})", seconds=time.time() - t0)
        v.out_of_subset = True
    except Exception as e:  # noqa: BLE001 - checker error, never a violation
        v = be.Verdict(ERROR, "ENGINE", detail=f"{type(e).__name__}: {e}\n" + "".join(traceback.format_exc().splitlines(True)[-6:]), seconds=time.time() - t0)
    try:
        signal.setitimer(signal.ITIMER_VIRTUAL, 0)
    except ValueError:
        pass
    v.seconds = time.time() - t0
    if os.environ.get("PYVC_SURVEY_WRITES") and sx.ARG_DATA_WRITES:
        sys.stderr.write(f"SURVEY {ob.id}: writes to caller-owned data {sorted(set(map(str, sx.ARG_DATA_WRITES)))}\n")
    models = sorted(getattr(v, "models", []) or [])
    return i, v.status, v.backend, v.witness, v.detail, v.seconds, v.stats, getattr(v, "out_of_subset", False), models


def run_obligations(obligs, procs=None):
    global _OBLIGS
    _OBLIGS = obligs
    procs = procs or min(16, max(1, len(obligs)))
    if procs > 1 and len(obligs) > 1:
        ctx = mp.get_context("fork")
        with ctx.Pool(procs) as pool:
            res = pool.map(_run_one, range(len(obligs)), chunksize=1)
    else:
        res = [_run_one(i) for i in range(len(obligs))]
    for i, status, backend, witness, detail, seconds, stats, oos, models in res:
        v = be.Verdict(status, backend, witness, detail, seconds, stats)
        v.out_of_subset = oos
        v.models = models
        obligs[i].verdict = v
    return obligs


def load_known_findings():
    p = os.path.join(ROOT, "known_findings.json")
    if not os.path.exists(p):
        return []
    return json.load(open(p))["findings"]


def fingerprint(text):
    return hashlib.sha256(text.encode()).hexdigest()[:16]


def jsonable(x):
    if isinstance(x, dict):
        return {str(k): jsonable(v) for k, v in x.items()}
    if isinstance(x, (list, tuple, set)):
        return [jsonable(v) for v in x]
    if isinstance(x, (int, float, str, bool)) or x is None:
        return x
    try:
        import numpy as np

        if isinstance(x, np.ndarray):
            return x.tolist()
        if isinstance(x, np.generic):
            return x.item()
    except Exception:  # noqa: BLE001
        pass
    return str(x)


def main(argv=None):
    argv = list(sys.argv[1:] if argv is None else argv)
    if not argv:
        print("usage: check <property id> [--tier quick|thorough] [--replay file]")
        return 3
    prop = argv[0]
    tier = os.environ.get("VERIF_TIER", "quick")
    replay_file = None
    only = None
    i = 1
    while i < len(argv):
        if argv[i] == "--tier":
            tier = argv[i + 1]
            i += 2
        elif argv[i] == "--replay":
            replay_file = argv[i + 1]
            i += 2
        elif argv[i] == "--only":  # debugging aid: run a subset of the obligations (no ledger check, no evidence)
            only = argv[i + 1].split(",")
            i += 2
        else:
            i += 1
    seed = int(os.environ.get("VERIF_SEED", "0") or 0)
    os.environ["PYVC_TIER"] = tier
    t0 = time.time()
    try:
        mod = importlib.import_module(f"pyvc.contracts.{prop.lower()}")
    except ModuleNotFoundError:
        print(f"no contract module for {prop}")
        return 3
    ctx = Ctx(prop, tier, seed)
    if replay_file:
        return do_replay(mod, ctx, replay_file)
    try:
        obligs = mod.build(ctx)
    except Exception:  # noqa: BLE001
        traceback.print_exc()
        print(f"CHECKER-ERROR property={prop} building obligations failed")
        return 3
    if only:
        obligs = [o for o in obligs if any(o.id.startswith(x) for x in only)]
        run_obligations(obligs, procs=1 if len(obligs) == 1 else None)
        for o in obligs:
            print(o.id, o.verdict.status, o.verdict.backend, f"{o.verdict.seconds:.1f}s", (o.verdict.detail or "")[:600], o.verdict.witness)
        return 0
    # ---- ledger (vacuity guard): the set of obligation ids is fixed per property
    ledger_path = os.path.join(ROOT, "baseline", "obligations.json")
    ledger = json.load(open(ledger_path)) if os.path.exists(ledger_path) else {}
    ids = [o.id for o in obligs]
    if len(set(ids)) != len(ids):
        print("CHECKER-ERROR duplicate obligation ids")
        return 3
    want = ledger.get(prop, {}).get(tier) or ledger.get(prop, {}).get("quick")
    if os.environ.get("PYVC_WRITE_LEDGER"):
        ledger.setdefault(prop, {})[tier] = ids
        os.makedirs(os.path.dirname(ledger_path), exist_ok=True)
        json.dump(ledger, open(ledger_path, "w"), indent=1)
    elif want is None or not ids:
        print(f"CHECKER-ERROR property={prop}: no ledger entry / zero obligations")
        return 3
    elif tier == "quick" and set(ids) != set(want) or tier != "quick" and not set(want) <= set(ids) and not set(ledger.get(prop, {}).get("quick", [])) <= set(ids):
        print(f"CHECKER-ERROR property={prop}: obligation set differs from the ledger: missing {sorted(set(want) - set(ids))} extra {sorted(set(ids) - set(want))}")
        return 3

    run_obligations(obligs)

    findings = [f for f in load_known_findings() if f["property"] == prop]
    open_findings = {(f["obligation"]): f for f in findings if f["status"] == "open"}
    violations = []
    known = []
    undecided = []
    errors = []
    canaries_ok = True
    os.makedirs(os.path.join(OUT, "replays"), exist_ok=True)
    for fn in os.listdir(os.path.join(OUT, "replays")):
        if fn.startswith(prop + "-"):
            os.remove(os.path.join(OUT, "replays", fn))
    for ob in obligs:
        v = ob.verdict
        if ob.expect == be.REFUTED:
            # canary: a deliberately false obligation generated from the real code must be refuted
            if v.status != be.REFUTED:
                canaries_ok = False
                if getattr(v, "out_of_subset", False):
                    undecided.append(ob)  # the canary could not be generated from this tree: undecided, not an engine error
                else:
                    errors.append((ob, f"canary not refuted: {v.status} {v.detail[:200]}"))
            continue
        if v.status == be.PROVED:
            continue
        if v.status == ERROR:
            errors.append((ob, v.detail))
            continue
        if v.status == be.UNKNOWN:
            # undecided (time-out / incomplete / out of subset): never a violation by itself.  The obligation's
            # bounded search on the real code (its replay with an empty witness) decides whether a concrete failing
            # input exists; only then is it reported, with that input.
            rep = None
            if ob.replay is not None:
                try:
                    rep = ob.replay({})
                except Exception as e:  # noqa: BLE001
                    rep = None
            f_open = open_findings.get(ob.id)
            if rep and rep.get("reproduced") and f_open is not None:
                # the obligation could not be decided on this tree, and what its bounded search finds is the recorded known
                # finding of this very obligation: still the known finding, not a new violation
                known.append((ob, f_open))
                continue
            if rep and rep.get("reproduced"):
                path = os.path.join("replays", f"{prop}-{ob.id.replace('/', '_')}.json")
                json.dump(jsonable({"property": prop, "obligation": ob.id, "statement": ob.statement, "functions": ob.functions, "backend": v.backend,
                                    "prover_output": "UNDECIDED by the prover (" + (v.detail or "")[:300] + "); concrete failing input found by the obligation's bounded search on the real code",
                                    "witness": {}, "replay": rep, "bounded": False}), open(os.path.join(OUT, path), "w"), indent=1)
                violations.append((ob, path, True))
            else:
                undecided.append(ob)
            continue
        # REFUTED: replay the witness on the real code
        rep = None
        if ob.replay is not None and v.witness is not None:
            try:
                rep = ob.replay(v.witness)
            except Exception as e:  # noqa: BLE001
                rep = {"reproduced": False, "error": f"{type(e).__name__}: {e}"}
        f = open_findings.get(ob.id)
        if f is not None and (f.get("fingerprint") in (None, "", getattr(v, "fingerprint", None)) or finding_matches(f, ob, v, rep)):
            known.append((ob, f))
            continue
        path = os.path.join("replays", f"{prop}-{ob.id.replace('/', '_')}.json")
        json.dump(jsonable({
            "property": prop, "obligation": ob.id, "statement": ob.statement, "functions": ob.functions,
            "backend": v.backend, "prover_output": v.detail, "witness": v.witness, "replay": rep,
            "source": [ctx.engine.source_of(q) for q in ob.functions if ":" in q and _resolvable(ctx, q)],
        }), open(os.path.join(OUT, path), "w"), indent=1)
        violations.append((ob, path, bool(rep and rep.get("reproduced"))))

    # ---- bounded layer (labelled bounded; never counted as proved)
    bounded = None
    if hasattr(mod, "bounded"):
        try:
            bounded = mod.bounded(ctx)
        except Exception:  # noqa: BLE001
            bounded = {"error": traceback.format_exc()[-1500:], "evaluations": 0, "violations": []}
            errors.append((None, "bounded layer crashed: " + bounded["error"][-300:]))
        for bv in bounded.get("violations", []):
            f = next((f for f in findings if f["status"] == "open" and f.get("bounded_key") and f["bounded_key"] == bv.get("key")), None)
            if f is not None:
                known.append((None, f))
                continue
            path = os.path.join("replays", f"{prop}-bounded-{fingerprint(json.dumps(jsonable(bv), sort_keys=True))}.json")
            json.dump(jsonable({"property": prop, "obligation": "bounded:" + str(bv.get("clause")), "bounded": True, **bv}), open(os.path.join(OUT, path), "w"), indent=1)
            violations.append((None, path, True))

    # an undecided / out-of-subset obligation whose property also shows a concrete bounded violation is
    # already reported through that violation; otherwise it stays undecided (exit 2), never a violation
    for ob, f in known:
        what = f["description"]
        print(f"KNOWN-FINDING: property={prop} {what}")
    for ob, path, reproduced in violations:
        suffix = "" if reproduced else " no-failing-input-found"
        name = ob.id if ob is not None else "bounded"
        print(f"VIOLATION property={prop} replay={path}{suffix}   [obligation {name}]")
    for ob in undecided:
        print(f"UNDECIDED property={prop} obligation={ob.id} {ob.verdict.backend}: {ob.verdict.detail[:300]}")
    for ob, msg in errors:
        print(f"CHECKER-ERROR property={prop} obligation={ob.id if ob else '-'}: {msg[:600]}")

    real = [o for o in obligs if o.expect != be.REFUTED]
    discharged = [o for o in real if o.verdict.status == be.PROVED]
    wall = time.time() - t0
    write_evidence(mod, ctx, obligs, real, discharged, known, violations, undecided, errors, bounded, wall)
    print(f"{prop} tier={tier}: obligations={len(real)} discharged={len(discharged)} known-findings={len(known)} violations={len(violations)} undecided={len(undecided)} errors={len(errors)} canaries={'ok' if canaries_ok else 'FAILED'} wall={wall:.1f}s"
          + (f" bounded-evaluations={bounded.get('evaluations')}" if bounded else ""))
    if violations:
        return 1
    if errors:
        return 3
    if undecided:
        return 2
    return 0


def _resolvable(ctx, q):
    try:
        ctx.engine.func(q)
        return True
    except Exception:  # noqa: BLE001
        return False


def finding_matches(f, ob, v, rep):
    fp = f.get("fingerprint")
    return not fp or fp in (v.detail or "") or fp == (rep or {}).get("fingerprint")


def write_evidence(mod, ctx, obligs, real, discharged, known, violations, undecided, errors, bounded, wall):
    prop, tier = ctx.prop, ctx.tier
    level = getattr(mod, "LEVEL", "proof")
    funcs = []
    seen = set()
    for ob in obligs:
        for q in ob.functions:
            if q in seen:
                continue
            seen.add(q)
            try:
                info = ctx.engine.source_of(q)
            except Exception:  # noqa: BLE001
                info = {"qualname": q, "note": "not resolvable on this tree"}
            funcs.append(info)
    trusted = set()
    for ob in obligs:
        trusted.update(ob.assumptions)
        trusted.update(getattr(ob.verdict, "models", []) or [])
    trusted.update(getattr(mod, "TRUSTED", []))
    per = []
    for ob in obligs:
        v = ob.verdict
        per.append({"id": ob.id, "statement": ob.statement, "backend": v.backend, "verdict": v.status,
                    "canary": ob.expect == be.REFUTED, "seconds": round(v.seconds, 4), "detail": (v.detail or "")[:300],
                    "stats": v.stats, "functions": ob.functions})
    samples = [{"obligation": o["id"], "statement": o["statement"], "backend": o["backend"], "verdict": o["verdict"]} for o in per[:3]]
    cov = {
        "obligations": len(real),
        "discharged": len(discharged),
        "checker_cmd": f"bin/check {prop} --tier {tier}",
        "trusted_base": sorted(trusted),
        "functions_under_contract": funcs,
        "per_obligation": per,
        "samples": samples,
        "canaries": [o.id for o in obligs if o.expect == be.REFUTED],
        "known_findings_matched": [f["id"] for _, f in known],
        "undecided": [o.id for o in undecided],
        "solver_seconds": round(sum(o.verdict.seconds for o in obligs), 3),
        "explanation": getattr(mod, "EXPLANATION", ""),
        "evaluations": len(obligs) + (bounded.get("evaluations", 0) if bounded else 0),
        "distinct_nontrivial": len({o.id for o in real}) + (bounded.get("distinct", 0) if bounded else 0),
        "rule": "one case per named obligation generated from the AST of /repo/src (distinct ids, each a non-trivial VC discharged by the named back end); bounded cases are counted separately under 'bounded' and are never part of obligations/discharged",
    }
    if bounded:
        cov["bounded"] = {k: v for k, v in bounded.items() if k != "violations"}
        cov["bounded"]["label"] = "BOUNDED stand-in: run-time evaluation of the contract on the real code over a finite stated family; not proof"
        cov["bounded"]["violations"] = len(bounded.get("violations", []))
    ev = {
        "property_id": prop, "tier": tier, "seed": ctx.seed, "level": level, "coverage": cov,
        "assumptions": SEMANTICS + list(getattr(mod, "ASSUMPTIONS", [])),
        "wall_s": round(wall, 2), "violations": len(violations),
    }
    os.makedirs(os.path.join(OUT, "evidence"), exist_ok=True)
    json.dump(jsonable(ev), open(os.path.join(OUT, "evidence", f"{prop}.json"), "w"), indent=1)


def do_replay(mod, ctx, path):
    data = json.load(open(path if os.path.isabs(path) else os.path.join(ROOT, path)))
    if data.get("bounded"):
        if hasattr(mod, "replay_bounded"):
            r = mod.replay_bounded(ctx, data)
            print(json.dumps(jsonable(r), indent=1))
            return 1 if r.get("reproduced") else 0
        print("no bounded replay available")
        return 3
    obligs = {o.id: o for o in mod.build(ctx)}
    ob = obligs.get(data["obligation"])
    if ob is None or ob.replay is None:
        print(f"obligation {data['obligation']} has no replay on this tree; recorded prover output:\n{data.get('prover_output')}")
        return 3
    r = ob.replay(data["witness"])
    print(json.dumps(jsonable(r), indent=1))
    return 1 if r.get("reproduced") else 0
