"""Bounded stand-in layer: run-time evaluation of contracts on the REAL code over finite, stated
families of inputs.  Labelled bounded everywhere; never counted as proved."""
from __future__ import annotations

import signal
from contextlib import contextmanager


class Timeout(Exception):
    pass


@contextmanager
def time_limit(seconds):
    def handler(signum, frame):
        raise Timeout()

    old = signal.signal(signal.SIGALRM, handler)
    signal.setitimer(signal.ITIMER_REAL, seconds)
    try:
        yield
    finally:
        signal.setitimer(signal.ITIMER_REAL, 0)
        signal.signal(signal.SIGALRM, old)


class Bounded:
    def __init__(self, family):
        self.family = family
        self.evaluations = 0
        self.keys = set()
        self.violations = []
        self.samples = []
        self.clauses = {}

    def case(self, clause, key, ok, **info):
        self.evaluations += 1
        self.keys.add((clause, key))
        self.clauses[clause] = self.clauses.get(clause, 0) + 1
        if len(self.samples) < 4 and clause not in {s["clause"] for s in self.samples}:
            self.samples.append({"clause": clause, "case": key, **{k: v for k, v in info.items() if k in ("input", "observed")}})
        fk = info.get("finding_key")
        if not ok and fk and any(v.get("key") == f"{clause}:{fk}" for v in self.violations):
            return  # one representative per known-finding key; they never use up the room of other violations
        if not ok and (fk or sum(1 for v in self.violations if not v.get("key")) < 5):
            self.violations.append({"clause": clause, "key": f"{clause}:{info.get('finding_key', '')}" if info.get("finding_key") else None, "case": key, **info})

    def result(self):
        return {"family": self.family, "evaluations": self.evaluations, "distinct": len(self.keys), "per_clause": self.clauses,
                "samples": self.samples, "violations": self.violations}
