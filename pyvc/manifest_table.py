"""Source of MANIFEST.json (bin/mkmanifest)."""

NOTES = ("Contract-based deductive verification of the real code: see DESIGN.md (section 0 = as built). Exit codes of bin/check: 0 held, 1 VIOLATION, 2 undecided (never a violation), 3 checker error. "
         "Common to every check: the contracts carry a default frame (no store into caller-owned arrays / tables / record arrays; a store refutes the obligation, back end FRAME), preconditions of library calls on caller data "
         "(increasing abscissa for np.interp / interp1d(assume_sorted=True)) are obligations (back end PRE), objects under contract are built by the real constructor and their public fields reassigned afterwards, "
         "the CAS numeric pass evaluates the corners of every parameter box, each obligation has a CPU budget (exhausted = undecided) and the hash seed is pinned. pandas label alignment is not modelled (tables are named positional arrays): the bounded family 'container independence' decides it for C09/C11/C12/C15/C16. Clauses that depend on floating-point rounding or on an "
         "optimiser / iterative routine are decided by the bounded run-time layer only and are labelled bounded in the evidence. Seeded changes (7 rounds by independent sub-agents + reverted fixes) and behaviour-preserving "
         "changes with the checks that report them: seeded/RESULTS.jsonl, seeded_equivalent/RESULTS.jsonl, DESIGN.md 0.6.")

_PENDING = "check not built yet in this round (contracts planned in DESIGN.md section 3); will move to checks when its obligations are discharged"

CHECKS = {
    "C01": {
        "category": "proof",
        "text": "The time loop of simulate() (both classes) is summarised exactly as the recurrence row[i+1] = body(row[i], i) by executing the body once at a symbolic step with the contracts of _build_matrix and _solve in place. Proved by induction over that recurrence, each step a quantifier-free SMT obligation at a Skolem arg-max/arg-min: level 0 within bounds, frac-face right-hand side uses the matrix's own coefficient, mesh numbers non-negative, upper/lower bound preserved, spatial monotonicity preserved under constant drawdown, the only self-reproducing level is the constant m_f (0 for the ideal reservoir); IdealReservoir is non-increasing in time at every node on every non-decreasing time grid (invariant: each level is discretely concave, (L u)_j >= 0, preserved because the step matrix I + k L commutes with the stencil; then u_i[j] - x_j = k (L x)_j >= 0); the callee contracts and FlowProperties.valid() are re-verified as dependency obligations. 26 obligations. For SinglePhaseReservoir monotonicity in time has no inductive invariant (the frac-face row's right-hand side is indefinite; it is in fact false on jumping step sizes: known finding F3) and convergence to the steady state is a limit: BOUNDED run-time clauses.",
        "note": "Exact linear solve (C04), reals, interp1d/min/max models, arg-max existence and induction on the step index are trusted schemas; time grid non-decreasing and p_f <= p_i inside the table are preconditions.",
        "technique": "VC generation from the AST with loop recurrence summarisation; induction with explicit instantiation, SMT (z3 NRA); bounded run-time contracts for time-monotonicity of the single-phase class and convergence to the steady state",
    },
    "C02": {
        "category": "other",
        "text": "Proved: the scheme is the backward-Euler finite-difference discretisation of the documented boundary-value problem - interior row exact on quadratics with k = dt a/h^2, mirror-ghost closure at the outer boundary, ghost-value closure at the fracture face (row 0 of the extracted step), one mesh constant equal to the documented 1/h^2 with domain length within 2/(nx-1) of 1, uniform initial state - plus the step contract (C04), 'field is a function of the arguments only' (C10), recovery = flux stencil + trapezoid and the FVF scale as re-verified dependencies (20 obligations). Stability is C01. Convergence and its rate are limit statements: BOUNDED ladders against the closed-form Fourier series and an independent method-of-lines reference. Level 'other'.",
        "note": "Lax equivalence (consistency + stability => convergence) is textbook and not formalised; contracts of _build_matrix/_solve re-verified.",
        "technique": "VC generation from the AST (callee contracts + loop recurrence); SMT consistency lemmas; bounded convergence ladders",
    },
    "C03": {
        "category": "other",
        "text": "Proved: both recoveries are 0 at the first time, the in-place recovery never exceeds 1 - rho(L)/rho(m_i) (C01 lower/upper bounds + monotone density map + monotone finite sums), the scaling factor is the interpolant of c mu z/(2p) at p_i, FVF scales, the flux-based recovery of the ideal reservoir is non-decreasing on every non-decreasing time grid (flux stencil = (L u)_1 + 2 (u_1 - u_0) >= 0 on a concave non-decreasing level, C01), flux stencil / trapezoid over stored times / frames as dependencies (20 obligations). Agreement of flux-based and in-place recovery within first-order error shrinking under refinement, monotone recovery of the single-phase class and the ideal plateau are a-priori error statements: BOUNDED run-time contracts on exactly consistent synthetic tables and the shipped tables. Level 'other'.",
        "note": "Sum monotonicity and monotone piecewise-linear interpolation are trusted schemas; 'consistent table' enters as density positive and non-decreasing in scaled pseudopressure.",
        "technique": "VC generation from the AST; SMT/CAS lemmas over the recovery terms; bounded run-time contracts for the error statements",
    },
    "C04": {
        "category": "proof",
        "text": "_build_matrix is proved against its contract (three diagonals of the right lengths, entries 1+2k / 1+k / -k[r+1] / -k[r], M-matrix corollaries), _solve against 'returns x with A x = b on every path', and the loop body of both simulate() methods against the step contract: stored row = _solve(_build_matrix(kt_h2), b) for every i, kt_h2 = (t[i+1]-t[i]) C(nx) alpha_s(previous level) with one positive mesh constant, interior and no-flow rows of the documented scheme. 10 obligations; residuals on real runs are a BOUNDED clause.",
        "note": "spsolve idealised as exact; sparse.diags model; the clip min(pp, m_i) is the identity under C01's invariant (hypothesis).",
        "technique": "modular VC generation from the AST (callee contracts + loop recurrence); SMT (z3); bounded run-time residual check",
    },
    "C10": {
        "category": "proof",
        "text": "simulate (both classes, with and without a schedule), recovery_factor and recovery_factor_interpolator are executed symbolically from every relevant pre-state (fresh / simulated / simulated with a cached recovery): frames from the log of attribute writes and array versions (only time, pseudopressure and the cache; constructor fields untouched; no write before a rejection; stored field never modified through a view), cache dropped by simulate, stored field a function of the arguments only, recovery == RF(current state) independent of the cache, interpolator over (time, cache or RF(current state)) with fill (0, last), RuntimeError before any simulate. 9 obligations. All call sequences up to length 4/5: BOUNDED clause.",
        "note": "History equivalence is an induction over these method contracts (meta-argument); cumulative_trapezoid / interp1d models.",
        "technique": "VC generation from the AST with heap frames (write log, array versions) over all pre-states; CAS for the recovery formulas; bounded call-sequence enumeration",
    },
    "C17": {
        "category": "proof",
        "text": "Times enter the time step and the flux quadrature only through differences (terms of the recurrence compared under t -> t+s by SMT); a constant schedule yields exactly the scalar setting's row 0 and step body; simulate returns iff len(schedule) == len(time) and raises ValueError before writing anything otherwise; RuntimeError before simulate; interpolator nodes/fill from the interp1d model. 6 obligations. Rounding-level agreement of shifted real runs: BOUNDED clause.",
        "note": "Loop recurrence summarisation and library models as in C04/C10.",
        "technique": "VC generation from the AST; relational SMT obligations on the extracted recurrence; bounded run-time contract for float rounding",
    },
    "C11": {
        "category": "proof",
        "text": "Every array-capable correlation (oil FVF, solution GOR, Spivey compressibility, five water correlations, four Fluid methods) is executed symbolically on an array of symbolic length once per dtype (float64, float32, int64, int32, and with python-int temperature/API/GOR for integer arrays); element j is proved equal to the scalar call's own term by case split over the branch conditions, the measure-zero case p == p_b decided by SMT; result dtype floating, input shape, input not written; int32 overflow obligations under 0<=p<=30000. 45 obligations. Strided views, length 0/1 and float32 rounding: BOUNDED run-time contracts.",
        "note": "numpy dtype/promotion and mask models assumed (NEP 50 weak python scalars); reals for floats, so float32 precision is only covered by the bounded layer.",
        "technique": "VC generation from the AST over symbolic-length typed arrays; CAS term equality by cases + SMT feasibility of boundary cases; bounded run-time contracts for layout/precision; bounded run-time family 'container independence' for pandas row labels (outside the array model)",
    },
    "C12": {
        "category": "proof",
        "text": "Continuity at p_b (GOR, FVF, density, viscosity) and the inverse pair are CAS identities on the branch terms extracted from oil.py; ordering clauses are sign lemmas over the whole box by interval branch-and-bound: dRs/dp>0, dBo/dp>0 below, exponent of the undersaturated FVF decreasing (cut z0 discovered automatically, its range proved), d mu_live/dR<0 on the proved ranges of mu_dead and Rs, c_o>0, mu>0; branch selection equivalent to p>=p_b for all inputs (SMT); array forms inherit everything through the element-wise obligations. 21 obligations.",
        "note": "chain-rule composition of two sign lemmas for viscosity and 'monotone exponent => monotone FVF' are argued by hand; sympy rewriting re-checked numerically; reals for floats.",
        "technique": "VC generation from the AST; CAS identities + outward-rounded interval branch-and-bound with automatically discovered cuts; SMT for branch conditions; bounded run-time family 'container independence' for pandas row labels (outside the array model)",
    },
    "C13": {
        "category": "proof",
        "text": "Each clause of C13 is an identity between terms extracted from the AST of oil.py/water.py/gas.py on every run; the hand-coded derivative is compared with the exact symbolic derivative of the parent's own term and proved equal for every input of the box by CAS normal form (sympy, exact rationals); branch selection at the bubble point is an SMT obligation. All 8 obligations must be discharged.",
        "note": "Reals for floats; sympy normal forms and pyvc's differentiation rules are trusted (cross-checked at 50 digits per run); z_factor_DAK is an uninterpreted function (both sides use the same Z).",
        "technique": "VC generation from the AST + CAS identity proof (sympy) and SMT (z3) over contracts of the real functions",
    },
    "C05": {
        "category": "proof",
        "text": "Scaling law (M*rf(t/tau), linearity, rescaling), Bounds validation, guess regularisation (finite and half-infinite bounds) and containment / fixed-tau clauses of fit() are SMT/CAS obligations generated from the AST of forecast.py with rf uninterpreted; 10 obligations. The round-trip clause (fitting noise-free data recovers M, tau) cannot be proved (optimiser convergence) and is a BOUNDED run-time contract, reported separately.",
        "note": "Assumed contract of scipy.optimize.curve_fit (ValueError unless lo<=p0<=hi; result within bounds); reals for floats; 'malformed' = wrong length or lo>=hi.",
        "technique": "VC generation from the AST, path enumeration over fresh and previously fitted forecasters, SMT (z3) + CAS + frame (reads) clause; bounded run-time contract for the round trip",
    },
    "C06": {
        "category": "other",
        "text": "z_factor_DAK's postcondition is derived from the root finder's contract: the closure handed to brentq is extracted from the AST and shown to be the DAK residual of the returned Z (CAS), to change sign across the code's bracket on the whole rectangle and to be strictly monotone (interval branch-and-bound), with Z_eos(0)=1; all density coefficients but the first equal the published equation. The first coefficient differs (known finding F1), so the level is 'other', not proof. Hall-Yarbrough agreement is a BOUNDED clause.",
        "note": "brentq idealised (exact root when signs differ, tolerances <= 1e-10 demanded); 'strictly increasing continuous => unique continuous root' is a textbook lemma not re-proved; sympy rewriting re-checked at 50 digits.",
        "technique": "VC generation from the AST; CAS identities + outward-rounded interval branch-and-bound; Hall-Yarbrough: while loop summarised by its last iteration (partial correctness), CAS identities against the published equation as a sufficient condition, termination and agreement by a bounded run-time contract",
    },
    "C07": {
        "category": "other",
        "text": "Density*FVF identities for gas, oil (both sides of the bubble point) and water, the real-gas-law form, 'same Z everywhere', purity, compressibility = d ln(rho)/dp by implicit differentiation, viscosity positive and increasing are CAS / INT obligations on terms extracted from the real source with Z opaque. cg.implicit fails in the first density coefficient (known finding F2) while cg.published proves every term against the published equation, so other defects are not masked; hence 'other'.",
        "note": "Z_DAK uninterpreted with the C06 postconditions (0.05<Z<5, rho_r increasing in p_r); sympy + pyvc.diff trusted and re-checked numerically.",
        "technique": "VC generation from the AST; CAS identities (sympy) + interval branch-and-bound",
    },
    "C14": {
        "category": "proof",
        "text": "relative_permeabilities is executed symbolically on a record array of symbolic length: the eight paths give 'raises ValueError iff a record does not sum to one or a parameter is out of range'; on the returning path well-definedness of every division / real power, 0 <= k <= k_max, k = 0 at or below residual and monotonicity are SMT obligations at symbolic record indices; the two-phase helper's columns follow from the linspace model. 6 obligations.",
        "note": "Real powers uninterpreted with three textbook axioms instantiated at the goal's power terms; np.any / pandas table models assumed; residuals summing to < 1 is part of admissibility.",
        "technique": "VC generation from the AST over symbolic-length record arrays; SMT (z3) with instantiated power axioms",
    },
    "C08": {
        "category": "other",
        "text": "Proved: the quadrature integrand extracted from pseudopressure_Hussainy's closure, the column handed to cumulative_trapezoid in build_pvt_gas and the stand-alone transform all integrate 2p/(mu Z) (CAS); the table column equals the stand-alone transform of its own columns increment by increment; trapezoid increments positive; quadrature limits are (pressure_standard, pressure); integrand positive on the box (INT). 7 obligations. 'Agree to quadrature accuracy' is an a-priori error bound no prover here derives: BOUNDED run-time contract (routes_agree, additive, zero_at_reference, increasing on real runs) - hence level 'other'.",
        "note": "scipy quad idealised as the exact integral; cumulative_trapezoid model; Z in (0.05,5) and viscosity>0 from C06/C07.",
        "technique": "VC generation from the AST (closure handed to quad extracted symbolically); CAS + INT + SMT; bounded run-time contract for numerical agreement",
    },
    "C09": {
        "category": "proof",
        "text": "FlowProperties.__init__ (both branches), FlowPropertiesSimple.__init__ and rescale_pseudopressure are executed symbolically on tables of symbolic length (DataFrame and dict): column validation, p_i-outside rejection, frame (caller's table and arrays untouched), factor > 0, m-scaled strictly increasing at nodes and as an interpolant, m_i == m_scaled_func(p_i), alpha-branch bound 1 <= m_i <= 1 + (dm)^2/(4 m_s m_s+1) with equality 1 at nodes, alpha nodes 1/(c mu), every lookup within [min, max] > 0, rescale endpoints 0/1. 15 SMT/CAS/frame obligations with the interp1d contract instantiated at Skolem segments.",
        "note": "Assumed contract of scipy interp1d (segment chord / node value / fill values), min/max model, copy models, monotone-sequence schema instance; table preconditions (increasing pressure, positive columns) instantiated at the indices used.",
        "technique": "VC generation from the AST over symbolic-length tables; SMT (z3 NRA) with explicit instantiation; frame analysis of heap writes; bounded run-time family 'container independence' for pandas row labels (outside the array model)",
    },
    "C15": {
        "category": "proof",
        "text": "pseudopressure_threephase is executed on arrays of symbolic length; the quadrature call is identified through the cumulative_trapezoid model (argument order included): integrand == documented total mobility, increment == (p_k - p_k-1)(lam_k + lam_k-1)/2, increments positive for positive mobility, linear in the mobility factor; from_table hands exactly this column to the wrapper and m_i == 1 at nodes. 6 obligations (CAS/SMT).",
        "note": "cumulative_trapezoid / interp1d / pandas models assumed; p_i inside the first table interval excluded (1/m infinite at the reference row).",
        "technique": "VC generation from the AST; CAS identities against the documented formula; SMT lemmas; bounded run-time family 'container independence' for pandas row labels (outside the array model)",
    },
    "C16": {
        "category": "proof",
        "text": "compressibility_combined_func == S(p+1/2) - S(p-1/2) for the documented storage function, zero for constant tables, proportional to porosity, lambda == documented sum, alpha == lambda/c, and from_table's alpha column == lambda/c of linearly continued interpolants of the table columns (so end rows are derivatives too): 6 CAS obligations with PVT / rel-perm functions uninterpreted.",
        "note": "interp1d model ('extrapolate' = linear continuation); sympy normal forms; docs typo S_g/b_o read as S_g/B_g.",
        "technique": "VC generation from the AST; CAS identities (sympy) with uninterpreted functions; bounded run-time family 'container independence' for pandas row labels (outside the array model)",
    },
    "C18": {
        "category": "proof",
        "text": "_obj_function and fit_production_pressure are executed symbolically with FlowProperties(...), simulate() and recovery_factor() replaced by their contracts: the objective is M * RF(SinglePhaseReservoir(N, p_i, p_i, FlowProperties(table, p_i)).simulate(days/tau, p_f)) - production and depends on its arguments only; the row filter keeps exactly Gas > 0 and non-missing Pressure; the minimiser receives (arange(n), cumsum(Gas), table, pressures smoothed with the requested window; window 1 or none = unchanged); declared limits tau in [30, 2(n-1)], M in [cum[n-2], inplace_max], p_initial in [max p_f, pressure_imax] with fitted values inside. 7 obligations. Real pandas frames and real fits: BOUNDED clause.",
        "note": "Assumed contracts of lmfit (values within [min, max]; fcn(params, *fcn_args)), pandas row filter, uniform_filter1d(size=1) identity; method contracts from C09/C10.",
        "technique": "VC generation from the AST with callee contracts; structural + SMT/CAS obligations; bounded run-time contracts on real data frames",
    },
    "C19": {
        "category": "proof",
        "text": "Each Fluid method is executed on a pressure array of symbolic length and its element at a symbolic index is proved equal (CAS, case split at the bubble point) to the stand-alone correlation's own extracted term with the instance attributes in the right positions; build_pvt_gas's grid (10 + 10 j < max, none missing) is an SMT obligation from the arange model and each column is the stand-alone correlation at the Sutton point; Sutton clauses are CAS identities plus a path enumeration over a symbolic fluid-type string. 12 obligations.",
        "note": "np.arange / comprehension-as-map / np.vectorize / pandas models assumed; z_factor_DAK opaque (C06).",
        "technique": "VC generation from the AST over symbolic-length arrays; CAS term equality, SMT for the grid and rejection paths",
    },
    "C20": {
        "category": "proof",
        "text": "The plotting helpers are executed symbolically against a model of Axes.plot that records (x, y) and the condition under which each curve is drawn, the loop over profiles at a symbolic index: a profile is drawn iff i % every == 0 with x_j = (j+1)/nx and the (rescaled) profile; one curve (time, recovery_factor()); one curve (time, gradient(recovery_factor(), time)); the comparison figure's three curves with the recovery taken from the forward model driven by the same (smoothed) pressures that are drawn; sqrt transform == sqrt, exact mutual inverses on a >= 0, inverted() classes. 7 obligations. Real matplotlib Axes: BOUNDED clause.",
        "note": "matplotlib Axes.plot model; np.gradient model; method contracts from C10.",
        "technique": "VC generation from the AST with an effect log for drawn curves; SMT/CAS obligations; bounded run-time contracts on real Axes",
    },
}

NOT_APPLICABLE = {f"C{i:02d}": _PENDING for i in range(1, 21)}
