"""C17 bounded clauses: time-origin shift invariance at rounding level and equivalent schedule forms, evaluated
at run time on the real IdealReservoir / SinglePhaseReservoir (tests/data/pvt_gas.csv).

Tolerances: shift 1e-9 absolute on the scaled pseudopressure field and on recovery (both O(1); measured on the
clean code: <= 1.6e-11 at shift 1000, <= 7e-14 for the other shifts); constant schedule / length / before_simulate exact; interpolator
at the nodes 1e-12 absolute, fill values exact."""
from __future__ import annotations

import random
import warnings

import numpy as np

from .common import Bounded

RENAME = {"P": "pressure", "Z-Factor": "z-factor", "Cg": "compressibility", "Viscosity": "viscosity", "Density": "density"}
SHIFTS = (1e-3, 1.0, 1000.0, -0.5)
TOL_SHIFT = 1e-9
TOL_NODES = 1e-12
# The clause as stated demands only that a rejected schedule leaves no new `pseudopressure`.  The real code assigns
# self.time (and drops the recovery cache) BEFORE the length check, so a rejected call on an already simulated object
# leaves the new time axis next to the old field; that is recorded in `observed` and only enforced when this is True.
STRICT_LENGTH_FRAME = False
_cache = {}


def fluid(p_i):
    if p_i not in _cache:
        import pandas as pd
        from bluebonnet.flow import FlowProperties

        if "pvt" not in _cache:
            _cache["pvt"] = pd.read_csv("/repo/tests/data/pvt_gas.csv").rename(columns=RENAME)
        with warnings.catch_warnings(), np.errstate(all="ignore"):
            warnings.simplefilter("ignore")
            _cache[p_i] = FlowProperties(_cache["pvt"], p_i)
    return _cache[p_i]


def make(cfg):
    from bluebonnet.flow import IdealReservoir, SinglePhaseReservoir

    cls = {"IdealReservoir": IdealReservoir, "SinglePhaseReservoir": SinglePhaseReservoir}[cfg["class"]]
    return cls(cfg["nx"], cfg["p_f"], cfg["p_i"], fluid(cfg["p_i"]))


def make_grid(g):
    kind, n, t_end = g["kind"], g["n"], g["t_end"]
    if g.get("origin"):
        return g["origin"] + make_grid({k_: v_ for k_, v_ in g.items() if k_ != "origin"})
    if kind == "uniform":
        return np.linspace(0.0, t_end, n)
    if kind == "sqrt":
        return np.linspace(0.0, np.sqrt(t_end), n) ** 2
    if kind == "random":
        rs = np.random.RandomState(g["seed"])
        steps = rs.exponential(1.0, n - 1) + 0.02
        t = np.concatenate([[0.0], np.cumsum(steps)])
        return g.get("t0", 0.0) + t * (t_end / t[-1])
    raise ValueError(kind)


def make_schedule(cfg, n):
    s = cfg.get("schedule")
    if s is None:
        return None
    if s == "ramp":
        return np.linspace(cfg["p_f"], 0.4 * cfg["p_f"] + 0.3 * cfg["p_i"], n)
    if s == "steps":
        out = np.full(n, float(cfg["p_f"]))
        out[n // 4: n // 2] *= 0.5
        out[n // 2:] *= 0.25
        return out
    raise ValueError(s)


def sim(cfg, time, schedule=None):
    r = make(cfg)
    if schedule is None:
        r.simulate(time)
    else:
        r.simulate(time, schedule)
    return r


def check_shift(cfg):
    t = make_grid(cfg["grid"])
    sched = make_schedule(cfg, len(t))
    a = sim(cfg, t.copy(), sched)
    b = sim(cfg, t + cfg["shift"], sched)
    dpp = float(np.max(np.abs(a.pseudopressure - b.pseudopressure)))
    drf = float(np.max(np.abs(a.recovery_factor() - b.recovery_factor())))
    ok = bool(np.isfinite(dpp) and np.isfinite(drf) and dpp <= TOL_SHIFT and drf <= TOL_SHIFT)
    return ok, {"max|d pseudopressure|": dpp, "max|d recovery|": drf}


def check_constant(cfg):
    t = make_grid(cfg["grid"])
    a = sim(cfg, t.copy())
    b = sim(cfg, t.copy(), np.full(len(t), cfg["p_f"]) if cfg.get("form", "array") == "array" else [cfg["p_f"]] * len(t))
    same_pp = np.array_equal(a.pseudopressure, b.pseudopressure)
    ra, rb = a.recovery_factor(), b.recovery_factor()
    same_rf = np.array_equal(ra, rb)
    return bool(same_pp and same_rf), {"pseudopressure identical": bool(same_pp), "recovery identical": bool(same_rf),
                                       "max|d pseudopressure|": float(np.max(np.abs(a.pseudopressure - b.pseudopressure))), "max|d recovery|": float(np.max(np.abs(ra - rb)))}


def check_length(cfg):
    t = make_grid(cfg["grid"])
    m = cfg["schedule_length"]
    sched = np.full(m, float(cfg["p_f"]))
    if cfg["form"] == "list":
        sched = sched.tolist()
    r = make(cfg)
    prior = prior_time = None
    if cfg.get("after_previous"):
        prior_time = make_grid({**cfg["grid"], "t_end": cfg["grid"]["t_end"] * 0.5})
        r.simulate(prior_time.copy())
        r.recovery_factor()
        prior = r.pseudopressure.copy()
    try:
        r.simulate(t.copy(), sched)
        raised = None
    except ValueError:
        raised = "ValueError"
    except Exception as e:  # noqa: BLE001
        raised = type(e).__name__
    if prior is None:
        untouched = not hasattr(r, "pseudopressure")
        frame = not hasattr(r, "time") and not hasattr(r, "recovery")
    else:
        untouched = hasattr(r, "pseudopressure") and np.array_equal(r.pseudopressure, prior)
        frame = hasattr(r, "time") and np.array_equal(r.time, prior_time) and hasattr(r, "recovery")
    # SinglePhaseReservoir validates the length itself (ValueError); IdealReservoir.simulate takes no schedule at all, so
    # any schedule is rejected by the call (TypeError) - either way: an error, and nothing simulated with it
    ok = (raised == "ValueError" or (cfg["class"] == "IdealReservoir" and raised == "TypeError")) and untouched and (frame or not STRICT_LENGTH_FRAME)
    return ok, {"raised": raised, "pseudopressure untouched": bool(untouched), "time and recovery cache untouched (informative unless STRICT_LENGTH_FRAME)": bool(frame)}


def check_before(cfg):
    out = {}
    for name in ("recovery_factor", "recovery_factor_interpolator", "recovery_factor(time)", "recovery_factor(time, density=True)"):
        r = make(cfg)
        try:
            if name == "recovery_factor(time)":
                r.recovery_factor(np.linspace(0.0, 1.0, 5))
            elif name == "recovery_factor(time, density=True)":
                r.recovery_factor(np.linspace(0.0, 1.0, 5), density=True)
            else:
                getattr(r, name)()
            out[name] = "returned"
        except RuntimeError:
            out[name] = "RuntimeError"
        except Exception as e:  # noqa: BLE001
            out[name] = type(e).__name__
    # RuntimeError for the argument-free calls; with a time argument any error (a normal return is the failure)
    return all((v == "RuntimeError") if "(" not in k_ else (v != "returned") for k_, v in out.items()), out


def check_interp(cfg):
    t = make_grid(cfg["grid"])
    r = sim(cfg, t.copy(), make_schedule(cfg, len(t)))
    mode = cfg["mode"]
    if mode == "after_rf":
        r.recovery_factor()
    elif mode == "after_density":
        r.recovery_factor(density=True)
    f = r.recovery_factor_interpolator()
    expected = r.recovery_factor(density=(mode == "after_density"))
    rec = np.asarray(getattr(r, "recovery", expected))  # the cache attribute is an implementation detail: compared only if present
    span = t[-1] - t[0]
    d_nodes = float(np.max(np.abs(f(t) - expected)))
    before = np.asarray(f(np.array([t[0] - 1e-9 * (1 + abs(t[0])), t[0] - 0.5 * span - 1.0, -1e6])))
    after = np.asarray(f(np.array([t[-1] + 1e-9 * (1 + abs(t[-1])), t[-1] + span + 1.0, 1e9])))
    ok = d_nodes <= TOL_NODES and np.array_equal(rec, expected) and bool(np.all(before == 0.0)) and bool(np.all(after == expected[-1]))
    return bool(ok), {"max|interp(time) - recovery|": d_nodes, "before first": before.tolist(), "after last": after.tolist(), "final recovery": float(expected[-1])}


CHECKS = {"shift": check_shift, "constant_schedule": check_constant, "length": check_length, "before_simulate": check_before, "interp_nodes_fill": check_interp}
REQUIRED = {
    "shift": "pseudopressure and recovery_factor() of simulate(time) and simulate(time + shift) within 1e-9",
    "constant_schedule": "simulate(t, full(len(t), p_f)) gives exactly (array_equal) the field and recovery of simulate(t)",
    "length": "ValueError (IdealReservoir, which takes no schedule: TypeError), and no new pseudopressure is left behind",
    "before_simulate": "RuntimeError from recovery_factor() and recovery_factor_interpolator() on a fresh object",
    "interp_nodes_fill": "interpolator(time) == recovery within 1e-12, exactly 0 before the first time, exactly the final recovery after the last",
}


def evaluate(clause, cfg):
    with warnings.catch_warnings(), np.errstate(all="ignore"):
        warnings.simplefilter("ignore")
        return CHECKS[clause](cfg)


def key_of(cfg):
    return tuple(sorted((k, tuple(sorted(v.items())) if isinstance(v, dict) else v) for k, v in cfg.items()))


def run(ctx):
    quick = ctx.tier == "quick"
    rng = random.Random(ctx.seed)
    B = Bounded("IdealReservoir and SinglePhaseReservoir on tests/data/pvt_gas.csv; nx in %s; grids uniform / sqrt-spaced / seeded random with %s points, t_end in [0.5, 12]; "
                "(p_f, p_i) in {(1000, 8000), (500, 5000), (3000, 8000)}; shifts {1e-3, 1, 1000, -0.5} (tolerance 1e-9 absolute on O(1) quantities); constant schedule as array and list (exact); "
                "schedule lengths {0, 1, n-1, n+1, 2n} as array and list on fresh and on already simulated objects; interpolator after no call / recovery_factor() / recovery_factor(density=True), "
                "1e-12 at the nodes and exact fill values" % ("{10, 30}" if quick else "{5, 10, 30, 60}", "{25, 60}" if quick else "{12, 25, 60, 150}"))
    nxs = (10, 30) if quick else (5, 10, 30, 60)
    ns = (25, 60) if quick else (12, 25, 60, 150)
    press = ((1000.0, 8000.0), (500.0, 5000.0), (3000.0, 8000.0))
    classes = ("IdealReservoir", "SinglePhaseReservoir")

    def grids(k):
        out = []
        for j in range(k):
            n = ns[j % len(ns)]
            out.append({"kind": "uniform", "n": n, "t_end": round(rng.uniform(0.5, 12.0), 3)})
            out.append({"kind": "sqrt", "n": n, "t_end": round(rng.uniform(0.5, 12.0), 3)})
            out.append({"kind": "random", "n": n, "t_end": round(rng.uniform(0.5, 12.0), 3), "seed": rng.randrange(10**6), "t0": rng.choice([0.0, 0.25])})
        return out

    def base(cls, j):
        p_f, p_i = press[j % len(press)]
        return {"class": cls, "nx": nxs[j % len(nxs)], "p_f": p_f, "p_i": p_i}

    def emit(clause, cfg):
        ok, observed = evaluate(clause, cfg)
        B.case(clause, key_of(cfg), ok, input={"clause": clause, **cfg}, observed=observed, required=REQUIRED[clause])

    # shift
    j = 0
    for cls in classes:
        for g in grids(2 if quick else 8):
            for s in SHIFTS:
                for sched in ((None,) if cls == "IdealReservoir" else (None, "ramp", "steps")):
                    j += 1
                    if sched is not None and quick and j % 2:
                        continue
                    emit("shift", {**base(cls, j), "grid": g, "shift": s, "schedule": sched})
    # constant schedule (SinglePhaseReservoir only: IdealReservoir.simulate takes no schedule)
    j = 0
    for g in grids(3 if quick else 12):
        for form in ("array", "list"):
            j += 1
            emit("constant_schedule", {**base("SinglePhaseReservoir", j), "grid": g, "form": form})
    # length
    j = 0
    for g in grids(1 if quick else 4):
        n = g["n"]
        for m in (0, 1, n - 1, n + 1, 2 * n):
            for form in ("array", "list"):
                for prev in (False, True):
                    j += 1
                    emit("length", {**base("SinglePhaseReservoir", j), "grid": g, "schedule_length": m, "form": form, "after_previous": prev})
                    if form == "array":
                        emit("length", {**base("IdealReservoir", j), "grid": g, "schedule_length": m, "form": form, "after_previous": prev})
    # before simulate
    for cls in classes:
        for j in range(len(press) * len(nxs)):
            emit("before_simulate", base(cls, j) | {"nx": nxs[j // len(press)]})
    # interpolator (the time origin is arbitrary: grids that start before zero, straddle it, or start late)
    j = 0
    for cls in classes:
        gl = grids(2 if quick else 8)
        for g in gl + [dict(gl[0], origin=-16.0), dict(gl[1], origin=-0.5 * gl[1]["t_end"]), dict(gl[2], origin=1024.0)]:
            for mode in ("direct", "after_rf", "after_density"):
                for sched in ((None,) if cls == "IdealReservoir" else (None, "ramp")):
                    j += 1
                    emit("interp_nodes_fill", {**base(cls, j), "grid": g, "mode": mode, "schedule": sched})
    return B.result()


def replay(case):
    cfg = dict(case.get("input", case))
    clause = cfg.pop("clause", None) or case.get("clause")
    ok, observed = evaluate(clause, cfg)
    return {"reproduced": not ok, "call": "%s on %s" % (clause, cfg), "observed": observed, "required": REQUIRED[clause]}
