"""Further numpy / math / builtin models (assumed contracts, same conventions as libmodels): added so that realistic
edits of the code under contract stay inside the subset and are DECIDED instead of coming back undecided.  Every model
is the documented element-wise / index semantics over mathematical reals (floats = reals is the standing assumption;
consequently np.isfinite is True and np.isnan False for every value that passed its well-definedness obligations)."""
from __future__ import annotations

from . import libmodels as lm
from . import symex as sx
from . import term as tm
from .libmodels import Arith, ArrV, OutOfSubset, Raised, T, as_array, ew, num, used

ONE, ZERO = tm.const(1), tm.const(0)


def _real(x):
    return tm.toreal(tm.lift(x))


# ---------------------------------------------------------------------------------------------- element-wise
def np_where(ex, c, a=None, b=None):
    if a is None or b is None:
        raise OutOfSubset("np.where with one argument")
    c = as_array(ex, c)
    used(ex, "np.where(c, a, b)[j] = a[j] if c[j] else b[j]")
    return ew(ex, lambda ar, cc, x, y: tm.ite(cc, tm.toreal(x) if (x.sort != y.sort) else x, tm.toreal(y) if (x.sort != y.sort) else y), c, num(as_array(ex, a)), num(as_array(ex, b)),
              dtype=lm.result_dtype([v for v in (as_array(ex, a), as_array(ex, b))], False))


def _isclose_term(x, y, rtol, atol):
    x, y = _real(x), _real(y)
    return tm.le(tm.absv(tm.sub(x, y)), tm.add(_real(atol), tm.mul(_real(rtol), tm.absv(y))))


def np_isclose(ex, a, b, rtol=None, atol=None, equal_nan=False):
    rtol = tm.rconst("1e-5") if rtol is None else tm.lift(num(rtol))
    atol = tm.rconst("1e-8") if atol is None else tm.lift(num(atol))
    used(ex, "np.isclose(a, b): |a - b| <= atol + rtol |b| (defaults 1e-8, 1e-5)")
    return ew(ex, lambda ar, x, y: _isclose_term(x, y, rtol, atol), num(as_array(ex, a)), num(as_array(ex, b)), dtype="b")


def np_allclose(ex, a, b, rtol=None, atol=None, equal_nan=False):
    r = np_isclose(ex, a, b, rtol, atol)
    return r if isinstance(r, T) else np_all(ex, r)


def np_all(ex, v):
    v = as_array(ex, v)
    if isinstance(v, (T, bool)):
        return v
    neg = ArrV(v.shape, (lambda f: (lambda idx: tm.lnot(f(idx))))(v.cur()), "b", mask=v.mask)
    a = lm.np_any(ex, neg)
    return tm.lnot(a) if isinstance(a, T) else (not a)


def np_unary(name, fn, real_result=True):
    def f(ex, v, *a, **kw):
        if a or kw:
            raise OutOfSubset(f"np.{name} with options")
        return ew(ex, lambda ar, x: fn(ar, x), num(as_array(ex, v)), real_result=real_result)
    return f


def _sign(ar, x):
    x = tm.lift(x)
    z = tm.const(0) if x.sort == tm.I else tm.rconst(0)
    o = tm.const(1) if x.sort == tm.I else tm.rconst(1)
    return tm.ite(tm.gt(x, z), o, tm.ite(tm.lt(x, z), tm.neg(o), z))


def _floor(ar, x):
    x = tm.lift(x)
    if x.sort == tm.I:
        return tm.toreal(x)
    t = tm.toreal(tm.trunc(x))
    return tm.ite(tm.le(t, x), t, tm.sub(t, tm.rconst(1)))


def _ceil(ar, x):
    x = tm.lift(x)
    if x.sort == tm.I:
        return tm.toreal(x)
    t = tm.toreal(tm.trunc(x))
    return tm.ite(tm.ge(t, x), t, tm.add(t, tm.rconst(1)))


def np_power(ex, a, b):
    used(ex, "np.power(a, b) = a ** b element-wise")
    return ew(ex, lambda ar, x, y: ar.pow(x, y), num(as_array(ex, a)), num(as_array(ex, b)))


def np_isfinite(ex, v):
    used(ex, "np.isfinite is True / np.isnan, np.isinf are False on every value (floats = reals; division, log, sqrt, powers carry their own well-definedness obligations)")
    return ew(ex, lambda ar, x: tm.TRUE, num(as_array(ex, v)), dtype="b")


def np_isnan(ex, v):
    used(ex, "np.isfinite is True / np.isnan, np.isinf are False on every value (floats = reals; division, log, sqrt, powers carry their own well-definedness obligations)")
    return ew(ex, lambda ar, x: tm.FALSE, num(as_array(ex, v)), dtype="b")


def np_nan_to_num(ex, v, **kw):
    used(ex, "np.nan_to_num is the identity (no NaN / inf values in the logic)")
    v = as_array(ex, v)
    return lm.arr_copy(ex, v) if isinstance(v, ArrV) else v


# ---------------------------------------------------------------------------------------------- reductions
def np_mean(ex, v, axis=None):
    v = as_array(ex, v)
    if isinstance(v, T):
        return _real(v)
    if v.ndim != 1 or axis is not None:
        raise OutOfSubset("mean of a multi-dimensional array / along an axis")
    s = lm.np_sum(ex, v)
    return Arith(ex).div(_real(s), _real(lm.np_size(ex, v))) if hasattr(Arith(ex), "div") else tm.div(_real(s), _real(lm.np_size(ex, v)))


def np_dot(ex, a, b):
    a, b = as_array(ex, a), as_array(ex, b)
    if isinstance(a, T) or isinstance(b, T):
        return ew(ex, lambda ar, x, y: tm.mul(x, y), num(a), num(b))
    if a.ndim != 1 or b.ndim != 1:
        raise OutOfSubset("np.dot of multi-dimensional arrays")
    used(ex, "np.dot of 1-D arrays = sum of element-wise products")
    return lm.np_sum(ex, ew(ex, lambda ar, x, y: tm.mul(x, y), a, b))


def np_max(kind):
    def f(ex, v, axis=None, **kw):
        if axis is not None or kw:
            raise OutOfSubset(f"np.{kind} with options")
        return lm.np_reduce(ex, v, kind)
    return f


# ---------------------------------------------------------------------------------------------- shape / order
def _as1d(ex, v):
    v = as_array(ex, v)
    if isinstance(v, T):
        t = v
        return ArrV((ONE,), lambda idx: t, "i8" if t.sort == tm.I else "f8")
    if isinstance(v, ArrV):
        if v.ndim != 1 or v.mask is not None:
            raise OutOfSubset("concatenation of a multi-dimensional / mask-selected array")
        return v
    raise OutOfSubset(f"concatenate {type(v).__name__}")


def np_concatenate(ex, seq, axis=0, **kw):
    if kw or not (isinstance(axis, int) and axis == 0 or (isinstance(axis, T) and tm.is_const(axis) and tm.cval(axis) == 0)):
        raise OutOfSubset("np.concatenate with options")
    parts = [_as1d(ex, p) for p in ex.iterate(seq)] if not isinstance(seq, (list, tuple)) else [_as1d(ex, p) for p in seq]
    if not parts:
        raise Raised("ValueError", "need at least one array to concatenate")
    used(ex, "np.concatenate of 1-D arrays: the pieces in order")
    dts = {p.dtype for p in parts}
    dt = "f8" if (len(dts) > 1 or dts <= {"f8"}) else dts.pop()
    fns = [p.cur() for p in parts]
    lens = [p.shape[0] for p in parts]
    total = lens[0]
    for L in lens[1:]:
        total = tm.add(total, L)

    def fn(idx):
        i = idx[0]
        off = ZERO
        pieces = []
        for f, L in zip(fns, lens):
            pieces.append((off, tm.add(off, L), f))
            off = tm.add(off, L)
        conv = (lambda v: tm.toreal(v)) if dt in ("f8", "f4") else (lambda v: v)
        # pieces whose membership is decided by constants are selected directly (their element functions may be
        # partial: a python list piece has no element at a foreign index)
        live = []
        for lo_k, hi_k, f in pieces[:-1]:
            c = tm.lt(i, hi_k)
            if c is tm.TRUE:
                live.append((None, lo_k, f))
                break
            if c is tm.FALSE:
                continue
            live.append((c, lo_k, f))
        else:
            live.append((None, pieces[-1][0], pieces[-1][2]))
        _, lo_last, f_last = live[-1]
        out = conv(f_last((tm.sub(i, lo_last),)))
        for c, lo_k, f in reversed(live[:-1]):
            out = tm.ite(c, conv(f((tm.sub(i, lo_k),))), out)
        return out

    return ArrV((total,), fn, dt)


def np_hstack(ex, seq):
    return np_concatenate(ex, seq)


def np_append(ex, a, v, axis=None):
    return np_concatenate(ex, [a, v])


def np_insert0(ex, a, pos, v, axis=None):
    pos = tm.lift(num(pos))
    if not (tm.is_const(pos) and tm.cval(pos) == 0):
        raise OutOfSubset("np.insert at a position other than 0")
    return np_concatenate(ex, [v, a])


def np_flip(ex, a, axis=None):
    a = as_array(ex, a)
    if not isinstance(a, ArrV) or a.ndim != 1 or a.mask is not None:
        raise OutOfSubset("np.flip of this operand")
    used(ex, "a[::-1] / np.flip(a): element j is a[n-1-j]")
    f = a.cur()
    n = a.shape[0]
    return ArrV(a.shape, lambda idx: f((tm.sub(tm.sub(n, ONE), idx[0]),)), a.dtype)


def np_ones(ex, n, dtype=None):
    return lm.np_zeros_like_model(1)(ex, n, dtype)


def np_ravel(ex, a, *args, **kw):
    a = as_array(ex, a)
    if isinstance(a, ArrV) and a.ndim == 1:
        return a
    if isinstance(a, T):
        return _as1d(ex, a)
    raise OutOfSubset("ravel / reshape of a multi-dimensional array")


def np_isscalar(ex, v):
    if isinstance(v, lm.MapList):
        return False
    return isinstance(v, (T, int, float, bool))


def arr_astype(ex, a, dtype, **kw):
    code = lm.dtype_code(dtype)
    used(ex, "ndarray.astype: value conversion (to an integer dtype: truncation toward zero)")
    f = a.cur()
    if code in lm.INT_RANGE:
        return ArrV(a.shape, lambda idx: tm.trunc(f(idx)), code, mask=a.mask)
    if code == "b":
        raise OutOfSubset("astype(bool)")
    return ArrV(a.shape, lambda idx: tm.toreal(f(idx)), code, mask=a.mask)


# ---------------------------------------------------------------------------------------------- registration
def install():
    R = lm._reg
    R("numpy.where", np_where)
    R("numpy.isclose", np_isclose)
    R("numpy.allclose", np_allclose)
    R("numpy.all", np_all)
    R("numpy.absolute", lm.np_fn1("abs"))
    R("numpy.fabs", lm.np_fn1("abs"))
    R("numpy.sign", np_unary("sign", _sign, real_result=False))
    R("numpy.floor", np_unary("floor", _floor))
    R("numpy.ceil", np_unary("ceil", _ceil))
    R("numpy.square", np_unary("square", lambda ar, x: tm.mul(x, x), real_result=False))
    R("numpy.log10", np_unary("log10", lambda ar, x: tm.div(ar.log(x), tm.log(tm.rconst(10)))))
    R("numpy.power", np_power)
    R("numpy.isfinite", np_isfinite)
    R("numpy.isnan", np_isnan)
    R("numpy.isinf", np_isnan)
    R("numpy.nan_to_num", np_nan_to_num)
    R("numpy.mean", np_mean)
    R("numpy.dot", np_dot)
    for k in ("max", "amax"):
        R("numpy." + k, np_max("max"))
    for k in ("min", "amin"):
        R("numpy." + k, np_max("min"))
    R("numpy.concatenate", np_concatenate)
    R("numpy.hstack", np_hstack)
    R("numpy.append", np_append)
    R("numpy.insert", np_insert0)
    R("numpy.flip", np_flip)
    R("numpy.ones", np_ones)
    R("numpy.ravel", np_ravel)
    R("numpy.isscalar", np_isscalar)
    R("numpy.errstate", lambda ex, *a, **k: None)
    lm.REGISTRY["numpy.pi"] = tm.app("pi", (), tm.R)
    lm.REGISTRY["math.pi"] = tm.app("pi", (), tm.R)
    R("math.floor", lambda ex, x: tm.trunc(_floor(None, num(x))))
    R("math.ceil", lambda ex, x: tm.trunc(_ceil(None, num(x))))
    R("math.pow", lambda ex, x, y: Arith(ex).pow(_real(num(x)), _real(num(y))))
    R("math.log10", lambda ex, x: tm.div(Arith(ex).log(tm.lift(num(x))), tm.log(tm.rconst(10))))
    R("math.isfinite", lambda ex, x: True)
    R("math.isnan", lambda ex, x: False)
