"""C01 bounded clauses: maximum principle, frac-face value, monotonicity and relaxation, evaluated at run time on
the REAL `simulate` methods over a finite, stated family.

Family (DESIGN.md section 3, C01): tables {shipped gas, Haynesville, synthetic rising diffusivity, synthetic kinked
diffusivity} plus the ideal reservoir; p_f/p_i in {0.0125, 0.5, 0.9, 0.9875, 0.999}; nx in {3, 10, 30, 100, 400};
time grids {uniform, quadratic, geometric, seeded random (with one repeated instant), 20 steps of 50}; schedules
{constant, stepwise decreasing, seeded random below p_i}.  quick: seeded sub-sample (about 100 runs) that always
contains p_f/p_i = 0.9875 and 0.999 on the very-large-step grid; thorough: the full product, nx = 400 on short grids.

Clauses (tolerance tol = 1e-9 * (m_i - min m_f) + 1e-10 * max(|m_i|, 1); ideal reservoir: m_f = 0, m_i = 1):
  finite        no NaN / inf in the field
  bounds.lower  pp[i, j] >= min_{s<=i} m_f[s] - tol          (ideal: pp >= -tol)
  bounds.upper  pp[i, j] <= m_i + tol                        (ideal: pp <= 1 + tol)
  mono.space    constant schedule: pp[i, j] <= pp[i, j+1] + tol
  mono.time     constant schedule: pp[i+1, j] <= pp[i, j] + tol for j >= 1
  steady        constant schedule, grid "20 steps of 50": |pp[-1, j] - m_f| <= 1e-6 * (m_i - m_f)   (ideal: <= 1e-6)

This module also hosts the helpers shared by rt/c02..c04 (tables, time grids, schedules, run construction).
"""
from __future__ import annotations

import itertools
import random
import warnings

import numpy as np

from .common import Bounded

DATA = "/repo/tests/data/"
RATIOS = (0.0125, 0.5, 0.9, 0.9875, 0.999)
NXS = (3, 10, 30, 100, 400)
GRIDS = ("uniform", "quadratic", "geometric", "random", "big50")
SCHEDULES = ("constant", "stepdown", "random")
TABLES = ("gas", "haynesville", "syn_rising", "syn_kinked")
class _ByBase(dict):
    def __missing__(self, k):
        return self[k.split(":")[0]]


P_INITIAL = _ByBase({"gas": 8000.0, "haynesville": 12000.0, "syn_rising": 8000.0, "syn_kinked": 8000.0, "syn_const": 8000.0})
REL_TOL = 1e-9  # of the drawdown m_i - min m_f
ABS_TOL = 1e-10  # times max(|m_i|, 1): rounding of the linear solve, which does not shrink with the drawdown
STEADY_TOL = 1e-6
TOL_TEXT = "tol = %g*(m_i - min m_f) + %g*max(|m_i|, 1)" % (REL_TOL, ABS_TOL)

_cache = {}


# ---------------------------------------------------------------------------------------------------- tables
def synthetic_alpha_table(kind, n=400, p_lo=10.0, p_hi=10000.0):
    """pressure / pseudopressure / alpha table (the three-column form FlowProperties accepts).
    pseudopressure = p**2 (any increasing function will do: only the scaled value enters the solver);
    rising:  alpha = 1 + 9 (p/p_hi)**2;   kinked: alpha = 5 - 4 p/p_k below p_k = 0.6 p_hi, 1 + 8 (p - p_k)/(p_hi - p_k) above;
    const:   alpha = 3."""
    p = np.linspace(p_lo, p_hi, n)
    if kind == "syn_rising":
        alpha = 1.0 + 9.0 * (p / p_hi) ** 2
    elif kind == "syn_kinked":
        pk = 0.6 * p_hi
        alpha = np.where(p < pk, 5.0 - 4.0 * p / pk, 1.0 + 8.0 * (p - pk) / (p_hi - pk))
    elif kind == "syn_const":
        alpha = np.full_like(p, 3.0)
    else:
        raise KeyError(kind)
    return {"pressure": p, "pseudopressure": p**2, "alpha": alpha}


def reorder(tab, how):
    """the same rows in another order (FlowProperties / the reservoirs accept any row order: every interp1d sorts)"""
    if how == "desc":
        return tab.iloc[::-1].reset_index(drop=True)
    if how == "shuf":
        return tab.sample(frac=1.0, random_state=0).reset_index(drop=True)
    raise KeyError(how)


def table_params(name):
    if ":" in name:
        return dict(table_params(name.split(":")[0]), row_order={"desc": "rows reversed (descending pressure)", "shuf": "rows shuffled (DataFrame.sample(frac=1, random_state=0))"}[name.split(":")[1]])
    if name == "gas":
        return {"file": DATA + "pvt_gas.csv", "rename": {"P": "pressure", "Z-Factor": "z-factor", "Cg": "compressibility", "Viscosity": "viscosity", "Density": "density"}}
    if name == "haynesville":
        return {"file": DATA + "pvt_gas_HAYNESVILLE SHALE_20.csv", "rename": {"Density": "density"}}
    if name.startswith("syn_"):
        return {"synthetic": name, "n": 400, "p_lo": 10.0, "p_hi": 10000.0, "formula": "pseudopressure = p**2; rising: alpha = 1 + 9 (p/p_hi)**2; kinked: alpha = 5 - 4 p/p_k (p < p_k = 0.6 p_hi), 1 + 8 (p - p_k)/(p_hi - p_k) above; const: alpha = 3"}
    raise KeyError(name)


def load_table(name):
    if ("table", name) in _cache:
        return _cache[("table", name)]
    if ":" in name:
        tab = _cache[("table", name)] = reorder(load_table(name.split(":")[0]), name.split(":")[1])
        return tab
    if name in ("gas", "haynesville"):
        import pandas as pd

        par = table_params(name)
        tab = pd.read_csv(par["file"]).rename(columns=par["rename"])
    else:
        import pandas as pd

        tab = pd.DataFrame(synthetic_alpha_table(name))
    _cache[("table", name)] = tab
    return tab


def make_fluid(name, p_i=None):
    from bluebonnet.flow import FlowProperties

    p_i = P_INITIAL[name] if p_i is None else p_i
    key = ("fluid", name, p_i)
    if key not in _cache:
        with warnings.catch_warnings(), np.errstate(all="ignore"):
            warnings.simplefilter("ignore")
            _cache[key] = FlowProperties(load_table(name), p_i)
    return _cache[key]


# ------------------------------------------------------------------------------------------------ time grids
def time_grid(desc):
    """desc = {"kind", "nt" (number of steps), "t_end", "seed"} -> non-decreasing array starting at 0."""
    kind, nt, t_end = desc["kind"], int(desc.get("nt", 20)), float(desc.get("t_end", 5.0))
    if kind == "uniform":
        return np.linspace(0.0, t_end, nt + 1)
    if kind == "quadratic":
        return np.linspace(0.0, np.sqrt(t_end), nt + 1) ** 2
    if kind == "geometric":
        return np.concatenate([[0.0], np.geomspace(desc.get("t_first", 1e-6), t_end, nt)])
    if kind == "random":
        rng = np.random.default_rng(desc["seed"])
        dt = rng.lognormal(0.0, 1.5, nt)
        if desc.get("repeat", True) and nt >= 4:
            dt[int(rng.integers(1, nt - 1))] = 0.0  # a repeated instant: the grid is non-decreasing, not increasing
        t = np.concatenate([[0.0], np.cumsum(dt)])
        return t * (t_end / t[-1])
    if kind == "big50":
        return 50.0 * np.arange(21)
    if kind == "tinysteps":
        # sqrt-spaced grid with a short end time: consecutive increments differ by 2e-3/600^2 = 5.6e-9 (a lagged or
        # cached time increment is invisible to "close enough" comparisons but not to the step residual)
        return np.linspace(0.0, np.sqrt(1e-3), 601) ** 2
    if kind == "micro":
        # steps so small that the mesh ratio alpha*dt/dx^2 is far below 1e-4 (where an incomplete / thresholded
        # factorisation drops the off-diagonals): uniform 2e-8, then geometric up to 1e-3
        return np.concatenate([np.arange(0, 201) * 2e-8, np.geomspace(5e-6, 1e-3, 100)])
    if kind == "offset":
        # a late time origin with small steps (t/dt ~ 1e9): the increment t[i+1] - t[i] is exact in floats (Sterbenz), any
        # reformulation that scales or shifts the times before subtracting is not
        return 1e6 + np.linspace(0.0, np.sqrt(2.0), 41) ** 2
    raise KeyError(kind)


def schedule(desc, p_f, p_i, n):
    """desc = {"kind", "seed", "levels", "hold"} -> None (constant) or an array of n frac-face pressures <= p_i."""
    kind = desc["kind"]
    if kind == "constant":
        return None
    if kind == "stepdown":
        levels = int(desc.get("levels", 4))
        lv = p_i - (p_i - p_f) * np.arange(1, levels + 1) / levels  # ends at p_f
        idx = np.minimum((np.arange(n) * levels) // max(n, 1), levels - 1)
        return lv[idx]
    if kind == "random":
        rng = np.random.default_rng(desc["seed"])
        hold = int(desc.get("hold", 1))
        nseg = -(-n // hold)
        lv = rng.uniform(p_f, p_i, nseg)
        lv[int(rng.integers(0, nseg))] = p_f  # the nominal value is attained
        return np.repeat(lv, hold)[:n]
    raise KeyError(kind)


# --------------------------------------------------------------------------------------------------- one run
def build_run(inp):
    """inp -> (reservoir after simulate, m_f array (len(time)), m_i, time).  Ideal: m_f = 0, m_i = 1."""
    from bluebonnet.flow import IdealReservoir, SinglePhaseReservoir

    t = time_grid(inp["grid"])
    nx = int(inp["nx"])
    with warnings.catch_warnings(), np.errstate(all="ignore"):
        warnings.simplefilter("ignore")
        if inp["reservoir"] == "ideal":
            res = IdealReservoir(nx, inp["p_f"], inp["p_i"], None)
            res.simulate(t)
            return res, np.zeros(len(t)), 1.0, t
        fluid = make_fluid(inp["table"], inp["p_i"])
        res = SinglePhaseReservoir(nx, inp["p_f"], inp["p_i"], fluid)
        sched = schedule(inp["schedule"], inp["p_f"], inp["p_i"], len(t))
        if sched is None:
            res.simulate(t)
            m_f = np.full(len(t), float(fluid.m_scaled_func(inp["p_f"])))
        else:
            res.simulate(t, sched.copy())
            m_f = np.asarray(fluid.m_scaled_func(sched), dtype=float)
        return res, m_f, float(fluid.m_i), t


def evaluate(inp):
    """-> {clause: (ok, observed, required)} for the clauses that apply to this run."""
    out = {}
    try:
        res, m_f, m_i, t = build_run(inp)
    except Exception as e:  # the contract requires a result for every admissible input
        out["finite"] = (False, "simulate raised %s: %s" % (type(e).__name__, e), "a finite field")
        return out
    pp = np.asarray(res.pseudopressure, dtype=float)
    finite = bool(np.isfinite(pp).all())
    out["finite"] = (finite, "non-finite entries: %d" % int((~np.isfinite(pp)).sum()), "no NaN/inf in pseudopressure")
    if not finite:
        return out
    draw = m_i - float(m_f.min())
    lim = REL_TOL + ABS_TOL * max(abs(m_i), 1.0) / draw  # tolerance in units of the drawdown
    low = np.minimum.accumulate(m_f)
    d = (low[:, None] - pp) / draw
    i, j = np.unravel_index(np.argmax(d), d.shape)
    out["bounds.lower"] = (bool(d[i, j] <= lim), {"worst_excess_over_drawdown": float(d[i, j]), "at": [int(i), int(j)], "pp": float(pp[i, j]), "bound": float(low[i])},
                           "pp[i,j] >= min_{s<=i} m_f[s] - tol, " + TOL_TEXT)
    d = (pp - m_i) / draw
    i, j = np.unravel_index(np.argmax(d), d.shape)
    out["bounds.upper"] = (bool(d[i, j] <= lim), {"worst_excess_over_drawdown": float(d[i, j]), "at": [int(i), int(j)], "pp": float(pp[i, j]), "bound": m_i},
                           "pp[i,j] <= m_i + tol, " + TOL_TEXT)
    constant = inp["reservoir"] == "ideal" or inp["schedule"]["kind"] == "constant"
    if constant:
        d = (pp[:, :-1] - pp[:, 1:]) / draw
        i, j = np.unravel_index(np.argmax(d), d.shape)
        out["mono.space"] = (bool(d[i, j] <= lim), {"worst_excess_over_drawdown": float(d[i, j]), "at": [int(i), int(j)]}, "pp[i,j] <= pp[i,j+1] + tol (constant schedule), " + TOL_TEXT)
        d = (pp[1:, 1:] - pp[:-1, 1:]) / draw
        i, j = np.unravel_index(np.argmax(d), d.shape)
        out["mono.time"] = (bool(d[i, j] <= lim), {"worst_excess_over_drawdown": float(d[i, j]), "at": [int(i), int(j) + 1]}, "pp[i+1,j] <= pp[i,j] + tol for j >= 1 (constant schedule), " + TOL_TEXT)
        if inp["grid"]["kind"] == "big50":
            d = np.abs(pp[-1] - m_f[-1]) / draw
            out["steady"] = (bool(d.max() <= STEADY_TOL), {"max_distance_over_drawdown": float(d.max()), "node": int(np.argmax(d))},
                             "final profile within %g*(m_i - m_f) of m_f after 20 steps of 50" % STEADY_TOL)
    return out


def feed(B, records, priority=()):
    """records: (clause, key, ok, info).  Bounded keeps the first 5 violations only; feed one failing case per clause
    first (clauses in `priority` order, then the others; a finding key makes its own group), then the unkeyed failures,
    so that no clause and no keyed family can crowd another out of the report."""
    order = {c: n for n, c in enumerate(priority)}
    first, seen = [], set()
    for rec in sorted((r for r in records if not r[2]), key=lambda r: order.get(r[0], len(order))):
        group = (rec[0], rec[3].get("finding_key"))
        if group not in seen:
            seen.add(group)
            first.append(rec)
    ids = {id(r) for r in first}
    rest = [r for r in records if id(r) not in ids]
    rest.sort(key=lambda r: (r[2], bool(r[3].get("finding_key"))))  # unkeyed failures, keyed failures, then passes (stable)
    for clause, key, ok, info in first + rest:
        B.case(clause, key, ok, **info)
    # a keyed (known-finding) family is reported once
    kept, keyed = [], set()
    for v in B.violations:
        if v.get("key"):
            if v["key"] in keyed:
                continue
            keyed.add(v["key"])
        kept.append(v)
    B.violations = kept


# ---------------------------------------------------------------------------------------------------- family
def _nt(grid, nx, tier):
    if grid == "big50":
        return 20
    if nx >= 400:
        return 30 if tier == "quick" else 60  # nx = 400 only on short grids
    return 40 if tier == "quick" else 300


def row_order_runs(seed):
    """the same tables with rows in descending / shuffled order (row order is not part of any precondition)"""
    out = []
    for n, (table, sched) in enumerate((("gas:desc", "constant"), ("syn_kinked:shuf", "stepdown"), ("haynesville:desc", "random"))):
        p_i = P_INITIAL[table]
        out.append({"reservoir": "single", "table": table, "table_params": table_params(table), "p_i": p_i, "p_f": 0.5 * p_i, "ratio": 0.5, "nx": 30,
                    "grid": {"kind": "quadratic", "nt": 40, "t_end": 5.0, "seed": seed * 100057 + n}, "schedule": {"kind": sched, "seed": seed * 100069 + n, "levels": 4, "hold": 3}})
    # very small steps (mesh ratio << 1e-4), drawdown close to 1 and large
    for table, ratio, nx_ in (("gas", 0.95, 30), ("gas", 0.0125, 12), ("syn_kinked", 0.98, 30)):
        p_i = P_INITIAL[table]
        out.append({"reservoir": "single", "table": table, "table_params": table_params(table), "p_i": p_i, "p_f": ratio * p_i, "ratio": ratio, "nx": nx_,
                    "grid": {"kind": "micro"}, "schedule": {"kind": "constant"}})
    return out


def family(tier, seed):
    runs = []
    for n, (table, ratio, nx, grid, sched) in enumerate(itertools.product(TABLES, RATIOS, NXS, GRIDS, SCHEDULES)):
        p_i = P_INITIAL[table]
        runs.append({"reservoir": "single", "table": table, "table_params": table_params(table), "p_i": p_i, "p_f": ratio * p_i, "ratio": ratio, "nx": nx,
                     "grid": {"kind": grid, "nt": _nt(grid, nx, tier), "t_end": 5.0, "seed": seed * 100003 + n},
                     "schedule": {"kind": sched, "seed": seed * 100019 + n, "levels": 4, "hold": 3}})
    for n, (nx, grid) in enumerate(itertools.product(NXS, GRIDS)):
        runs.append({"reservoir": "ideal", "table": "ideal", "table_params": None, "p_i": 8000.0, "p_f": 4000.0, "ratio": 0.5, "nx": nx,
                     "grid": {"kind": grid, "nt": _nt(grid, nx, tier), "t_end": 5.0, "seed": seed * 100043 + n}, "schedule": {"kind": "constant"}})
    reordered = row_order_runs(seed)
    if tier != "quick":
        return runs + reordered
    rng = random.Random(seed)
    must, rest = list(reordered), []
    for r in runs:
        if r["reservoir"] == "single" and r["ratio"] in (0.9875, 0.999) and r["grid"]["kind"] == "big50" and r["schedule"]["kind"] == "constant":
            must.append(r)  # 4 tables x 2 ratios x 5 node counts = 40 runs
        elif r["reservoir"] == "single" and r["ratio"] == 0.5 and r["grid"]["kind"] == "random" and r["schedule"]["kind"] == "constant" and r["nx"] in (10, 30, 100):
            must.append(r)  # 12 runs: time-monotonicity on strongly non-uniform grids is always exercised
        else:
            rest.append(r)
    ideal = [r for r in rest if r["reservoir"] == "ideal"]
    single = [r for r in rest if r["reservoir"] == "single"]
    pick = rng.sample(single, 44) + rng.sample(ideal, 8)
    return must + pick


def run_key(inp):
    return (inp["table"], inp["ratio"], inp["nx"], inp["grid"]["kind"], inp["schedule"]["kind"])


def run(ctx):
    quick = ctx.tier == "quick"
    runs = family(ctx.tier, ctx.seed)
    B = Bounded("real simulate() runs: tables {gas, Haynesville, synthetic rising, synthetic kinked} + ideal; p_f/p_i in %s; nx in %s; grids %s; schedules %s; %s; "
                "%s, steady %g" % (list(RATIOS), list(NXS), list(GRIDS), list(SCHEDULES),
                                                             "seeded sub-sample of %d runs incl. every (table, nx) at p_f/p_i in {0.9875, 0.999} on the 20x50 grid and 12 constant-schedule runs on seeded random grids" % len(runs) if quick
                                                             else "full product, %d runs" % len(runs), TOL_TEXT, STEADY_TOL))
    records = []
    for inp in runs:
        key = run_key(inp)
        for clause, (ok, observed, required) in evaluate(inp).items():
            info = {"input": dict(inp, clause=clause), "observed": observed, "required": required}
            if clause == "mono.time" and not ok and inp["reservoir"] == "single" and inp["grid"]["kind"] == "random" and inp["schedule"]["kind"] == "constant":
                # SinglePhaseReservoir, seeded random grid, constant schedule: the frac-face row makes node 0 depend on the step
                # size; keyed so that a known-finding entry can match exactly this family and nothing else
                info["finding_key"] = "random-grid:single"
            records.append((clause, key, ok, info))
    feed(B, records, priority=("finite", "bounds.lower", "bounds.upper", "mono.space", "steady", "mono.time"))
    r = B.result()
    r["failed_per_clause"] = {c: sum(1 for x in records if x[0] == c and not x[2]) for c in sorted({x[0] for x in records if not x[2]})}
    r["runs"] = len(runs)
    r["tolerances"] = {"bounds/mono": TOL_TEXT, "steady": "%g * (m_i - m_f)" % STEADY_TOL}
    return r


def replay(case):
    """Re-run one violation record (either the record itself or its 'input' dict)."""
    inp = case.get("input", case)
    clause = inp.get("clause") or case.get("clause")
    res = evaluate(inp)
    if clause not in res:
        return {"reproduced": False, "reason": "clause %r does not apply to this run" % clause, "clauses": sorted(res)}
    ok, observed, required = res[clause]
    return {"reproduced": not ok, "clause": clause, "observed": observed, "required": required}
