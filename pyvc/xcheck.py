"""Extraction cross-check (DESIGN 2.2): the engine's result for a function under contract is evaluated in floats at
seeded random points of the precondition box and compared with a call of the REAL function.  A mismatch is an engine
error (exit 3), never a violation: this is the standing evidence that the verified text is the code that runs."""
from __future__ import annotations

import math
import random

from . import backends as be
from . import symex as sx
from . import term as tm
from .oblig import Obligation

XERR = "ERROR"


def _real(q):
    import importlib
    modname, path = q.split(":")
    obj = importlib.import_module(modname)
    for part in path.split("."):
        obj = getattr(obj, part)
    return obj


def scalar_xcheck(ctx, q, argnames, box, hyp_real=None, npoints=12, tol=1e-9, ints=(), opaque_z=False, call=None):
    """obligation: symbolic result of q(args) == real q(args) at random points (path selected by evaluating the path conditions)"""

    def run():
        eng = ctx.engine
        saved = dict(eng.opaque)
        if opaque_z:
            eng.opaque["bluebonnet.fluids.gas:z_factor_DAK"] = lambda ex, a, kw: tm.app("Z_DAK", a)
        try:
            args = [tm.var(a, tm.I if a in ints else tm.R) for a in argnames]
            outs = eng.run_paths(eng.func(q), args)
        finally:
            eng.opaque.clear()
            eng.opaque.update(saved)
        rf = _real(q)
        funcs = {}
        if opaque_z:
            zf = _real("bluebonnet.fluids.gas:z_factor_DAK")
            funcs["Z_DAK"] = lambda *a: float(zf(*a))
        rng = random.Random(ctx.seed + 17)
        done = 0
        tries = 0
        worst = 0.0
        while done < npoints and tries < npoints * 50:
            tries += 1
            pt = be.sample_point(box, rng, ints)
            if hyp_real is not None and not hyp_real(pt):
                continue
            env = {k: (float(v) if k not in ints else int(v)) for k, v in pt.items()}
            sel = []
            for o in outs:
                try:
                    if all(tm.feval(c, env, funcs) for c in o.pc):
                        sel.append(o)
                except tm.EvalError:
                    pass
            if len(sel) != 1:
                return be.Verdict(XERR, "XCHECK", detail=f"{len(sel)} paths of the extraction are enabled at {pt}")
            o = sel[0]
            try:
                real_v = rf(*[env[a] for a in argnames]) if call is None else call(rf, env)
                real_kind = "return"
            except Exception as e:  # noqa: BLE001
                real_v, real_kind = type(e).__name__, "raise"
            if o.kind != real_kind or (o.kind == "raise" and o.value != real_v):
                return be.Verdict(XERR, "XCHECK", detail=f"at {pt}: extraction {o.kind} {o.value if o.kind == 'raise' else ''}, real code {real_kind} {real_v if real_kind == 'raise' else ''}")
            if o.kind == "return":
                vals = o.value if isinstance(o.value, tuple) else (o.value,)
                reals = real_v if isinstance(real_v, tuple) else (real_v,)
                for sv, rv in zip(vals, reals):
                    try:
                        ev = tm.feval(sv, env, funcs) if isinstance(sv, tm.T) else sv
                    except tm.EvalError as e:
                        return be.Verdict(XERR, "XCHECK", detail=f"extraction cannot be evaluated at {pt}: {e}")
                    rv = float(rv)
                    err = abs(float(ev) - rv) / max(1.0, abs(rv))
                    worst = max(worst, err)
                    if not err <= tol:
                        return be.Verdict(XERR, "XCHECK", detail=f"at {pt}: extraction gives {ev!r}, the real function {rv!r}")
            done += 1
        if done == 0:
            return be.Verdict(be.UNKNOWN, "XCHECK", detail="no admissible point")
        return be.Verdict(be.PROVED, "XCHECK", detail=f"{done} points, worst relative difference {worst:.2e}", stats={"points": done})

    return Obligation(f"xcheck.{q.split(':')[1]}", f"extraction cross-check: the symbolic result of {q.split(':')[1]} evaluated in floats equals the real function at seeded random points of the box (1e-9)", run, [q], "XCHECK")


def array_xcheck(ctx, q, argnames, arr_arg, cases, tol=1e-12):
    """concrete arrays pushed through the symbolic engine (static lengths, each dtype) against the real numpy call"""

    def run():
        import numpy as np
        eng = ctx.engine
        rf = _real(q)
        n = 0
        for vals, arr, dt in cases:
            np_arr = np.array(arr, dtype={"f8": "float64", "f4": "float32", "i8": "int64", "i4": "int32"}[dt])
            sym = sx.arr_from_list([tm.const(int(x)) if dt.startswith("i") else tm.rconst(float(x)) for x in np_arr.tolist()], dt)
            args = [(sym if a == arr_arg else (tm.rconst(vals[a]) if isinstance(vals[a], float) else tm.const(vals[a]))) for a in argnames]
            outs = eng.run_paths(eng.func(q), lambda args=args: (list(args), {}))
            outs = [o for o in outs if all(c is tm.TRUE or (c.op == "bool" and c.args[0]) for c in o.pc) or not o.pc] or outs
            real_v = np.asarray(rf(*[(np_arr if a == arr_arg else vals[a]) for a in argnames]))
            ok = False
            for o in outs:
                if o.kind != "return":
                    continue
                res = o.value.arr if hasattr(o.value, "arr") else o.value
                elems = [res.get(tm.const(i)) for i in range(len(np_arr))]
                cvars = {v for e in elems for v in tm.free_vars(e)}
                for cnt in (1, 0):  # 'number of selected elements' symbols of mask selections: non-empty / empty
                    try:
                        got = [tm.feval(e, {v: cnt for v in cvars}) for e in elems]
                    except (tm.EvalError, sx.Raised):
                        continue
                    dt_ok = (res.dtype in ("f8", "f4")) == (real_v.dtype.kind == "f")
                    if dt_ok and np.allclose(np.array(got, dtype=float), real_v.astype(float), rtol=1e-6 if dt == "f4" else tol, atol=0):
                        ok = True
                        break
                if ok:
                    break
            if not ok:
                return be.Verdict(XERR, "XCHECK", detail=f"array semantics differ for dtype {dt}, pressures {np_arr.tolist()}, {vals}: real {real_v.tolist()} ({real_v.dtype})")
            n += 1
        return be.Verdict(be.PROVED, "XCHECK", detail=f"{n} concrete arrays (all four dtypes) agree with numpy", stats={"points": n})

    return Obligation(f"xcheck.array.{q.split(':')[1]}", f"extraction cross-check of the array model: concrete arrays of every dtype pushed through the symbolic engine for {q.split(':')[1]} equal the real numpy result (values and floating/integer kind)", run, [q], "XCHECK")
