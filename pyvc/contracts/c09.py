"""C09  Flow-property wrapper: monotone transform, bounded positive diffusivity.

Contract on FlowProperties.__init__ (both branches), FlowPropertiesSimple.__init__, rescale_pseudopressure, for
tables of symbolic length (DataFrame and dict of arrays) with increasing pressure and positive properties;
establishes FlowProperties.valid():
  init.columns / init.pi_outside_raises / init.frame
  init.mscaled_increasing    scaling factor > 0, m-scaled strictly increasing at the nodes and as an interpolant
  init.mi                    m_i == m_scaled_func(p_i)
  init.alpha_branch          with user alpha: m_i == 1 at a node; between nodes 1 <= m_i <= 1 + (dm)^2/(4 m_s m_{s+1})
  init.alpha_nodes           alpha[j] == 1/(c_j mu_j)
  alpha.range                lookup at any real query lies within [min alpha, max alpha] (> 0)
  rescale.endpoints/frame    rescaled column interpolates to 0 at p_frac and 1 at p_i; caller's table untouched
  simple.*                   the same for FlowPropertiesSimple
"""
from __future__ import annotations

from .. import backends as be
from .. import term as tm
from ..symex import ArrV, ObjV, TableV
from ..libmodels import Interp1dV
from .common import *  # noqa: F403

LEVEL = "proof"
EXPLANATION = "the constructors and rescale_pseudopressure are executed symbolically on tables of symbolic length; clauses are SMT obligations with the interp1d contract instantiated at Skolem segments (explicit instantiation, no quantifier reasoning left to the solver)"
TRUSTED = ["scipy interp1d (linear): for strictly increasing x every query in [x0, x_last] lies in a segment and the value is the chord; node value at a node; fill values / ValueError outside",
           "min/max of a non-empty array: bound for every element and attained", "copy.copy / DataFrame.copy / dict.copy models (shallow vs deep)",
           "monotone-sequence schema: (forall j. y_j < y_{j+1}) => (a < b => y_a < y_b) (induction on b - a)"]
ASSUMPTIONS = ["tables have increasing pressure and positive property columns (the property's precondition); instantiated at the Skolem indices each lemma uses"]

n = tm.var("n", tm.I)
j, s, s2, J = (tm.var(x, tm.I) for x in ("j", "s", "s2", "J"))
th, th2 = tm.var("theta"), tm.var("theta2")
pi, pf, q, q2 = sym_args(["p_i", "p_f", "q", "q2"])
ZERO, ONE = tm.rconst(0), tm.rconst(1)
LONG = ["pseudopressure", "compressibility", "pressure", "viscosity", "z-factor"]
SHORT = ["pressure", "pseudopressure", "alpha"]
SIMPLE = ["compressibility", "pressure", "viscosity"]
INIT = FP + "FlowProperties.__init__"
SINIT = FP + "FlowPropertiesSimple.__init__"
RESC = FP + "rescale_pseudopressure"


def col(c, i):
    return tm.app("T_" + c, [i])


def mk_table(cols, kind):
    return TableV({c: ArrV((n,), (lambda i, c=c: tm.app("T_" + c, i)), "f8", name="T_" + c) for c in cols}, kind)


def run_init(ctx, q_init, clsname, cols, kind):
    holder = {}

    def mk():
        tb = mk_table(cols, kind)
        holder["tb"] = tb
        o = ObjV(ctx.engine.cls(FP + clsname))
        return [o, tb, pi], {}

    outs = ctx.engine.run_paths(ctx.engine.func(q_init), mk, pc=[tm.ge(n, tm.const(2))])
    return outs


def table_hyps(cols, idxs):
    """increasing pressure / pseudopressure and positive properties, instantiated at the given indices"""
    h = []
    one = tm.const(1)
    for i in idxs:
        inr = tm.land(tm.le(tm.const(0), i), tm.lt(i, n))
        inr1 = tm.land(tm.le(tm.const(0), i), tm.lt(tm.add(i, one), n))
        for c in cols:
            h.append(tm.implies(inr, tm.gt(col(c, i), ZERO)))
        h.append(tm.implies(inr1, tm.lt(col("pressure", i), col("pressure", tm.add(i, one)))))
        if "pseudopressure" in cols:
            h.append(tm.implies(inr1, tm.lt(col("pseudopressure", i), col("pseudopressure", tm.add(i, one)))))
    return h


def ret_of(outs):
    rets = [o for o in outs if o.kind == "return"]
    if len(rets) != 1:
        raise sx.OutOfSubset(f"expected one returning path, found {len(rets)} of {len(outs)}")
    return rets[0]


def obj_of(o):
    return o.heap["args"][0]


def cols_of(o):
    pp = obj_of(o).fields["pvt_props"]
    return pp.cols if isinstance(pp, TableV) else pp


def path_h(o, *idx):
    h = list(o.pc) + list(o.facts)
    for qf in o.qfacts:
        for i in idx:
            h.append(qf(i))
    return h


# ---- real-code scenarios for replay ---------------------------------------------------------------


def real_tables():
    import numpy as np
    import pandas as pd
    out = []
    P = np.linspace(500.0, 8000.0, 16)
    z = 1 - 2e-5 * P + 4e-9 * P**2
    mu = 0.012 + 2e-6 * P
    c = 1 / P
    m = np.concatenate([[0.0], np.cumsum(np.diff(P) * ((2 * P / (mu * z))[1:] + (2 * P / (mu * z))[:-1]) / 2)]) + 1e5
    long_ = {"pressure": P, "pseudopressure": m, "compressibility": c, "viscosity": mu, "z-factor": z}
    out.append(("synthetic-long", long_))
    step = np.where(P < 3000, 800.0, 9e4) + 30 * np.sin(P)
    out.append(("synthetic-alpha-step", {"pressure": P, "pseudopressure": m, "alpha": step}))
    out.append(("synthetic-alpha-tiny-pseudopressure", {"pressure": P, "pseudopressure": m * 1e-17, "alpha": step}))
    out.append(("synthetic-long-with-user-alpha", dict(long_, alpha=step)))   # full PVT columns AND the user's own diffusivity: the user's column serves
    try:
        df = pd.read_csv("/repo/tests/data/pvt_gas.csv").rename(columns={"P": "pressure", "Z-Factor": "z-factor", "Cg": "compressibility", "Viscosity": "viscosity", "Density": "density"})
        out.append(("shipped pvt_gas.csv", df))
    except Exception:  # noqa: BLE001
        pass
    return out


def real_checks(which):
    """bounded search for a concrete failing input of one clause on the real code"""
    import copy
    import warnings
    import numpy as np
    import pandas as pd
    warnings.simplefilter("ignore")
    mod = __import__("bluebonnet.flow.flowproperties", fromlist=["x"])
    for name, tb in real_tables():
        for kind in ("dict", "DataFrame"):
            t = pd.DataFrame(tb) if kind == "DataFrame" else {k: np.array(v, dtype=float) for k, v in dict(tb).items()}
            P = np.asarray(t["pressure"], dtype=float)
            before = {k: np.array(t[k], dtype=float).copy() for k in list(t.keys())}
            keys_before = list(t.keys())
            for p_i in (float(P[len(P) // 2]), float(0.5 * (P[3] + P[4])), float(P[-1])):
                inp = {"table": name, "kind": kind, "p_i": p_i}
                try:
                    fp = mod.FlowProperties(t, p_i)
                except Exception as e:  # noqa: BLE001
                    return {"reproduced": True, "input": inp, "observed": f"{type(e).__name__}: {e}", "required": "construction succeeds"}
                if which == "frame":
                    # re-wrapping the first wrapper's own table must not touch it either
                    inner = fp.pvt_props
                    snap = {k: np.array(inner[k], dtype=float).copy() for k in list(inner.keys())}
                    try:
                        mod.FlowProperties(inner, float(P[2]))
                    except Exception:  # noqa: BLE001
                        pass
                    if list(inner.keys()) != list(snap.keys()) or any(not np.array_equal(np.asarray(inner[k], dtype=float), snap[k]) for k in snap):
                        return {"reproduced": True, "input": {**inp, "sequence": "fp1 = FlowProperties(table, p_i); FlowProperties(fp1.pvt_props, other p_i)"}, "observed": "fp1.pvt_props changed", "required": "unchanged"}
                    if list(t.keys()) != keys_before or any(not np.array_equal(np.asarray(t[k], dtype=float), before[k]) for k in keys_before):
                        return {"reproduced": True, "input": inp, "observed": {"keys": list(t.keys())}, "required": {"keys": keys_before, "values": "unchanged"}}
                ms = np.asarray(fp.pvt_props["m-scaled"], dtype=float)
                if which == "mscaled":
                    grid = np.linspace(P[0], P[-1], 400)
                    f = np.asarray(fp.m_scaled_func(grid), dtype=float)
                    if not (np.all(np.diff(ms) > 0) and np.all(np.diff(f) > 0) and abs(float(fp.m_i) - float(fp.m_scaled_func(p_i))) < 1e-14):
                        return {"reproduced": True, "input": inp, "observed": {"min node increment": float(np.diff(ms).min()), "m_i": float(fp.m_i)}, "required": "strictly increasing; m_i == m_scaled_func(p_i)"}
                if which == "alpha_branch" and "alpha" in keys_before:
                    if not np.array_equal(np.asarray(fp.pvt_props["alpha"], dtype=float), before["alpha"]):
                        return {"reproduced": True, "input": inp, "observed": {"alpha column of the wrapper": np.asarray(fp.pvt_props["alpha"], dtype=float)[:3].tolist()}, "required": {"the user's alpha column": before["alpha"][:3].tolist()}}
                    at_node = bool(np.any(P == p_i))
                    mi = float(fp.m_i)
                    if (at_node and abs(mi - 1) > 1e-12) or mi < 1 - 1e-12:
                        return {"reproduced": True, "input": inp, "observed": mi, "required": "1 at a node, >= 1 between nodes"}
                if which == "alpha_nodes" and "alpha" not in keys_before:
                    a = np.asarray(fp.pvt_props["alpha"], dtype=float)
                    want = 1 / (np.asarray(t["compressibility"], dtype=float) * np.asarray(t["viscosity"], dtype=float))
                    if not np.allclose(a, want, rtol=1e-13):
                        return {"reproduced": True, "input": inp, "observed": a[:3].tolist(), "required": want[:3].tolist()}
                if which == "range":
                    a = np.asarray(fp.pvt_props["alpha"], dtype=float)
                    qs = np.concatenate([np.linspace(ms[0], ms[-1], 2001), [ms[0] - 1, ms[0] - 1e6, ms[-1] + 1, ms[-1] + 1e9, -1e300, 1e300]])
                    v = np.asarray(fp.alpha(qs), dtype=float)
                    bad = ~np.isfinite(v) | (v < a.min() * (1 - 1e-12)) | (v > a.max() * (1 + 1e-12))
                    if bad.any():
                        k = int(np.argmax(bad))
                        return {"reproduced": True, "input": {**inp, "query": float(qs[k])}, "observed": float(v[k]), "required": [float(a.min()), float(a.max())]}
            if which == "outside":
                for p_out in (float(P[0]) - 1.0, float(P[-1]) + 1.0):
                    try:
                        mod.FlowProperties(t, p_out)
                        return {"reproduced": True, "input": {"table": name, "kind": kind, "p_i": p_out}, "observed": "returns", "required": "an error"}
                    except Exception:  # noqa: BLE001
                        pass
            if which == "columns":
                for drop in ("pressure", "pseudopressure"):
                    t2 = {k: v for k, v in dict(t).items() if k != drop} if kind == "dict" else t.drop(columns=[drop])
                    try:
                        mod.FlowProperties(t2, float(P[3]))
                        return {"reproduced": True, "input": {"table": name, "kind": kind, "dropped": drop}, "observed": "returns", "required": "ValueError"}
                    except ValueError:
                        pass
                    except Exception as e:  # noqa: BLE001
                        return {"reproduced": True, "input": {"table": name, "kind": kind, "dropped": drop}, "observed": type(e).__name__, "required": "ValueError"}
            if which in ("rescale", "rescale_frame"):
                p_f, p_i = float(P[1]) + 7.0, float(P[-3]) - 11.0
                t3 = copy.deepcopy(t)
                try:
                    new = mod.rescale_pseudopressure(t3, p_f, p_i)
                except Exception as e:  # noqa: BLE001
                    return {"reproduced": True, "input": {"table": name, "kind": kind, "p_frac": p_f, "p_i": p_i}, "observed": f"{type(e).__name__}: {e}", "required": "a rescaled table"}
                if which == "rescale_frame":
                    if list(t3.keys()) != keys_before or any(not np.array_equal(np.asarray(t3[k], dtype=float), before[k]) for k in keys_before):
                        return {"reproduced": True, "input": {"table": name, "kind": kind, "p_frac": p_f, "p_i": p_i}, "observed": "caller's table changed", "required": "unchanged"}
                else:
                    from scipy.interpolate import interp1d
                    g = interp1d(np.asarray(new["pressure"], dtype=float), np.asarray(new["pseudopressure"], dtype=float))
                    if abs(float(g(p_f))) > 1e-12 or abs(float(g(p_i)) - 1) > 1e-12:
                        return {"reproduced": True, "input": {"table": name, "kind": kind, "p_frac": p_f, "p_i": p_i}, "observed": [float(g(p_f)), float(g(p_i))], "required": [0.0, 1.0]}
    if which == "simple":
        P = np.linspace(100.0, 5000.0, 12)
        t = {"pressure": P, "compressibility": 1e-5 + 1e-9 * P, "viscosity": 1.0 + 1e-4 * P}
        before = {k: v.copy() for k, v in t.items()}
        fp = mod.FlowPropertiesSimple(t, 2345.0)
        a = 1 / (t["compressibility"] * t["viscosity"])
        v = np.asarray(fp.alpha(np.array([-1e9, 50.0, 2345.0, 6000.0, 1e12])), dtype=float)
        ok = abs(float(fp.m_i) - 2345.0) < 1e-9 and np.allclose(np.asarray(fp.pvt_props["alpha"]), a) and np.all((v >= a.min() * (1 - 1e-12)) & (v <= a.max() * (1 + 1e-12))) and list(t.keys()) == list(before.keys())
        if not ok:
            return {"reproduced": True, "input": {"table": "synthetic liquid", "p_i": 2345.0}, "observed": {"m_i": float(fp.m_i), "alpha lookups": v.tolist()}, "required": "m_i == p_i, alpha nodes 1/(c mu), lookups within range, caller's table unchanged"}
        for p_out in (99.0, 5000.5, 6000.0, 10.0):
            try:
                mod.FlowPropertiesSimple({k: v.copy() for k, v in t.items()}, p_out)
            except ValueError:
                continue
            except Exception as e:  # noqa: BLE001
                return {"reproduced": True, "input": {"table": "synthetic liquid, 100..5000 psi", "p_i": p_out}, "observed": f"{type(e).__name__}: {e}", "required": "ValueError"}
            return {"reproduced": True, "input": {"table": "synthetic liquid, 100..5000 psi", "p_i": p_out}, "observed": "constructed without error", "required": "ValueError (initial pressure outside the table)"}
    return {"reproduced": False}


def rp(which):
    return lambda w: real_checks(which)


def build(ctx):
    obs = []
    KINDS = ("DataFrame", "dict")

    # ---------------- columns / p_i outside / frame
    def columns():
        for kind in KINDS:
            for cols in (["pressure", "alpha"], ["pseudopressure", "alpha"], ["pressure", "pseudopressure"], ["pressure", "compressibility", "viscosity", "z-factor"], []):
                outs = run_init(ctx, INIT, "FlowProperties", cols, kind)
                if any(o.kind == "return" for o in outs) or any(o.value != "ValueError" for o in outs):
                    return be.Verdict(be.REFUTED, "SYMEX", witness={"columns": cols, "kind": kind}, detail=f"table with columns {cols} is accepted or raises {[o.value for o in outs]}")
            for cols in (LONG, SHORT, LONG + ["alpha"]):
                outs = run_init(ctx, INIT, "FlowProperties", cols, kind)
                if not any(o.kind == "return" for o in outs):
                    return be.Verdict(be.REFUTED, "SYMEX", witness={"columns": cols, "kind": kind}, detail=f"table with columns {cols} is rejected")
        return with_models(be.Verdict(be.PROVED, "SYMEX", detail="5 incomplete and 3 complete column sets, both table kinds"), *outs)

    obs.append(Obligation("init.columns", "FlowProperties(table, p_i) raises ValueError when neither the long nor the short column set is present, and accepts either set", columns, [INIT], "SYMEX", rp("columns")))

    def pi_outside(qf=INIT, clsname="FlowProperties", colsets=(LONG, SHORT)):
        v = None
        for kind in KINDS:
            for cols in colsets:
                outs = run_init(ctx, qf, clsname, cols, kind)
                x0, xl = col("pressure", tm.const(0)), col("pressure", tm.sub(n, tm.const(1)))
                inside = tm.land(tm.le(x0, pi), tm.le(pi, xl))
                goals = []
                for o in outs:
                    pc = tm.land(*o.pc)
                    if o.kind == "return":
                        goals.append(tm.implies(pc, inside))
                    elif o.value == "ValueError":
                        goals.append(tm.implies(pc, tm.lnot(inside)))
                    else:
                        return be.Verdict(be.REFUTED, "SMT", witness={}, detail=f"raises {o.value}")
                if not any(o.kind == "raise" for o in outs):
                    return be.Verdict(be.REFUTED, "SMT", witness={}, detail="no rejecting path for an initial pressure outside the table")
                v = be.prove_smt(tm.land(*goals), [], want={"p_i": pi, "p_first": x0, "p_last": xl})
                if v.status != be.PROVED:
                    return with_models(v, *outs)
        return with_models(v, *outs)

    obs.append(Obligation("init.pi_outside_raises", "FlowProperties(table, p_i) returns only for p_first <= p_i <= p_last and raises ValueError otherwise", pi_outside, [INIT], "SMT", rp("outside")))

    def frame(qf, clsname, colsets):
        def run():
            for kind in KINDS:
                for cols in colsets:
                    outs = run_init(ctx, qf, clsname, cols, kind)
                    for o in outs:
                        tb = o.heap["args"][1]
                        if list(tb.cols.keys()) != cols or tb.version != 0:
                            return be.Verdict(be.REFUTED, "FRAME", witness={"kind": kind}, detail=f"caller's {kind} gains/loses columns: {list(tb.cols.keys())}")
                        for c, a in tb.cols.items():
                            if a.version != 0:
                                return be.Verdict(be.REFUTED, "FRAME", witness={"kind": kind}, detail=f"caller's column {c} is written in place")
                        if o.kind == "return":
                            pp = obj_of(o).fields.get("pvt_props")
                            if pp is tb:
                                return be.Verdict(be.REFUTED, "FRAME", witness={"kind": kind}, detail="the wrapper stores the caller's table object itself")
            return with_models(be.Verdict(be.PROVED, "FRAME", detail="no store reaches the caller's table or its arrays on any path"), *outs)
        return run

    obs.append(Obligation("init.frame", "FlowProperties.__init__ leaves the caller's table (DataFrame or dict; raw, with a user alpha column, or already carrying the derived columns of an earlier wrapper) with the same keys and arrays: writes go to the copy", frame(INIT, "FlowProperties", (LONG, SHORT, LONG + ["alpha", "m-scaled"], SHORT + ["m-scaled"])), [INIT], "FRAME", rp("frame")))

    # ---------------- scaled pseudopressure
    def interps(o):
        return o.heap["ghost"].get("interps", {})

    def find_interp(o, xname, ycol_pred):
        for nm, I in interps(o).items():
            if getattr(I.x, "srcname", None) == xname and ycol_pred(I):
                return I
        return None

    def mscaled(colset):
        def run():
            v = None
            for kind in KINDS:
                o = ret_of(run_init(ctx, INIT, "FlowProperties", colset, kind))
                obj, cols = obj_of(o), cols_of(o)
                msf = obj.fields["m_scaled_func"]
                if not isinstance(msf, Interp1dV) or msf.kind != "linear":
                    return be.Verdict(be.REFUTED, "SMT", witness={}, detail="m_scaled_func is not a linear interpolant")
                ms = lambda i: cols["m-scaled"].get(i)
                # factor: the unique interpolant evaluated at p_i whose value multiplies pseudopressure
                calls = o.heap["ghost"].get("interp_calls", [])
                scale_I = [I for (I, qq) in calls if I is not msf and qq is pi]
                if len(scale_I) != 1:
                    return be.Verdict(be.REFUTED, "SMT", witness={}, detail="cannot identify the scaling interpolant")
                I = scale_I[0]
                factor = I.app(pi)
                if ms(j) is not tm.mul(col("pseudopressure", j), factor) and be.prove_equal_cas(ms(j), tm.mul(col("pseudopressure", j), factor), {"j": (0, 20)}, ints=("j",)).status != be.PROVED:
                    return be.Verdict(be.REFUTED, "SMT", witness={}, detail=f"m-scaled[j] is not pseudopressure[j] * factor(p_i): {ms(j)}")
                hyp = path_h(o, s, j) + table_hyps(colset, [s, tm.add(s, tm.const(1)), j, tm.add(j, tm.const(1))]) + I.seg_facts(pi, s, th)
                g1 = tm.gt(factor, ZERO)
                v = be.prove_smt(g1, hyp, timeout_ms=20000)
                if v.status != be.PROVED:
                    v.detail = "scaling factor > 0: " + v.detail
                    return with_models(v, o)
                g2 = tm.implies(tm.land(tm.le(tm.const(0), j), tm.lt(tm.add(j, tm.const(1)), n)), tm.lt(ms(j), ms(tm.add(j, tm.const(1)))))
                v = be.prove_smt(g2, hyp + [g1], timeout_ms=20000)
                if v.status != be.PROVED:
                    v.detail = "m-scaled strictly increasing at the nodes: " + v.detail
                    return with_models(v, o)
                # as a function: q < q2 in range => m_scaled_func(q) < m_scaled_func(q2)
                if msf.xf(j) is not col("pressure", j):
                    return be.Verdict(be.REFUTED, "SMT", witness={}, detail="m_scaled_func is not built over the pressure column")
                one = tm.const(1)
                ysf = lambda i: msf.yf(i)
                inc_nodes = [tm.implies(tm.land(tm.le(tm.const(0), i), tm.lt(tm.add(i, one), n)), tm.lt(ysf(i), ysf(tm.add(i, one)))) for i in (s, s2)]
                incx = [tm.implies(tm.land(tm.le(tm.const(0), i), tm.lt(tm.add(i, one), n)), tm.lt(msf.xf(i), msf.xf(tm.add(i, one)))) for i in (s, s2)]
                seq = [tm.implies(tm.lt(tm.add(s, one), s2), tm.lt(ysf(tm.add(s, one)), ysf(s2))),  # monotone-sequence schema instance
                       tm.implies(tm.lt(s2, s), tm.le(msf.xf(tm.add(s2, one)), msf.xf(s)))]
                x0, xl = msf.xf(tm.const(0)), msf.xf(tm.sub(n, one))
                hyp2 = msf.seg_facts(q, s, th) + msf.seg_facts(q2, s2, th2) + inc_nodes + incx + seq + [tm.le(x0, q), tm.lt(q, q2), tm.le(q2, xl), tm.ge(n, tm.const(2))]
                v = be.prove_smt(tm.lt(msf.app(q), msf.app(q2)), hyp2, timeout_ms=30000)
                if v.status != be.PROVED:
                    v.detail = "m_scaled_func strictly increasing as a function: " + v.detail
                    return with_models(v, o)
                # the interpolant's y is the m-scaled column and m_i is its value at p_i
                if msf.yf(j) is not ms(j) or obj.fields["m_i"] is not msf.app(pi):
                    return be.Verdict(be.REFUTED, "SMT", witness={}, detail="m_i is not m_scaled_func(p_i) / the interpolant is not over the m-scaled column")
            return with_models(v, o)
        return run

    obs.append(Obligation("init.mscaled_increasing.long", "no-alpha branch: scaling factor > 0; m-scaled strictly increasing at the nodes and m_scaled_func strictly increasing as a function; m_i == m_scaled_func(p_i)", mscaled(LONG), [INIT], "SMT", rp("mscaled")))
    obs.append(Obligation("init.mscaled_increasing.alpha", "user-alpha branch: the same", mscaled(SHORT), [INIT], "SMT", rp("mscaled")))

    def alpha_branch():
        v = None
        for kind, USER in ((k_, c_) for k_ in KINDS for c_ in (SHORT, LONG + ["alpha"])):   # the short table, and a full PVT table that also carries the user's alpha
            o = ret_of(run_init(ctx, INIT, "FlowProperties", USER, kind))
            obj, cols = obj_of(o), cols_of(o)
            if cols["alpha"].get(j) is not col("alpha", j):
                return with_models(be.Verdict(be.REFUTED, "SMT", witness={"columns": USER, "kind": kind}, detail=f"the table carries the user's alpha column (columns {USER}) but the wrapper's alpha column is {str(cols['alpha'].get(j))[:120]}"), o)
            msf = obj.fields["m_scaled_func"]
            calls = o.heap["ghost"].get("interp_calls", [])
            I = [I_ for (I_, qq) in calls if I_ is not msf and qq is pi]
            if len(I) != 1:
                return be.Verdict(be.REFUTED, "SMT", witness={}, detail="cannot identify the scaling interpolant")
            I = I[0]
            mi = obj.fields["m_i"]
            idx = [s, tm.add(s, tm.const(1)), J]
            base = path_h(o, s, J) + table_hyps(USER, idx)
            # both interpolants are over the same pressure column: the same segment and theta serve both
            if I.xf(j) is not col("pressure", j) or msf.xf(j) is not col("pressure", j):
                return be.Verdict(be.REFUTED, "SMT", witness={}, detail="interpolants are not over the pressure column")
            hyp = base + I.seg_facts(pi, s, th) + msf.seg_facts(pi, s, th)
            a, b = col("pseudopressure", s), col("pseudopressure", tm.add(s, tm.const(1)))
            goal = tm.land(tm.ge(mi, ONE), tm.le(tm.mul(tm.sub(mi, ONE), tm.rconst(4), a, b), tm.mul(tm.sub(b, a), tm.sub(b, a))))
            v = be.prove_smt(goal, hyp, timeout_ms=60000)
            if v.status != be.PROVED:
                v.detail = "between nodes 1 <= m_i <= 1 + (dm)^2/(4 m_s m_s+1): " + v.detail
                return with_models(v, o)
            hypn = base + [I.node_fact(J), msf.node_fact(J), tm.eq(pi, col("pressure", J)), tm.le(tm.const(0), J), tm.lt(J, n)]
            v = be.prove_smt(tm.eq(mi, ONE), hypn, timeout_ms=20000)
            if v.status != be.PROVED:
                v.detail = "m_i == 1 when p_i is a table node: " + v.detail
                return with_models(v, o)
        return with_models(v, o)

    obs.append(Obligation("init.alpha_branch", "a table with a user alpha column (alone, or next to the full PVT columns): the wrapper keeps the user's column; m_i == 1 when p_i is a table node; otherwise 1 <= m_i <= 1 + (m_{s+1} - m_s)^2 / (4 m_s m_{s+1}) (linear-interpolation error)", alpha_branch, [INIT], "SMT", rp("alpha_branch")))

    def alpha_nodes(qf, clsname, colset):
        def run():
            v = None
            for kind in KINDS:
                o = ret_of(run_init(ctx, qf, clsname, colset, kind))
                a = cols_of(o)["alpha"].get(j)
                spec = ONE / (col("compressibility", j) * col("viscosity", j))
                v = be.prove_equal_cas(a, spec, {"j": (0, 30)}, ints=("j",), seed=ctx.seed)
                if v.status != be.PROVED:
                    return with_models(v, o)
            return with_models(v, o)
        return run

    obs.append(Obligation("init.alpha_nodes", "no-alpha branch: alpha[j] == 1 / (compressibility[j] * viscosity[j])", alpha_nodes(INIT, "FlowProperties", LONG), [INIT], "CAS", rp("alpha_nodes")))

    def alpha_range(qf, clsname, colset):
        def run():
            v = None
            for kind in KINDS:
                o = ret_of(run_init(ctx, qf, clsname, colset, kind))
                obj, cols = obj_of(o), cols_of(o)
                A = obj.fields["alpha"]
                if not isinstance(A, Interp1dV):
                    return be.Verdict(be.REFUTED, "SMT", witness={}, detail="alpha is not an interpolant")
                if A.kind != "linear":
                    return be.Verdict(be.REFUTED, "SMT", witness={}, detail=f"alpha interpolant of kind {A.kind!r}: only node values are guaranteed, values between nodes may leave [min, max]")
                if A.mode != "fill":
                    return be.Verdict(be.REFUTED, "SMT", witness={}, detail=f"alpha lookup outside the table is not clipped (mode {A.mode}: NaN / error / extrapolation)")
                ext = o.heap["ghost"].get("extrema", {})
                mins = [tm.app(nm, (), tm.R) for nm in ext if nm.startswith("min")]
                maxs = [tm.app(nm, (), tm.R) for nm in ext if nm.startswith("max")]
                if len(mins) != 1 or len(maxs) != 1 or A.fill_lo is not mins[0] or A.fill_hi is not maxs[0]:
                    return be.Verdict(be.REFUTED, "SMT", witness={}, detail="fill values are not (min alpha, max alpha)")
                if A.yf(j) is not cols["alpha"].get(j):
                    return be.Verdict(be.REFUTED, "SMT", witness={}, detail="alpha interpolant is not over the alpha column")
                one = tm.const(1)
                ats = [tm.app(nm + "_at", (), tm.I) for nm in ext]
                hyp = path_h(o, s, tm.add(s, one), *ats) + A.seg_facts(q, s, th) + A.outside_facts(q) + [tm.ge(n, tm.const(2))]
                hyp += table_hyps(colset, [s, tm.add(s, one)] + ats)
                goal = tm.land(tm.le(mins[0], A.app(q)), tm.le(A.app(q), maxs[0]), tm.gt(mins[0], ZERO))
                v = be.prove_smt(goal, hyp, timeout_ms=30000)
                if v.status != be.PROVED:
                    return with_models(v, o)
            return with_models(v, o)
        return run

    obs.append(Obligation("alpha.range", "for every real query q (inside or outside the table): 0 < min(alpha) <= alpha(q) <= max(alpha)", alpha_range(INIT, "FlowProperties", LONG), [INIT], "SMT", rp("range")))
    obs.append(Obligation("alpha.range.user", "the same with a user-supplied alpha column", alpha_range(INIT, "FlowProperties", SHORT), [INIT], "SMT", rp("range")))

    # ---------------- rescale_pseudopressure
    def run_rescale(kind):
        holder = {}

        def mk():
            tb = mk_table(["pressure", "pseudopressure", "viscosity"], kind)
            holder["tb"] = tb
            return [tb, pf, pi], {}

        outs = ctx.engine.run_paths(ctx.engine.func(RESC), mk, pc=[tm.ge(n, tm.const(2))])
        return outs

    def rescale():
        v = None
        for kind in KINDS:
            outs = run_rescale(kind)
            rets = [o for o in outs if o.kind == "return"]
            if len(rets) != 1:
                return be.Verdict(be.REFUTED, "SMT", witness={"kind": kind}, detail=f"rescale_pseudopressure({kind}): {len(rets)} returning paths; raises {[o.value for o in outs if o.kind == 'raise']}")
            o = rets[0]
            if any(x.kind == "raise" and x.value != "ValueError" for x in outs):
                return be.Verdict(be.REFUTED, "SMT", witness={"kind": kind}, detail=f"raises {[x.value for x in outs if x.kind == 'raise']}")
            new = o.value
            ncols = new.cols if isinstance(new, TableV) else new
            I = list(interps(o).values())
            if len(I) != 1 or I[0].xf(j) is not col("pressure", j) or I[0].yf(j) is not col("pseudopressure", j):
                return be.Verdict(be.REFUTED, "SMT", witness={}, detail="not an interpolant of pseudopressure over pressure")
            I = I[0]
            # new column at node j in terms of node values
            yj = ncols["pseudopressure"].get(j)
            A, B = I.app(pf), I.app(pi)
            one = tm.const(1)
            # interpolating the new column at a query q in segment s: chord of the new node values
            newchord = lambda i: ncols["pseudopressure"].get(i)
            val = lambda th_, i: tm.add(newchord(i), tm.mul(th_, tm.sub(newchord(tm.add(i, one)), newchord(i))))
            hyp = path_h(o, s, s2) + [I.node_fact(s), I.node_fact(tm.add(s, one)), I.node_fact(s2), I.node_fact(tm.add(s2, one))] + I.seg_facts(pf, s, th) + I.seg_facts(pi, s2, th2) + [tm.ne(A, B)]
            goal = tm.land(tm.eq(val(th, s), ZERO), tm.eq(val(th2, s2), ONE))
            v = be.prove_smt(goal, hyp, timeout_ms=30000)
            if v.status != be.PROVED:
                v.detail = f"[{kind}] rescaled column does not interpolate to 0 at p_frac / 1 at p_i: " + v.detail
                return with_models(v, o)
            if ncols["pressure"].get(j) is not col("pressure", j):
                return be.Verdict(be.REFUTED, "SMT", witness={}, detail="pressure column changed")
        return with_models(v, o)

    obs.append(Obligation("rescale.endpoints", "rescale_pseudopressure: the new pseudopressure column, interpolated over pressure, is 0 at p_frac and 1 at p_i (DataFrame and dict of arrays)", rescale, [RESC], "SMT", rp("rescale")))

    def rescale_frame():
        for kind in KINDS:
            for o in run_rescale(kind):
                tb = o.heap["args"][0]
                if list(tb.cols.keys()) != ["pressure", "pseudopressure", "viscosity"] or tb.version != 0 or any(a.version != 0 for a in tb.cols.values()):
                    return be.Verdict(be.REFUTED, "FRAME", witness={"kind": kind}, detail=f"caller's {kind} is modified (keys {list(tb.cols.keys())}, in-place writes {[c for c, a in tb.cols.items() if a.version]})")
                if o.kind == "return" and o.value is tb:
                    return be.Verdict(be.REFUTED, "FRAME", witness={"kind": kind}, detail="returns the caller's table itself")
        return be.Verdict(be.PROVED, "FRAME", detail="no store reaches the caller's table or its arrays")

    obs.append(Obligation("rescale.frame", "rescale_pseudopressure leaves the caller's table and its arrays untouched (DataFrame: deep copy; dict: shallow copy and no in-place array operation)", rescale_frame, [RESC], "FRAME", rp("rescale_frame")))

    # ---------------- FlowPropertiesSimple
    def simple():
        v = None
        for kind in KINDS:
            outs = run_init(ctx, SINIT, "FlowPropertiesSimple", SIMPLE, kind)
            o = ret_of(outs)
            obj, cols = obj_of(o), cols_of(o)
            msf = obj.fields["m_scaled_func"]
            hyp = path_h(o, s) + msf.seg_facts(pi, s, th)
            if msf.xf(j) is not col("pressure", j) or msf.yf(j) is not col("pressure", j):
                return be.Verdict(be.REFUTED, "SMT", witness={}, detail="m-scaled is not the pressure column")
            v = be.prove_smt(tm.eq(obj.fields["m_i"], pi), hyp, timeout_ms=20000)
            if v.status != be.PROVED:
                v.detail = "FlowPropertiesSimple: m_i == p_i: " + v.detail
                return with_models(v, o)
            for cols_bad in (["pressure", "viscosity"], ["compressibility", "viscosity"]):
                o2 = run_init(ctx, SINIT, "FlowPropertiesSimple", cols_bad, kind)
                if any(x.kind == "return" for x in o2) or any(x.value != "ValueError" for x in o2):
                    return be.Verdict(be.REFUTED, "SYMEX", witness={}, detail=f"missing columns accepted: {cols_bad}")
        return with_models(v, o)

    obs.append(Obligation("simple.mi_and_columns", "FlowPropertiesSimple: m-scaled is the pressure column, m_i == p_i, missing columns raise ValueError", simple, [SINIT], "SMT", rp("simple")))
    obs.append(Obligation("simple.pi_outside_raises", "FlowPropertiesSimple(table, p_i) returns only for p_first <= p_i <= p_last and raises ValueError otherwise", lambda: pi_outside(SINIT, "FlowPropertiesSimple", (SIMPLE,)), [SINIT], "SMT", rp("simple")))
    obs.append(Obligation("simple.alpha_nodes", "FlowPropertiesSimple: alpha[j] == 1 / (compressibility[j] * viscosity[j])", alpha_nodes(SINIT, "FlowPropertiesSimple", SIMPLE), [SINIT], "CAS", rp("simple")))
    obs.append(Obligation("simple.alpha_range", "FlowPropertiesSimple: every lookup within [min alpha, max alpha], > 0", alpha_range(SINIT, "FlowPropertiesSimple", SIMPLE), [SINIT], "SMT", rp("simple")))
    obs.append(Obligation("simple.frame", "FlowPropertiesSimple.__init__ leaves the caller's table untouched", frame(SINIT, "FlowPropertiesSimple", (SIMPLE,)), [SINIT], "FRAME", rp("simple")))

    def canary():
        o = ret_of(run_init(ctx, INIT, "FlowProperties", SHORT, "dict"))
        obj = obj_of(o)
        msf = obj.fields["m_scaled_func"]
        calls = o.heap["ghost"].get("interp_calls", [])
        I = [I_ for (I_, qq) in calls if I_ is not msf and qq is pi][0]
        hyp = path_h(o, s) + table_hyps(SHORT, [s, tm.add(s, tm.const(1))]) + I.seg_facts(pi, s, th) + msf.seg_facts(pi, s, th)
        return be.prove_smt(tm.eq(obj.fields["m_i"], ONE), hyp, timeout_ms=20000)

    obs.append(Obligation("canary.smt", "CANARY (must be refuted): with user alpha m_i == 1 also between table nodes", canary, [INIT], "SMT", expect=be.REFUTED))
    if ctx.tier == "thorough":
        obs.append(lean_obligation(ctx, ['pyvc_chord_between', 'pyvc_am_hm', 'pyvc_monotone_sequence']))
    return obs


def bounded(ctx):
    """pandas containers (label alignment) are outside the array model of the executor: bounded family 'container independence'"""
    from ..rt import containers
    return containers.run(['flowproperties'])
