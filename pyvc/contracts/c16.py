"""C16  Multiphase storage is a pressure derivative; diffusivity is mobility over it.
   C15 shares the helpers of this module (documented mobility, from_table execution).

  c.is_difference      compressibility_combined_func == S(p + 1/2) - S(p - 1/2) with the documented storage function
                       S(q) = phi [rho_o (Rv Sg/Bg + So/Bo) + rho_g (Rs So/Bo + Sg/Bg) + rho_w Sw/Bw](q), Sg = 1 - So - Sw
  c.zero_for_constant  pressure-independent tables => 0;   c.prop_phi  proportional to porosity
  lambda.documented    lambda_combined_func == documented sum over components
  alpha.quotient       alpha_multiphase == lambda / c
  from_table.alpha     FlowPropertiesTwoPhase.from_table stores alpha[j] == lambda(p_j, So_j)/c(p_j, So_j) built from
                       interpolants of the table columns over pressure that continue linearly outside the table
"""
from __future__ import annotations

from .. import backends as be
from .. import term as tm
from ..symex import ArrV, ObjV, OpaqueFn, TableV
from ..libmodels import Interp1dV
from .common import *  # noqa: F403

LEVEL = "proof"
EXPLANATION = "the multiphase functions are executed symbolically with the PVT / rel-perm interpolants as uninterpreted functions; each clause is a CAS identity against the documented formula (docs/background.md:68-96); from_table is executed on tables of symbolic length"
TRUSTED = ["scipy interp1d model (piecewise linear; 'extrapolate' = linear continuation)", "the gas storage term in docs/background.md:76 reads S_g/b_o; the mass-conservation equation lower in the same file and the code use S_g/b_g: the contract uses S_g/B_g"]
ASSUMPTIONS = []

p, So, Sw, phi, lam = sym_args(["p", "So", "Sw", "phi", "lam"])
RHO = {k: tm.var(k) for k in ("rho_o0", "rho_g0", "rho_w0")}
PROPS = ["Bo", "Bg", "Bw", "Rs", "Rv", "mu_o", "mu_g", "mu_w"]
HALF = tm.rconst("0.5")
BOX = {"p": (100.0, 9000.0), "So": (0.05, 0.9), "Sw": (0.0, 0.3), "phi": (0.01, 0.4), "rho_o0": (30.0, 60.0), "rho_g0": (0.01, 0.2), "rho_w0": (60.0, 70.0), "lam": (0.1, 10.0)}
CC = FP + "compressibility_combined_func"
LC = FP + "lambda_combined_func"
AM = FP + "alpha_multiphase"
M3 = FP + "pseudopressure_threephase"
FT = FP + "FlowPropertiesTwoPhase.from_table"


def F(name, x):
    return tm.app(name, [x])


def pvt_dict():
    d = {k: OpaqueFn(k) for k in PROPS}
    d.update(RHO)
    return d


def kr_dict():
    return {k: OpaqueFn(k) for k in ("kro", "krg", "krw")}


def storage(q, so, sw, ph, f=F):
    sg = 1 - so - sw
    return ph * (RHO["rho_o0"] * (f("Rv", q) * sg / f("Bg", q) + so / f("Bo", q)) + RHO["rho_g0"] * (f("Rs", q) * so / f("Bo", q) + sg / f("Bg", q)) + RHO["rho_w0"] * sw / f("Bw", q))


def mobility(q, so, f=F, k=F):
    return (RHO["rho_o0"] * (f("Rv", q) * k("krg", so) / (f("mu_g", q) * f("Bg", q)) + k("kro", so) / (f("mu_o", q) * f("Bo", q)))
            + RHO["rho_g0"] * (f("Rs", q) * k("kro", so) / (f("mu_o", q) * f("Bo", q)) + k("krg", so) / (f("mu_g", q) * f("Bg", q)))
            + RHO["rho_w0"] * (k("krw", so) / (f("mu_w", q) * f("Bw", q))))


def synth_tables(rv=0.0, n=40, const=False, stiff=1.0):
    """synthetic PVT with 1/B linear in pressure (known analytic storage slope) for replays; stiff < 1 scales every
    pressure slope (nearly incompressible fluids: storage per psi far below 1e-6)"""
    import numpy as np
    P = np.linspace(500.0, 8000.0, n)
    z = np.zeros_like(P) if const else P * stiff
    pv = {"pressure": P, "Bo": 1 / (0.7 + 2e-5 * z), "Bg": 1 / (0.2 + 4e-4 * z), "Bw": 1 / (0.98 + 1e-6 * z), "Rs": 0.1 + 2e-4 * z, "Rv": rv * (1 + 1e-4 * z),
          "mu_o": 1.2 - 5e-5 * z, "mu_g": 0.02 + 1e-6 * z, "mu_w": 0.5 + 0 * z, "So": np.linspace(0.4, 0.8, n)}
    pv["pseudopressure"] = P.copy()
    return pv


def real_storage(pv, q, so, sw, ph, rho):
    import numpy as np
    f = lambda k: np.interp(q, pv["pressure"], pv[k]) if pv["pressure"][0] <= q <= pv["pressure"][-1] else float(__import__("scipy.interpolate", fromlist=["x"]).interp1d(pv["pressure"], pv[k], fill_value="extrapolate")(q))
    sg = 1 - so - sw
    return ph * (rho["rho_o0"] * (f("Rv") * sg / f("Bg") + so / f("Bo")) + rho["rho_g0"] * (f("Rs") * so / f("Bo") + sg / f("Bg")) + rho["rho_w0"] * sw / f("Bw"))


def real_pvt_funcs(pv):
    from scipy.interpolate import interp1d
    return {k: interp1d(pv["pressure"], pv[k], fill_value="extrapolate") for k in PROPS}


RHO_REAL = {"rho_o0": 50.0, "rho_g0": 0.06, "rho_w0": 62.4}


def build(ctx):
    obs = []

    def is_difference():
        # pressure as python float, python int, and as an int64 array (the shipped multiphase table has an integer pressure column)
        pint = tm.var("p", tm.I)
        jj = tm.var("j", tm.I)
        parr = ArrV((tm.var("n", tm.I),), lambda i: tm.app("p_in", i, tm.I), "i8", name="p_in")
        v = None
        for tag, parg, pel in (("float", p, p), ("python int", pint, pint), ("int64 array", parr, tm.app("p_in", [jj], tm.I))):
            o = one_path(ctx, CC, [parg, So, phi, Sw, pvt_dict()])
            val = o.value.get(jj) if isinstance(o.value, ArrV) else o.value
            pr_ = tm.toreal(pel)
            spec = storage(pr_ + HALF, So, Sw, phi) - storage(pr_ - HALF, So, Sw, phi)
            sub = {pel: tm.var("p")} if pel is not p else {}
            v = be.prove_equal_cas(tm.subst(val, sub), tm.subst(spec, sub), BOX, seed=ctx.seed)
            if v.status != be.PROVED:
                v.detail = f"[pressure given as {tag}] " + v.detail
                if v.witness is not None:
                    v.witness["pressure_type"] = tag
                return with_models(v, o)
        return with_models(v, o)

    def c_real(pt):
        import numpy as np
        for rv in (0.0, 0.02):
            pv = synth_tables(rv)
            fn = dict(real_pvt_funcs(pv), **RHO_REAL)
            q = min(max(pt.get("p", 3000.0), 600.0), 7900.0)
            so, sw, ph = pt.get("So", 0.6), pt.get("Sw", 0.1), pt.get("phi", 0.1)
            got = real(CC)(q, so, ph, sw, fn)
            want = real_storage(pv, q + 0.5, so, sw, ph, RHO_REAL) - real_storage(pv, q - 0.5, so, sw, ph, RHO_REAL)
            if not close(got, want, 1e-9):
                return got, want
            qi = np.array([1000, 3000, 6000], dtype="int64")
            goti = np.asarray(real(CC)(qi, so, ph, sw, fn), dtype=float)
            wanti = np.array([real_storage(pv, float(x) + 0.5, so, sw, ph, RHO_REAL) - real_storage(pv, float(x) - 0.5, so, sw, ph, RHO_REAL) for x in qi])
            if not close(goti, wanti, 1e-9):
                return goti, wanti
        return got, want

    obs.append(Obligation("c.is_difference", "compressibility_combined_func == S(p+0.5) - S(p-0.5) for the documented storage function at fixed saturations (PVT functions uninterpreted), for float, integer and integer-array pressures", is_difference, [CC], "CAS",
                          replay_pair(c_real, 1e-9, box=BOX, seed=ctx.seed)))

    def zero_const():
        o = one_path(ctx, CC, [p, So, phi, Sw, pvt_dict()])
        sub = {}
        for nd in tm.postorder(o.value):
            if nd.op == "app" and nd.args[0] in PROPS:
                sub[nd] = tm.var("const_" + nd.args[0])
        return tm.subst(o.value, sub), tm.rconst(0), None, o

    def zero_real(pt):
        pv = synth_tables(0.01, const=True)
        fn = dict(real_pvt_funcs(pv), **RHO_REAL)
        return real(CC)(3000.0, 0.6, 0.1, 0.1, fn), 0.0

    obs.append(cas_ob(ctx, "c.zero_for_constant", "pressure-independent PVT functions => compressibility_combined_func == 0", zero_const, dict(BOX, **{"const_" + k: (0.1, 2.0) for k in PROPS}), [CC], zero_real, tol=1e-12))

    def prop_phi():
        o1 = one_path(ctx, CC, [p, So, lam * phi, Sw, pvt_dict()])
        o2 = one_path(ctx, CC, [p, So, phi, Sw, pvt_dict()])
        return o1.value, lam * o2.value, None, o1

    obs.append(cas_ob(ctx, "c.prop_phi", "compressibility_combined_func(lam * phi) == lam * compressibility_combined_func(phi)", prop_phi, BOX, [CC], None))

    def lam_doc():
        o = one_path(ctx, LC, [p, So, pvt_dict(), kr_dict()])
        return o.value, mobility(p, So), None, o

    def lam_real(pt):
        import numpy as np
        pv = synth_tables(0.02)
        fn = dict(real_pvt_funcs(pv), **RHO_REAL)
        kr = {"kro": lambda s: s**2, "krg": lambda s: (1 - s) ** 1.5 * 0.8, "krw": lambda s: 0.05 + 0 * s}
        q, so = 3000.0, 0.6
        f = lambda k: float(fn[k](q))
        want = (RHO_REAL["rho_o0"] * (f("Rv") * kr["krg"](so) / (f("mu_g") * f("Bg")) + kr["kro"](so) / (f("mu_o") * f("Bo")))
                + RHO_REAL["rho_g0"] * (f("Rs") * kr["kro"](so) / (f("mu_o") * f("Bo")) + kr["krg"](so) / (f("mu_g") * f("Bg"))) + RHO_REAL["rho_w0"] * kr["krw"](so) / (f("mu_w") * f("Bw")))
        return real(LC)(q, so, fn, kr), want

    obs.append(cas_ob(ctx, "lambda.documented", "lambda_combined_func == rho_o (Rv krg/(mu_g Bg) + kro/(mu_o Bo)) + rho_g (Rs kro/(mu_o Bo) + krg/(mu_g Bg)) + rho_w krw/(mu_w Bw)", lam_doc, BOX, [LC], lam_real, tol=1e-12))

    def quotient():
        o = one_path(ctx, AM, [p, So, phi, Sw, pvt_dict(), kr_dict()])
        l = one_path(ctx, LC, [p, So, pvt_dict(), kr_dict()])
        c = one_path(ctx, CC, [p, So, phi, Sw, pvt_dict()])
        return o.value, l.value / c.value, None, o, l, c

    def quot_real(pt):
        kr = {"kro": lambda s: s**2, "krg": lambda s: (1 - s) ** 1.5 * 0.8, "krw": lambda s: 0.05 + 0 * s}
        g = lambda k_, d_: float(pt[k_]) if isinstance(pt.get(k_), (int, float)) else d_
        p_, so_, ph_, sw_ = g("p", 3000.0), g("So", 0.6), g("phi", 0.1), g("Sw", 0.1)
        so_ = min(so_, 1.0 - sw_)
        pair = None
        for stiff in (1.0, 1e-3):  # ordinary and nearly incompressible fluids (storage per psi ~1e-8)
            fn = dict(real_pvt_funcs(synth_tables(0.02, stiff=stiff)), **RHO_REAL)
            pair = (real(AM)(p_, so_, ph_, sw_, fn, kr), real(LC)(p_, so_, fn, kr) / real(CC)(p_, so_, ph_, sw_, fn))
            if not close(pair[0], pair[1], 1e-12):
                return pair
        return pair

    obs.append(cas_ob(ctx, "alpha.quotient", "alpha_multiphase == lambda_combined_func / compressibility_combined_func", quotient, BOX, [AM, LC, CC], quot_real, tol=1e-12))

    def ft_alpha():
        o, tb = run_from_table(ctx)
        fp = o.value
        cols = fp.fields["pvt_props"]
        cols = cols.cols if isinstance(cols, TableV) else cols
        j = tm.var("j", tm.I)
        pj, soj = tb["pressure"].get(j), tb["So"].get(j)
        interps = o.heap["ghost"].get("interps", {})
        alpha = rename_interps(cols["alpha"].get(j), spec_names(interps))
        # node values: an interpolant evaluated at a table node is the node value; here only the structure is compared
        sw_, ph_ = o.heap["args"][5], o.heap["args"][4]
        spec = mobility(pj, soj, f=lambda k, q: tm.app("E_" + k, [q]), k=lambda k, s: tm.app("K_" + k, [s])) / (
            storage(pj + HALF, soj, sw_, ph_, f=lambda k, q: tm.app("E_" + k, [q])) - storage(pj - HALF, soj, sw_, ph_, f=lambda k, q: tm.app("E_" + k, [q])))
        box = dict(BOX, phi_t=(0.01, 0.4), Sw_t=(0.0, 0.3), p_i=(1000.0, 8000.0), j=(0, 50))
        v = be.prove_equal_cas(alpha, spec, box, seed=ctx.seed, npoints=6, ints=("j",))
        if v.status != be.PROVED:
            bad = [f"{nm}: mode={I.mode}" for nm, I in interps.items() if I.mode != "extrapolate" and nm in str(cols["alpha"].get(j))]
            v.detail = "from_table alpha[j] is not lambda/c of linearly continued interpolants of the table columns" + (f" (interpolants {bad})" if bad else "") + ": " + v.detail
        return with_models(v, o)

    def ft_alpha_replay(w):
        from ..rt import containers as _ct   # the same numbers held in pandas containers with non-default row labels
        _r = _ct.run(["from_table"])
        if _r["violations"]:
            _v = _r["violations"][0]
            return {"reproduced": True, "input": _v.get("input"), "observed": _v.get("observed"), "required": _v.get("required"), "clause": _v.get("clause")}
        import numpy as np
        import pandas as pd
        from scipy.interpolate import interp1d
        Fp = real(FP + "FlowPropertiesTwoPhase")
        for rv, PHI, stiff in ((0.02, 0.1, 1.0), (0.0, 0.1, 1.0), (0.02, 0.01, 1.0), (0.0, 0.35, 1.0), (0.02, 0.05, 1e-3)):
            pv = synth_tables(rv, n=60, stiff=stiff)
            kr_t = {"So": np.linspace(0, 1, 30)}
            kr_t.update({"Sg": 1 - kr_t["So"], "Sw": 0 * kr_t["So"], "kro": kr_t["So"] ** 2, "krg": 0.8 * (1 - kr_t["So"]) ** 1.5, "krw": 0.05 + 0 * kr_t["So"]})
            fp = Fp.from_table(pd.DataFrame(pv), pd.DataFrame(kr_t), RHO_REAL, PHI, 0.1, 6000.0)
            got = np.asarray(fp.pvt_props["alpha"], dtype=float)
            fn = {k: interp1d(pv["pressure"], pv[k], fill_value="extrapolate") for k in PROPS}
            krf = {k: interp1d(kr_t["So"], kr_t[k]) for k in ("kro", "krg", "krw")}
            want = []
            for pj, so in zip(pv["pressure"], pv["So"]):
                f = lambda k, q: float(fn[k](q))
                lamv = (RHO_REAL["rho_o0"] * (f("Rv", pj) * krf["krg"](so) / (f("mu_g", pj) * f("Bg", pj)) + krf["kro"](so) / (f("mu_o", pj) * f("Bo", pj)))
                        + RHO_REAL["rho_g0"] * (f("Rs", pj) * krf["kro"](so) / (f("mu_o", pj) * f("Bo", pj)) + krf["krg"](so) / (f("mu_g", pj) * f("Bg", pj))) + RHO_REAL["rho_w0"] * krf["krw"](so) / (f("mu_w", pj) * f("Bw", pj)))
                sfun = lambda q: PHI * (RHO_REAL["rho_o0"] * (f("Rv", q) * (0.9 - so) / f("Bg", q) + so / f("Bo", q)) + RHO_REAL["rho_g0"] * (f("Rs", q) * so / f("Bo", q) + (0.9 - so) / f("Bg", q)) + RHO_REAL["rho_w0"] * 0.1 / f("Bw", q))
                want.append(lamv / (sfun(pj + 0.5) - sfun(pj - 0.5)))
            want = np.array(want)
            bad = ~np.isclose(got, want, rtol=1e-6)
            if bad.any():
                k = int(np.argmax(bad))
                return {"reproduced": True, "input": {"table": "synthetic linear 1/B", "slope_scale": stiff, "Rv": rv, "phi": PHI, "Sw": 0.1, "row": k, "pressure": float(pv["pressure"][k])}, "observed": float(got[k]), "required": float(want[k])}
        return {"reproduced": False}

    obs.append(Obligation("from_table.alpha", "FlowPropertiesTwoPhase.from_table: alpha[j] == lambda(p_j, So_j)/c(p_j, So_j) with interpolants of the table columns over pressure that continue linearly outside the table (so end rows are derivatives too)", ft_alpha,
                          [FT, AM, LC, CC], "CAS", ft_alpha_replay))

    def canary():
        o = one_path(ctx, CC, [p, So, phi, Sw, pvt_dict()])
        spec = storage(p + HALF, So, Sw, phi) - storage(p, So, Sw, phi)
        return o.value, spec

    obs.append(cas_ob(ctx, "canary.cas", "CANARY (must be refuted): compressibility is the forward difference over half a psi", canary, BOX, [CC], expect=be.REFUTED))
    return obs


# ---- shared with C15 ----------------------------------------------------------------------------


def run_from_table(ctx):
    """execute FlowPropertiesTwoPhase.from_table on tables of symbolic length; returns (outcome, pvt columns)"""
    n, m = tm.var("n", tm.I), tm.var("m", tm.I)
    cols = ["pseudopressure", "pressure", "Bo", "Bg", "Bw", "Rs", "Rv", "mu_o", "mu_g", "mu_w", "So"]
    holder = {}

    def mk():
        tb = {c: ArrV((n,), (lambda i, c=c: tm.app("T_" + c, i)), "f8", name="T_" + c) for c in cols}
        kr = {c: ArrV((m,), (lambda i, c=c: tm.app("KR_" + c, i)), "f8", name="KR_" + c) for c in ("So", "Sg", "Sw", "kro", "krg", "krw")}
        holder["tb"], holder["kr"] = tb, kr
        cls = ctx.engine.cls(FP + "FlowPropertiesTwoPhase")
        return [cls, TableV(tb, "DataFrame"), TableV(kr, "DataFrame"), dict(RHO), tm.var("phi_t"), tm.var("Sw_t"), tm.var("p_i")], {}

    f = ctx.engine.func(FT)
    outs = ctx.engine.run_paths(f, mk, pc=[tm.ge(n, tm.const(2)), tm.ge(m, tm.const(2))])
    rets = [o for o in outs if o.kind == "return"]
    if len(rets) == 0:
        raise sx.OutOfSubset(f"from_table: no returning path of {len(outs)} ({[o.value for o in outs if o.kind != 'return']})")
    # several returning paths (e.g. a special case for tables whose own pseudopressure column looks usable): the contract holds on
    # each of them; the runner repeats the obligation per path (see resv.PATH_SELECT)
    from . import resv
    resv.LAST_NPATHS[0] = max(resv.LAST_NPATHS[0], len(rets))
    return rets[min(resv.PATH_SELECT[0], len(rets) - 1)], holder["tb"]


def spec_names(interps, tb=None):
    return {nm: (I, getattr(I.x, "srcname", None), getattr(I.y, "srcname", None)) for nm, I in interps.items()}


def rename_interps(t, byname):
    """applications of the code's interpolants -> spec symbols E_<prop>(q) (interpolant of the table column over
    pressure, continued linearly outside) / K_<kr>(s); an interpolant built otherwise keeps its own name"""
    memo = {}
    for nd in tm.postorder(t):
        kids = tm.children(nd)
        nk = tuple(memo[k] for k in kids)
        if nd.op == "app" and nd.args[0] in byname:
            I, xname, yname = byname[nd.args[0]]
            if I.mode == "extrapolate" and xname == "T_pressure" and yname and yname.startswith("T_"):
                memo[nd] = tm.app("E_" + yname[2:], nk)
                continue
            if xname == "KR_So" and yname and yname.startswith("KR_"):
                memo[nd] = tm.app("K_" + yname[3:], nk)
                continue
        memo[nd] = nd if all(a is b for a, b in zip(nk, kids)) else tm.rebuild(nd, nk)
    return memo[t]


def bounded(ctx):
    """pandas containers (label alignment) are outside the array model of the executor: bounded family 'container independence'"""
    from ..rt import containers
    return containers.run(['from_table'])
