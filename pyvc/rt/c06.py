"""C06 bounded clause: Hall-Yarbrough terminates and agrees with DAK within 5 % on the common
range 1.2 <= T_r <= 3, 0.01 <= p_r <= 15 (no loop variant exists, so no proof).  The low-pressure band 0.01..0.2 is
where the untouched starting guess y = 0.001 already passes the routine's own |F| <= 0.001 test (the returned value must
be an iterate that has been improved at least once)."""
import random

import numpy as np

from .common import Bounded, Timeout, time_limit

A = [0.3265, -1.07, -0.5339, 0.01569, -0.05165, 0.5475, -0.7361, 0.1844, 0.1056, 0.6134, 0.721]


def z_published(tr, pr):
    from scipy.optimize import brentq

    def F(rho):
        z = (1 + (A[0] + A[1] / tr + A[2] / tr**3 + A[3] / tr**4 + A[4] / tr**5) * rho + (A[5] + A[6] / tr + A[7] / tr**2) * rho**2
             - A[8] * (A[6] / tr + A[7] / tr**2) * rho**5 + A[9] * (1 + A[10] * rho**2) * rho**2 / tr**3 * np.exp(-A[10] * rho**2))
        return 0.27 * pr / (tr * rho) - z

    g = 0.27 * pr / tr
    rho = brentq(F, g / 5, g * 20, xtol=1e-14, rtol=1e-14)
    return 0.27 * pr / (rho * tr)


def run(ctx):
    from bluebonnet.fluids import gas

    quick = ctx.tier == "quick"
    B = Bounded("grid T_r in [1.2, 3] x p_r in [0.2, 15] (%s) and x p_r in {0.01, 0.02, 0.05, 0.1, 0.15} plus %d seeded random points (a third of them with p_r < 0.2); tolerance 5 %% against the root of the published DAK equation; 1 s per call"
                % ("9 x 12" if quick else "25 x 40", 20 if quick else 300))
    rng = random.Random(ctx.seed)
    trs = np.linspace(1.2, 3.0, 9 if quick else 25)
    prs = np.linspace(0.2, 15.0, 12 if quick else 40)
    pts = [(float(a), float(b)) for a in trs for b in prs] + [(float(a), b) for a in trs for b in (0.01, 0.02, 0.05, 0.1, 0.15)]
    pts += [(rng.uniform(1.2, 3.0), (rng.uniform(0.2, 15.0) if k % 3 else rng.uniform(0.01, 0.2))) for k in range(20 if quick else 300)]
    Tpc, Ppc = -72.0, 650.0
    for t_r, p_r in pts:
        key = (round(t_r, 6), round(p_r, 6))
        try:
            with time_limit(1.0):
                zhy = float(gas.z_factor_hallyarbrough(p_r, t_r))
        except Timeout:
            B.case("hy.terminates", key, False, input={"p_r": p_r, "T_r": t_r}, observed="no result within 1 s", required="termination")
            continue
        B.case("hy.terminates", key, np.isfinite(zhy), input={"p_r": p_r, "T_r": t_r}, observed=zhy, required="a finite Z")
        zp = z_published(t_r, p_r)
        B.case("hy.agrees_published_dak", key, abs(zhy - zp) <= 0.05 * zp, input={"p_r": p_r, "T_r": t_r}, observed={"HY": zhy, "DAK published": zp}, required="within 5 %")
        zd = float(gas.z_factor_DAK(t_r * (Tpc + 459.67) - 459.67, p_r * Ppc, Tpc, Ppc))
        ok = abs(zhy - zd) <= 0.05 * zd
        if not ok and abs(zhy - zp) <= 0.05 * zp:
            # disagreement that disappears against the published equation: consequence of known finding F1
            B.case("hy.agrees_library_dak", key, False, finding_key="F1", input={"p_r": p_r, "T_r": t_r}, observed={"HY": zhy, "library DAK": zd, "DAK published": zp}, required="within 5 %")
        else:
            B.case("hy.agrees_library_dak", key, ok, input={"p_r": p_r, "T_r": t_r}, observed={"HY": zhy, "library DAK": zd}, required="within 5 %")
    r = B.result()
    # collapse F1 consequences to a single keyed violation
    f1 = [v for v in r["violations"] if v.get("key") == "hy.agrees_library_dak:F1"]
    r["violations"] = [v for v in r["violations"] if v.get("key") != "hy.agrees_library_dak:F1"] + f1[:1]
    return r
