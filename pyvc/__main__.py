import sys

from .oblig import main

sys.exit(main())
