"""C20  Plots carry the simulated data and the square-root axis is a true bijection.

  sqrt.forward / sqrt.inverse_pair / sqrt.inverted   transform_non_affine(a) == sqrt(a); (a^1/2)^2 == a and (a^2)^1/2 == a for a >= 0;
                                                      inverted() of each transform is an instance of the other class
  pp.curves       plot_pseudopressure draws, for every i with i % every == 0 and only those, (x, pp[i]) resp. (x, (pp[i] - pp[i,0])/(pp[0,-1] - pp[i,0])), x_j = (j+1)/nx
  rf.curve        plot_recovery_factor draws (time, recovery_factor())
  rate.curve      plot_recovery_rate draws (time, gradient(recovery_factor(), time))
  comparison.curves   plot_production_comparison draws (t/tau, rf), (t/tau, cum/M), (t/tau, p_f) with rf from the forward model of C18
Axes objects of the real matplotlib carrying those arrays: BOUNDED run-time contract.
"""
from __future__ import annotations

from .. import backends as be
from .. import term as tm
from ..symex import ArrV, ObjV, TableV
from ..libmodels import AxesV, ParamsV, ParamV
from . import c18, resv
from .common import *  # noqa: F403

LEVEL = "proof"
EXPLANATION = "the plotting helpers are executed symbolically against a model of Axes.plot that records the (x, y) of every curve with the condition under which it is drawn; loops over profiles are evaluated at a symbolic index; the transform clauses are CAS identities"
TRUSTED = ["matplotlib: Axes.plot(x, y, ...) draws one curve carrying exactly (x, y); set/legend/ticks draw nothing", "np.gradient(y, x) is the derivative estimate with respect to the coordinate array x", "contracts of simulate / recovery_factor (C10)"]
ASSUMPTIONS = ["what matplotlib does with the arrays afterwards is checked by the bounded layer on real Axes objects"]

nt, nx = resv.nt, resv.nx
j, k = tm.var("j", tm.I), tm.var("k", tm.I)
TR = PLOT + "SquareRootScale"


def rt_replay(w):
    import types
    from ..rt import c20 as rt
    r_ = rt.run(types.SimpleNamespace(tier="quick", seed=0))
    if r_["violations"]:
        v = r_["violations"][0]
        return {"reproduced": True, "input": v.get("input"), "observed": v.get("observed"), "required": v.get("required"), "clause": v.get("clause")}
    return {"reproduced": False}


def sim_reservoir(ctx, cls="SinglePhaseReservoir"):
    st = {"time": ArrV((nt,), lambda i: tm.app("t", i), "f8", name="t"), "pseudopressure": ArrV((nt, nx), lambda i: tm.app("PP", i), "f8", name="PP")}
    return resv.make_reservoir(ctx, cls, None, st)


def build(ctx):
    obs = []
    a_in = tm.var("a")

    def transform(clsname, meth):
        cls = ctx.engine.cls(TR).lookup(clsname)
        o = ObjV(cls)
        f = cls.lookup(meth)
        outs = ctx.engine.run_paths(f.bind(o), lambda: ([ArrV((tm.var("n", tm.I),), lambda i: tm.app("a_in", i), "f8")], {}))
        if len(outs) != 1 or outs[0].kind != "return":
            raise sx.OutOfSubset(f"{clsname}.{meth}: unexpected paths")
        return tm.subst(outs[0].value.get(j), {tm.app("a_in", [j]): a_in}), outs[0]

    def sqrt_forward():
        t, o = transform("SquareRootTransform", "transform_non_affine")
        return with_models(be.prove_equal_cas(t, tm.sqrt(a_in), {"a": (0.0, 1e6)}, seed=ctx.seed), o)

    obs.append(Obligation("sqrt.forward", "SquareRootTransform.transform_non_affine(a) == sqrt(a) element-wise", sqrt_forward, [TR + ".SquareRootTransform.transform_non_affine"], "CAS", rt_replay))

    def sqrt_pair():
        f, o1 = transform("SquareRootTransform", "transform_non_affine")
        g, o2 = transform("InvertedSquareRootTransform", "transform")
        v = be.prove_equal_cas(tm.subst(g, {a_in: f}), a_in, {"a": (1e-6, 1e6)}, seed=ctx.seed)
        if v.status != be.PROVED:
            v.detail = "inverse(forward(a)) != a: " + v.detail
            return with_models(v, o1, o2)
        v = be.prove_equal_cas(tm.subst(f, {a_in: g}), a_in, {"a": (1e-6, 1e3)}, seed=ctx.seed)
        if v.status != be.PROVED:
            v.detail = "forward(inverse(a)) != a: " + v.detail
        return with_models(v, o1, o2)

    obs.append(Obligation("sqrt.inverse_pair", "for a >= 0: inverse(forward(a)) == a and forward(inverse(a)) == a (exact mutual inverses)", sqrt_pair, [TR + ".SquareRootTransform.transform_non_affine", TR + ".InvertedSquareRootTransform.transform"], "CAS", rt_replay))

    def sqrt_inverted():
        S = ctx.engine.cls(TR)
        for a, b in (("SquareRootTransform", "InvertedSquareRootTransform"), ("InvertedSquareRootTransform", "SquareRootTransform")):
            cls = S.lookup(a)
            outs = ctx.engine.run_paths(cls.lookup("inverted").bind(ObjV(cls)), lambda: ([], {}))
            if len(outs) != 1 or outs[0].kind != "return" or not isinstance(outs[0].value, ObjV) or outs[0].value.cls is not S.lookup(b):
                return be.Verdict(be.REFUTED, "STRUCT", witness={}, detail=f"{a}.inverted() is not an instance of {b}")
        outs = ctx.engine.run_paths(S.lookup("get_transform").bind(ObjV(S)), lambda: ([], {}))
        if len(outs) != 1 or not isinstance(outs[0].value, ObjV) or outs[0].value.cls is not S.lookup("SquareRootTransform"):
            return be.Verdict(be.REFUTED, "STRUCT", witness={}, detail="SquareRootScale.get_transform() is not the square-root transform")
        return be.Verdict(be.PROVED, "STRUCT", detail="inverted() of each transform is the other class; the scale's transform is the square root")

    obs.append(Obligation("sqrt.inverted", "inverted() of each transform returns an instance of the other class and SquareRootScale.get_transform() is the square-root transform", sqrt_inverted, [TR + ".SquareRootTransform.inverted", TR + ".InvertedSquareRootTransform.inverted", TR + ".get_transform"], "STRUCT", rt_replay))

    # ---------------- plot_pseudopressure
    def pp_curves():
        every = tm.var("every", tm.I)
        last = None
        xmax = tm.var("x_max")
        for rescale, given_ax, with_xmax in ((a_, b_, c_) for a_ in (False, True) for b_ in (True, False) for c_ in (False, True)):
            if True:
                holder = {}

                def mk(rescale=rescale, given_ax=given_ax, with_xmax=with_xmax):
                    r = sim_reservoir(ctx)
                    holder["ax"] = AxesV(None) if False else None
                    kw = {"every": every, "rescale": rescale}
                    if with_xmax:
                        kw["x_max"] = xmax   # the right-hand axis limit: node positions must not depend on it
                        kw["y_max"] = tm.var("y_max")   # likewise the upper axis limit
                    if given_ax:
                        ax = AxesV.__new__(AxesV)
                        ax.id = -1
                        holder["ax"] = ax
                        kw["ax"] = ax
                    return [r], kw

                outs = ctx.engine.run_paths(ctx.engine.func(PLOT + "plot_pseudopressure"), mk, pc=[tm.ge(nt, tm.const(2)), tm.ge(nx, tm.const(3)), tm.ge(every, tm.const(1)), tm.gt(xmax, tm.rconst(0)), tm.gt(tm.var("y_max"), tm.rconst(0))])
                if len(outs) != 1 or outs[0].kind != "return":
                    return be.Verdict(be.REFUTED, "SMT", witness={}, detail=f"plot_pseudopressure: {[(o.kind, o.value) for o in outs]}")
                o = outs[0]
                if given_ax and o.value is not holder["ax"]:
                    return be.Verdict(be.REFUTED, "STRUCT", witness={}, detail="the given Axes is not the one drawn on / returned")
                eff = [e for e in o.heap["ghost"].get("effects", []) if e["kind"] == "plot"]
                if len(eff) != 1 or "guard" not in eff[0]:
                    return be.Verdict(be.REFUTED, "SMT", witness={}, detail=f"{len(eff)} plot statements reached per profile (expected one, inside the loop over profiles)")
                e = eff[0]
                if e["ax"] is not o.value:
                    return be.Verdict(be.REFUTED, "STRUCT", witness={}, detail="curves are drawn on another Axes than the returned one")
                i = e["index"]
                PP = lambda r_, c: tm.app("PP", [r_, c])
                yj = e["y"].get(j) if isinstance(e["y"], ArrV) else None
                xj = e["x"].get(j) if isinstance(e["x"], ArrV) else None
                if yj is None or xj is None:
                    return be.Verdict(be.REFUTED, "SMT", witness={}, detail="x / y of the curve are not arrays")
                want_y = PP(i, j) if not rescale else (PP(i, j) - PP(i, tm.const(0))) / (PP(tm.const(0), nx - 1) - PP(i, tm.const(0)))
                goal = tm.land(tm.iff(e["guard"], tm.eq(tm.mod(i, every), tm.const(0))),
                               tm.implies(resv.inr(j, nx), tm.land(tm.eq(tm.mul(xj, tm.toreal(nx)), tm.toreal(j + 1)), tm.eq(yj, want_y))))
                v = be.prove_smt(goal, list(o.pc) + [tm.ge(every, tm.const(1)), resv.inr(i, nt)], timeout_ms=20000, want={"i": i, "every": every, "j": j, "nx": nx, "x_max": xmax})
                if v.status != be.PROVED:
                    v.detail = f"[rescale={rescale}{', x_max given' if with_xmax else ''}] a profile is drawn iff i % every == 0, against x_j = (j+1)/nx, carrying the (rescaled) profile: " + v.detail
                    return with_models(v, o)
                if e["x"].shape[0] is not nx or e["y"].shape[0] is not nx:
                    if be.prove_smt(tm.land(tm.eq(e["x"].shape[0], nx), tm.eq(e["y"].shape[0], nx)), list(o.pc)).status != be.PROVED:
                        return be.Verdict(be.REFUTED, "SMT", witness={}, detail="curves do not have one point per node")
                last = o
        return with_models(v, last)

    obs.append(Obligation("pp.curves", "plot_pseudopressure: profile i is drawn iff i % every == 0, as (x, pp[i]) with x_j = (j+1)/nx, or rescaled as (pp[i] - pp[i,0])/(pp[0,-1] - pp[i,0]); on the given / returned Axes", pp_curves, [PLOT + "plot_pseudopressure"], "SMT", rt_replay))

    # ---------------- recovery plots
    def rf_plots(which):
        def run():
            resv.install_method_contracts(ctx)
            try:
                last = None
                for ticks in (False, True):
                    outs = ctx.engine.run_paths(ctx.engine.func(PLOT + which), lambda ticks=ticks: ([sim_reservoir(ctx)], {"change_ticks": ticks}), pc=[tm.ge(nt, tm.const(2)), tm.ge(nx, tm.const(3))])
                    if len(outs) != 1 or outs[0].kind != "return":
                        return be.Verdict(be.REFUTED, "STRUCT", witness={}, detail=f"{which}: {[(o.kind, o.value) for o in outs]}")
                    o = outs[0]
                    eff = [e for e in o.heap["ghost"].get("effects", []) if e["kind"] == "plot"]
                    rfs = o.heap["ghost"].get("rf_calls", [])
                    if len(eff) != 1 or len(rfs) != 1 or rfs[0]["density"] is not False:
                        return be.Verdict(be.REFUTED, "STRUCT", witness={}, detail=f"{len(eff)} curves, {len(rfs)} recovery calls")
                    e = eff[0]
                    if not isinstance(e["x"], ArrV):
                        return be.Verdict(be.REFUTED, "STRUCT", witness={}, detail="x data are not the simulated times")
                    if e["x"].get(k) is not tm.app("t", [k]) or e["x"].shape[0] is not nt:
                        # not literally the stored array: every sample must still be drawn, for every length of the run
                        vv = be.prove_smt(tm.land(tm.eq(e["x"].shape[0], nt), tm.implies(tm.land(tm.le(tm.const(0), k), tm.lt(k, nt)), tm.eq(e["x"].get(k), tm.app("t", [k])))), list(o.pc) + list(o.facts), want={"len(time)": nt, "k": k, "points drawn": e["x"].shape[0]})
                        if vv.status != be.PROVED:
                            vv.detail = "the x data of the curve are not all simulated times (some samples are not drawn): " + vv.detail
                            return with_models(vv, o)
                    if which == "plot_recovery_factor":
                        if e["y"] is not rfs[0]["array"] and (not isinstance(e["y"], ArrV) or e["y"].get(k) is not rfs[0]["array"].get(k)):
                            return be.Verdict(be.REFUTED, "STRUCT", witness={}, detail="y data are not recovery_factor()")
                    else:
                        gr = o.heap["ghost"].get("gradient", {})
                        if len(gr) != 1:
                            return be.Verdict(be.REFUTED, "STRUCT", witness={}, detail="rate is not one np.gradient call")
                        gy, gx = list(gr.values())[0]
                        if gy is not rfs[0]["array"] or gx is None or gx.get(k) is not tm.app("t", [k]):
                            return be.Verdict(be.REFUTED, "STRUCT", witness={}, detail="rate is not gradient(recovery_factor(), time) - the derivative must be taken with respect to the time array")
                        if not isinstance(e["y"], ArrV) or "np.gradient" not in str(e["y"].get(k)):
                            return be.Verdict(be.REFUTED, "STRUCT", witness={}, detail="y data are not the gradient")
                    last = o
                return with_models(be.Verdict(be.PROVED, "STRUCT", detail="one curve: (time, recovery_factor())" if which == "plot_recovery_factor" else "one curve: (time, gradient(recovery_factor(), time))"), last)
            finally:
                resv.uninstall_method_contracts(ctx)
        return run

    obs.append(Obligation("rf.curve", "plot_recovery_factor draws exactly one curve (reservoir.time, reservoir.recovery_factor()), with or without changed ticks", rf_plots("plot_recovery_factor"), [PLOT + "plot_recovery_factor"], "STRUCT", rt_replay))
    obs.append(Obligation("rate.curve", "plot_recovery_rate draws exactly one curve (reservoir.time, np.gradient(recovery_factor(), reservoir.time))", rf_plots("plot_recovery_rate"), [PLOT + "plot_recovery_rate"], "STRUCT", rt_replay))

    # ---------------- production comparison
    def comparison():
        n = c18.n
        resv.install_method_contracts(ctx)
        try:
            last = None
            for filter_rows in (False, True):
                for window in (None, tm.var("w", tm.I)):
                    def mk(filter_rows=filter_rows, window=window):
                        P = ParamsV()
                        for nm in ("tau", "M", "p_initial"):
                            P.items[nm] = ParamV(nm, tm.var(nm), None, None)
                        kw = {"filter_zero_prod_days": filter_rows}
                        if window is not None:
                            kw["filter_window_size"] = window
                        return [c18.prod_table(), c18.pvt_table(), P], kw
                    outs = ctx.engine.run_paths(ctx.engine.func(FCP + "plot_production_comparison"), mk, pc=[tm.ge(n, tm.const(3))])
                    rets = [o for o in outs if o.kind == "return"]
                    if len(rets) != 1:
                        return be.Verdict(be.REFUTED, "STRUCT", witness={}, detail=f"plot_production_comparison: {[(o.kind, o.value) for o in outs]}")
                    o = rets[0]
                    g = o.heap["ghost"]
                    eff = [e for e in g.get("effects", []) if e["kind"] == "plot"]
                    sims, rfs, ctors = g.get("sim_calls", []), g.get("rf_calls", []), g.get("fp_ctor", [])
                    if len(eff) != 3 or len(sims) != 1 or len(rfs) != 1 or len(ctors) != 1:
                        return be.Verdict(be.REFUTED, "STRUCT", witness={}, detail=f"{len(eff)} curves, {len(sims)} simulations")
                    fig, axes = o.value
                    ax1, ax2 = axes
                    tau, M, p_i = tm.var("tau"), tm.var("M"), tm.var("p_initial")
                    if filter_rows:
                        fl = g.get("row_filters", [])
                        if len(fl) != 1:
                            return be.Verdict(be.REFUTED, "STRUCT", witness={}, detail="no single row filter")
                        cols = fl[0]["result"].cols
                        col = lambda c, i: cols[c].get(i)
                        tk = k  # time = arange(kept rows)
                    else:
                        col = lambda c, i: tm.app("D_" + c, [i])
                        tk = col("Days", k)
                    s_, r_, c_ = sims[0], rfs[0], ctors[0]
                    pff = s_["schedule_fn"]((k,))
                    raw = col("Pressure", k)
                    if window is None:
                        if pff is not raw:
                            return be.Verdict(be.REFUTED, "STRUCT", witness={}, detail="without a window the simulation is not driven by the Pressure column")
                    else:
                        fls = g.get("filters", [])
                        if len(fls) != 1 or fls[0]["input"].get(k) is not raw or fls[0]["size"] is not window:
                            return be.Verdict(be.REFUTED, "STRUCT", witness={}, detail="the simulation is not driven by the Pressure column smoothed with the requested window")
                    if c_["table"] is not o.heap["args"][1] or c_["p_i"] is not p_i or s_["fields"]["fluid"].fields.get("ctor") is not c_ or r_["sim"] != s_["id"]:
                        return be.Verdict(be.REFUTED, "STRUCT", witness={}, detail="the recovery curve is not the forward model FlowProperties(table, p_initial) -> SinglePhaseReservoir -> simulate -> recovery_factor()")
                    xs = tm.toreal(tk) / tau
                    e1, e2, e3 = eff
                    want = [(ax1, xs, tm.app("RF0", [k])), (ax1, xs, None), (ax2, xs, pff)]
                    cs = g.get("cumsum", {})
                    if len(cs) != 1 or list(cs.values())[0][1]((k,)) is not col("Gas", k):
                        return be.Verdict(be.REFUTED, "STRUCT", witness={}, detail="cumulative production is not cumsum of the Gas column")
                    want[1] = (ax1, xs, tm.app(list(cs)[0], [k]) / M)
                    box = {"k": (0, 60), "tau": (30.0, 3000.0), "M": (1.0, 1e6), "w": (2, 9)}
                    for e, (ax, wx, wy) in zip(eff, want):
                        if e["ax"] is not ax:
                            return be.Verdict(be.REFUTED, "STRUCT", witness={}, detail="a curve is drawn on the wrong panel")
                        ex_, ey_ = e["x"].get(k), e["y"].get(k)
                        for got, wv, what in ((ex_, wx, "x"), (ey_, wy, "y")):
                            if got is not wv:
                                v = be.prove_equal_cas(tm.toreal(got), tm.toreal(wv), box, ints=("k", "w"), seed=ctx.seed, npoints=5)
                                if v.status != be.PROVED:
                                    v.detail = f"[filter={filter_rows}, window={'given' if window is not None else 'none'}] {what} data of a curve: {str(got)[:80]} is not {str(wv)[:80]}: " + v.detail
                                    return with_models(v, o)
                    if s_["time_fn"]((k,)) is not e1["x"].get(k) and be.prove_equal_cas(tm.toreal(s_["time_fn"]((k,))), xs, box, ints=("k", "w"), seed=ctx.seed, npoints=5).status != be.PROVED:
                        return be.Verdict(be.REFUTED, "STRUCT", witness={}, detail="the simulation is not run on time / tau")
                    last = o
            return with_models(be.Verdict(be.PROVED, "STRUCT+CAS", detail="three curves (t/tau, rf), (t/tau, cum/M), (t/tau, p_f) for both filter settings, with and without a smoothing window"), last)
        finally:
            resv.uninstall_method_contracts(ctx)

    obs.append(Obligation("comparison.curves", "plot_production_comparison draws (time/tau, simulated recovery of the forward model driven by the (smoothed) frac-face pressures), (time/tau, cumsum(Gas)/M) on the first panel and (time/tau, those same frac-face pressures) on the second", comparison,
                          [FCP + "plot_production_comparison"], "STRUCT+CAS", rt_replay))

    def canary():
        t, o = transform("SquareRootTransform", "transform_non_affine")
        return be.prove_equal_cas(t, tm.power(a_in, tm.rconst("0.51")), {"a": (0.5, 1e6)}, seed=ctx.seed)

    obs.append(Obligation("canary.cas", "CANARY (must be refuted): the forward transform is a ** 0.51", canary, [TR + ".SquareRootTransform.transform_non_affine"], "CAS", expect=be.REFUTED))
    return obs


def bounded(ctx):
    from ..rt import c20 as rt
    return rt.run(ctx)
