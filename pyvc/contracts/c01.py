"""C01  Simulated pseudopressure obeys the maximum principle and the frac-face value.

Induction over the time loop (summarised as a recurrence, C04) with the contracts of _build_matrix / _solve:
  *.inv.init                row 0 lies in [m_f[0], m_i] (ideal: [0, 1]; equal to 1)
  single.step.rhs_consistent   b[0] == m_f[i] (1 + k_0) with k_0 the SAME coefficient the matrix row 0 uses
  *.step.k_nonneg           k_j >= 0 for a non-decreasing time grid and positive diffusivity (C09)
  *.inv.preserve.upper/lower   arg-max / arg-min of the new row: min(L_i, m_f[i]) <= x_j <= m_i
  *.mono_x.preserve         constant schedule: the new row is non-decreasing away from the fracture if the old one is
  *.steady                  a row that reproduces itself under a positive step is the constant m_f (ideal: 0)
Non-increasing in time beyond node 0 and convergence to the steady state: BOUNDED run-time contracts (no inductive
invariant: the boundary row's right-hand side is indefinite); known finding F3 lives there.
"""
from __future__ import annotations

from .. import backends as be
from .. import term as tm
from . import resv
from .common import *  # noqa: F403

LEVEL = "proof"
EXPLANATION = ("the discrete maximum principle, the frac-face consistency of the boundary row, spatial monotonicity and the uniqueness of the steady state are proved by induction over the exact recurrence of the time loop; "
               "each induction step is a quantifier-free SMT obligation after explicit instantiation at a Skolem arg-max / arg-min index. Monotonicity in time and convergence to the steady state are bounded run-time clauses")
TRUSTED = ["a finite non-empty index range has an arg-max / arg-min (used as a Skolem constant J with forall j: x_j <= x_J)", "induction on the step index (base + step => forall i)",
           "contracts of _build_matrix and _solve (C04), FlowProperties.valid() (C09): 0 < min alpha <= alpha(q); m_scaled_func non-decreasing"]
ASSUMPTIONS = ["exact linear solve (C04 carries the solver); time grid non-decreasing; p_f[i] <= p_i inside the table"]

j, J = tm.var("j", tm.I), tm.var("J", tm.I)
ZERO, ONE = tm.rconst(0), tm.rconst(1)
one = tm.const(1)


def bounded_check(clauses):
    def rp_(w):
        import types
        from ..rt import c01 as rt
        r0 = resv.int_grid_replay(w)
        if r0.get("reproduced"):
            return r0
        r_ = rt.run(types.SimpleNamespace(tier="quick", seed=0))
        for v in r_["violations"]:
            if v.get("clause") in clauses and v.get("key") != "mono.time:random-grid:single":
                return {"reproduced": True, "input": v.get("input"), "observed": v.get("observed"), "required": v.get("required"), "clause": v.get("clause")}
        return {"reproduced": False}
    return rp_


def step_facts(S, idxs):
    """instances of the callee contracts at the given row indices: row equation of _solve, definition of K from kt_h2"""
    s_, b_ = S.single()
    K, X = b_["K"], s_["x"]
    out = []
    for q in idxs:
        out.append(tm.implies(resv.inr(q, S.n), tm.eq(s_["A"].row_dot(q, X), s_["b"]((q,)))))
        out.append(tm.implies(resv.inr(q, S.n), tm.eq(K(q), b_["arg_fn"]((q,)))))
    return out, K, X, s_["b"]


def build(ctx):
    obs = []
    for cls in ("SinglePhaseReservoir", "IdealReservoir"):
        tag = "single" if cls == "SinglePhaseReservoir" else "ideal"
        ideal = cls == "IdealReservoir"
        fq = [resv.ISIM if ideal else resv.SSIM, resv.BM, RES + "_solve"]

        def mk(schedule="array", cls=cls, ideal=ideal):
            return resv.Step(ctx, cls, "none" if ideal else schedule)

        def pre(S, ideal=ideal):
            """preconditions: non-decreasing time, p_f[i] <= p_i, hence m_f[i] <= m_i"""
            ti, ti1 = tm.app("t", [S.i]), tm.app("t", [tm.add(S.i, one)])
            h = list(S.o.pc) + [tm.le(ti, ti1), tm.ge(S.n, tm.const(3))]
            return h

        def mf(S, i_):
            return S.M.app(tm.app("pf_sched", [i_]))

        def init(mk=mk, ideal=ideal):
            v = init1(mk, ideal, "array")
            if v.status != be.PROVED or ideal:
                return v
            for sch, intgrid in (("none", False), ("none", True)):
                if intgrid:
                    with resv.int_time():
                        v2 = init1(mk, ideal, sch)
                else:
                    v2 = init1(mk, ideal, sch)
                if v2.status != be.PROVED:
                    v2.detail = f"[scalar frac-face setting{', integer-typed time grid' if intgrid else ''}] " + v2.detail
                    return v2
            return v

        def init1(mk, ideal, sch):
            S = mk(sch) if not ideal else mk()
            row0 = S.pre((tm.const(0), j))
            if ideal:
                goal = tm.implies(resv.inr(j, S.n), tm.eq(row0, ONE))
                return with_models(be.prove_smt(goal, pre(S)), S.o)
            pf0 = tm.app("pf_sched", [tm.const(0)]) if sch == "array" else tm.var("p_f")
            m0 = S.M.app(pf0)
            hyp = pre(S) + resv.mono_facts(S, [pf0, tm.var("p_i")]) + [tm.le(pf0, tm.var("p_i"))]
            goal = tm.implies(resv.inr(j, S.n), tm.land(tm.le(m0, row0), tm.le(row0, S.m_i), tm.implies(tm.eq(j, tm.const(0)), tm.eq(row0, m0))))
            return with_models(be.prove_smt(goal, hyp, want={"j": j}), S.o)

        obs.append(Obligation(f"{tag}.inv.init", f"{cls}: time level 0 lies within [m_f[0], m_i] (frac-face node at m_f[0])" if not ideal else f"{cls}: time level 0 is identically 1", init, fq, "SMT", bounded_check(("bounds.lower", "bounds.upper"))))

        def k_nonneg(mk=mk, ideal=ideal):
            S = mk()
            s_, b_ = S.single()
            kj = b_["arg_fn"]((j,))
            hyp = pre(S) + ([] if ideal else resv.alpha_facts(S, [kj]))
            return with_models(be.prove_smt(tm.implies(resv.inr(j, S.n), tm.ge(kj, ZERO)), hyp, want={"j": j}), S.o)

        obs.append(Obligation(f"{tag}.step.k_nonneg", f"{cls}: kt_h2[j] >= 0 for a non-decreasing time grid (positive scaled diffusivity by C09)", k_nonneg, fq, "SMT", bounded_check(("bounds.lower", "bounds.upper", "finite"))))

        if not ideal:
            def rhs_consistent(mk=mk):
                S = mk()
                facts, K, X, B = step_facts(S, [tm.const(0)])
                m_f = mf(S, S.i)
                goal = tm.eq(B((tm.const(0),)), tm.mul(m_f, tm.add(ONE, K(tm.const(0)))))
                hyp = pre(S) + facts + resv.alpha_facts(S, facts + [goal])
                return with_models(be.prove_smt(goal, hyp, want={"K0": K(tm.const(0)), "b0": B((tm.const(0),)), "m_f": m_f}), S.o)

            obs.append(Obligation("single.step.rhs_consistent", "SinglePhaseReservoir: right-hand side of the frac-face row b[0] == m_f[i] (1 + k_0) with k_0 the coefficient the matrix row 0 itself uses", rhs_consistent, fq, "SMT",
                                  bounded_check(("bounds.lower", "steady"))))

        def preserve(which, mk=mk, ideal=ideal):
            def run():
                S = mk()
                idx = [J, tm.sub(J, one), tm.add(J, one), tm.const(0)]
                facts, K, X, B = step_facts(S, idx)
                n_ = S.n
                prev = lambda c: S.PP(S.i, c)
                hyp = pre(S) + facts + [resv.inr(J, n_)]
                # K >= 0 (lemma k_nonneg) at the rows used
                hyp += [tm.implies(resv.inr(q, n_), tm.ge(K(q), ZERO)) for q in idx]
                if ideal:
                    lo, hi = ZERO, ONE
                    hyp += [tm.implies(resv.inr(q, n_), tm.land(tm.le(lo, prev(q)), tm.le(prev(q), hi))) for q in idx]  # induction hypothesis on row i
                else:
                    m_f = mf(S, S.i)
                    Lprev = tm.var("L_prev")  # lowest frac-face value applied so far (before this step)
                    lo, hi = tm.minimum(Lprev, m_f), S.m_i
                    hyp += [tm.implies(resv.inr(q, n_), tm.land(tm.le(Lprev, prev(q)), tm.le(prev(q), S.m_i))) for q in idx]
                    hyp += [tm.le(m_f, S.m_i), tm.le(Lprev, S.m_i)]
                    hyp += [tm.eq(B((tm.const(0),)), tm.mul(m_f, tm.add(ONE, K(tm.const(0)))))]  # lemma rhs_consistent
                if which == "upper":
                    hyp += [tm.implies(resv.inr(q, n_), tm.le(X((q,)), X((J,)))) for q in (tm.sub(J, one), tm.add(J, one))]  # J is an arg-max
                    goal = tm.le(X((J,)), hi)
                else:
                    hyp += [tm.implies(resv.inr(q, n_), tm.ge(X((q,)), X((J,)))) for q in (tm.sub(J, one), tm.add(J, one))]  # J is an arg-min
                    goal = tm.ge(X((J,)), lo)
                v = be.prove_smt(goal, hyp, timeout_ms=30000, want={"J": J, "n": n_, "x_J": X((J,))})
                return with_models(v, S.o)
            return run

        for which in ("upper", "lower"):
            obs.append(Obligation(f"{tag}.inv.preserve.{which}", f"{cls}: if row i lies within the bounds, the {'largest' if which == 'upper' else 'smallest'} entry of row i+1 does too ({'x_J <= m_i' if which == 'upper' else 'x_J >= min(lowest m_f so far, m_f[i])'}" + (" / [0, 1] for the ideal reservoir)" if ideal else ")"),
                                  preserve(which), fq, "SMT", bounded_check(("bounds." + which,))))

        def mono_x(mk=mk, ideal=ideal):
            S = mk("none") if not ideal else mk()
            m = tm.var("m", tm.I)  # arg-min of the differences d_q = x[q+1] - x[q], 0 <= m <= n-2
            idx = [m, tm.add(m, one), tm.sub(m, one), tm.add(m, tm.const(2)), tm.const(0)]
            facts, K, X, B = step_facts(S, idx)
            n_ = S.n
            prev = lambda c: S.PP(S.i, c)
            d = lambda q: tm.sub(X((tm.add(q, one),)), X((q,)))
            hyp = pre(S) + facts + [tm.le(tm.const(0), m), tm.le(m, tm.sub(n_, tm.const(2)))]
            hyp += [tm.implies(resv.inr(q, n_), tm.ge(K(q), ZERO)) for q in idx]
            # induction hypothesis: row i non-decreasing in j (from node 1 on; node 0 enters through the boundary row)
            hyp += [tm.implies(tm.land(tm.le(tm.const(1), q), tm.lt(tm.add(q, one), n_)), tm.le(prev(q), prev(tm.add(q, one)))) for q in (m, tm.sub(m, one), tm.add(m, one))]
            if ideal:
                hyp += [tm.implies(resv.inr(q, n_), tm.ge(prev(q), ZERO)) for q in idx]
                hyp += [tm.implies(tm.land(tm.le(tm.const(0), q), tm.lt(tm.add(q, one), n_)), tm.le(prev(q), prev(tm.add(q, one)))) for q in (m, tm.const(0))]
                # lower bound of the new row (lemma preserve.lower): needed at the first pair
                hyp += [tm.ge(X((tm.const(0),)), ZERO)]
            else:
                m_f = S.M.app(tm.var("p_f"))
                hyp += [tm.eq(B((tm.const(0),)), tm.mul(m_f, tm.add(ONE, K(tm.const(0)))))]
                hyp += [tm.implies(tm.land(tm.le(tm.const(1), q), tm.lt(q, n_)), tm.land(tm.ge(prev(q), m_f), tm.le(prev(q), S.m_i))) for q in idx]  # bounds on row i (constant schedule: L = m_f)
                hyp += [tm.le(m_f, S.m_i)]
            hyp += [tm.implies(tm.land(tm.le(tm.const(0), q), tm.le(q, tm.sub(n_, tm.const(2)))), tm.ge(d(q), d(m))) for q in (tm.sub(m, one), tm.add(m, one))]  # m is an arg-min of d
            v = be.prove_smt(tm.ge(d(m), ZERO), hyp, timeout_ms=60000, want={"m": m, "n": n_})
            return with_models(v, S.o)

        obs.append(Obligation(f"{tag}.mono_x.preserve", f"{cls}, constant drawdown: if row i is non-decreasing away from the fracture (and within bounds), so is row i+1 (arg-min of the differences; cases first pair / interior / last pair)", mono_x, fq, "SMT", bounded_check(("mono.space",))))

        def steady(mk=mk, ideal=ideal):
            S = mk("none") if not ideal else mk()
            r_ = tm.var("r", tm.I)
            idx = [r_, tm.sub(r_, one), tm.add(r_, one), tm.const(0)]
            facts, K, X, B = step_facts(S, idx)
            n_ = S.n
            prev = lambda c: S.PP(S.i, c)
            hyp = pre(S) + facts + [resv.inr(r_, n_), tm.ge(n_, tm.const(3))]
            hyp += [tm.implies(resv.inr(q, n_), tm.gt(K(q), ZERO)) for q in idx]          # a positive step
            hyp += [tm.implies(resv.inr(q, n_), tm.eq(X((q,)), prev(q))) for q in idx]     # the row reproduces itself
            if not ideal:
                m_f = S.M.app(tm.var("p_f"))
                hyp += [tm.eq(B((tm.const(0),)), tm.mul(m_f, tm.add(ONE, K(tm.const(0)))))]
                hyp += [tm.implies(resv.inr(q, n_), tm.le(prev(q), S.m_i)) for q in idx]  # bounds on row i
                target = m_f
            else:
                target = ZERO
            # step of the downward induction: x[r+1] == x[r] (or r is the last node) => x[r] == x[r-1]; at r == 0: x[0] == target
            flat_above = tm.implies(tm.lt(tm.add(r_, one), n_), tm.eq(X((tm.add(r_, one),)), X((r_,))))
            goal = tm.land(tm.implies(tm.ge(r_, one), tm.eq(X((r_,)), X((tm.sub(r_, one),)))), tm.implies(tm.eq(r_, tm.const(0)), tm.eq(X((r_,)), target)))
            v = be.prove_smt(goal, hyp + [flat_above], timeout_ms=60000, want={"r": r_, "n": n_})
            return with_models(v, S.o)

        obs.append(Obligation(f"{tag}.steady", f"{cls}: a level that reproduces itself under a positive step is flat (downward induction from the no-flow row) and equals " + ("0" if ideal else "m_f") + " (frac-face row): the only steady state, whatever the step size", steady, fq, "SMT", bounded_check(("steady",))))

    obs += resv.dependency_obligations(ctx)

    def canary():
        S = resv.Step(ctx, "SinglePhaseReservoir", "array")
        idx = [J, tm.sub(J, one), tm.add(J, one), tm.const(0)]
        facts, K, X, B = step_facts(S, idx)
        hyp = list(S.o.pc) + facts + [resv.inr(J, S.n), tm.ge(S.n, tm.const(3))] + [tm.implies(resv.inr(q, S.n), tm.ge(K(q), ZERO)) for q in idx]
        hyp += [tm.implies(resv.inr(q, S.n), tm.le(S.PP(S.i, q), S.m_i)) for q in idx]
        hyp += [tm.implies(resv.inr(q, S.n), tm.le(X((q,)), X((J,)))) for q in (tm.sub(J, one), tm.add(J, one))]
        return be.prove_smt(tm.le(X((J,)), S.m_i), hyp, timeout_ms=20000)  # without m_f <= m_i and the consistent boundary row this must fail

    obs.append(Obligation("canary.smt", "CANARY (must be refuted): the upper bound without the frac-face lemma and m_f <= m_i", canary, [resv.SSIM], "SMT", expect=be.REFUTED))
    if ctx.tier == "thorough":
        obs.append(lean_obligation(ctx, ['pyvc_exists_argmax', 'pyvc_exists_argmin', 'pyvc_interior_row']))
    return obs


def bounded(ctx):
    from ..rt import c01 as rt
    return rt.run(ctx)
