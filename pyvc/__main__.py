import os
import sys

# sympy's term ordering (and with it the running time of some simplifications) depends on the string hash seed: pin it,
# so that a verdict and its cost are the same on every run
if os.environ.get("PYTHONHASHSEED") != "0":
    os.environ["PYTHONHASHSEED"] = "0"
    os.execv(sys.executable, [sys.executable, "-W", "ignore", "-m", "pyvc"] + sys.argv[1:])

from .oblig import main  # noqa: E402

sys.exit(main())
