"""C20 bounded clauses: the Axes objects produced by the real plotting helpers (matplotlib, Agg) carry exactly
the simulated data, and the square-root scale is a bijection on non-negative values.

Tolerances: line data np.array_equal (NaN == NaN for the 0/0 first rescaled profile of an IdealReservoir) with a
fallback of 1e-15 absolute for the rescaled profiles; number and order of lines exact; sqrt forward 1e-15
relative against np.sqrt; inverse pairs 1e-12 relative."""
from __future__ import annotations

import random
import warnings

import numpy as np

from .common import Bounded

RENAME = {"P": "pressure", "Z-Factor": "z-factor", "Cg": "compressibility", "Viscosity": "viscosity", "Density": "density"}
_cache = {}


def pvt():
    if "pvt" not in _cache:
        import pandas as pd

        _cache["pvt"] = pd.read_csv("/repo/tests/data/pvt_gas.csv").rename(columns=RENAME)
    return _cache["pvt"]


def reservoir(cfg):
    from bluebonnet.flow import FlowProperties, IdealReservoir, SinglePhaseReservoir

    key = (cfg["class"], cfg["nx"], cfg["nt"], cfg["t_end"], cfg["p_f"], cfg["p_i"])
    if key not in _cache:
        cls = {"IdealReservoir": IdealReservoir, "SinglePhaseReservoir": SinglePhaseReservoir}[cfg["class"]]
        r = cls(cfg["nx"], cfg["p_f"], cfg["p_i"], FlowProperties(pvt(), cfg["p_i"]))
        r.simulate(np.linspace(0.0, np.sqrt(cfg["t_end"]), cfg["nt"]) ** 2)
        _cache[key] = r
    return _cache[key]


def same(a, b, atol=0.0):
    a, b = np.asarray(a, dtype=float), np.asarray(b, dtype=float)
    if a.shape != b.shape:
        return False
    return bool(np.array_equal(a, b, equal_nan=True) or (atol > 0 and np.allclose(a, b, rtol=0.0, atol=atol, equal_nan=True)))


def lines_match(ax, expected, atol=0.0):
    """expected: list of (x, y); returns (ok, observed)"""
    lines = ax.get_lines()
    obs = {"lines drawn": len(lines), "lines required": len(expected)}
    if len(lines) != len(expected):
        return False, obs
    for k, (ln, (x, y)) in enumerate(zip(lines, expected)):
        if not same(ln.get_xdata(orig=True), x) or not same(ln.get_ydata(orig=True), y, atol):
            gx, gy = np.asarray(ln.get_xdata(orig=True), dtype=float), np.asarray(ln.get_ydata(orig=True), dtype=float)
            obs.update({"first differing line": k, "xdata drawn": gx[:4].tolist(), "xdata required": np.asarray(x, dtype=float)[:4].tolist(),
                        "ydata drawn": gy[:4].tolist(), "ydata required": np.asarray(y, dtype=float)[:4].tolist()})
            return False, obs
    return True, obs


def check_pp(cfg):
    import matplotlib.pyplot as plt
    from bluebonnet import plotting

    r = reservoir(cfg)
    pp = r.pseudopressure.copy()
    fig, ax0 = plt.subplots()
    try:
        xkw = {} if cfg.get("x_max") is None else {"x_max": cfg["x_max"]}   # x_max is the right-hand axis limit only: node positions do not depend on it
        ax = plotting.plot_pseudopressure(r, every=cfg["every"], rescale=cfg["rescale"], ax=ax0 if cfg["pass_ax"] else None, **xkw)
        x = np.linspace(1.0 / cfg["nx"], 1.0, cfg["nx"])
        exp = []
        for i in range(pp.shape[0]):
            if i % cfg["every"] == 0:
                exp.append((x, (pp[i] - pp[i, 0]) / (pp[0, -1] - pp[i, 0]) if cfg["rescale"] else pp[i]))
        ok, obs = lines_match(ax, exp, 1e-15 if cfg["rescale"] else 0.0)
        ok = ok and (ax is ax0 or not cfg["pass_ax"]) and np.array_equal(r.pseudopressure, pp)
        return ok, obs, "exactly the profiles i %% %d == 0 (%d lines), x = linspace(1/nx, 1, nx), y = %s" % (cfg["every"], len(exp), "(pp[i]-pp[i,0])/(pp[0,-1]-pp[i,0])" if cfg["rescale"] else "pp[i]")
    finally:
        plt.close("all")


def check_rf(cfg):
    import matplotlib.pyplot as plt
    from bluebonnet import plotting

    r = reservoir(cfg)
    fig, ax0 = plt.subplots()
    try:
        ax = plotting.plot_recovery_factor(r, ax0 if cfg["pass_ax"] else None, change_ticks=cfg["change_ticks"])
        ok, obs = lines_match(ax, [(r.time, r.recovery_factor())])
        obs["xscale"] = ax.get_xscale()
        return ok and ax.get_xscale() == "squareroot", obs, "one line (time, recovery_factor()) on a square-root x axis"
    finally:
        plt.close("all")


def check_rate(cfg):
    import matplotlib.pyplot as plt
    from bluebonnet import plotting

    r = reservoir(cfg)
    fig, ax0 = plt.subplots()
    try:
        ax = plotting.plot_recovery_rate(r, ax0 if cfg["pass_ax"] else None, change_ticks=cfg["change_ticks"])
        ok, obs = lines_match(ax, [(r.time, np.gradient(r.recovery_factor(), r.time))])
        return ok, obs, "one line (time, np.gradient(recovery_factor(), time))"
    finally:
        plt.close("all")


def make_data(cfg):
    import pandas as pd

    rs = np.random.RandomState(cfg["seed"])
    n, p_i = cfg["n_keep"], cfg["p_i"]
    press = np.clip(np.linspace(0.6 * p_i, 0.2 * p_i, n) + rs.normal(0.0, 0.03 * p_i, n), 50.0, 0.9 * p_i)
    gas = rs.uniform(0.5, 1.5, n) * cfg["M"] / (4.0 * n) * np.linspace(2.0, 0.5, n)
    rows = list(zip(gas, press))
    for _ in range(cfg["n_zero"]):
        rows.insert(rs.randint(1, len(rows)), (rs.choice([0.0, -1.0]), float(rs.uniform(0.2, 0.8) * p_i)))
    for _ in range(cfg["n_nan"]):
        rows.insert(rs.randint(1, len(rows)), (float(gas.mean()), np.nan))
    return pd.DataFrame({"Days": np.arange(len(rows)), "Gas": [r[0] for r in rows], "Pressure": [r[1] for r in rows]})


def check_comparison(cfg):
    import matplotlib.pyplot as plt
    from lmfit import Parameters
    from scipy.ndimage import uniform_filter1d
    from bluebonnet.flow import FlowProperties, SinglePhaseReservoir
    from bluebonnet.forecast import plot_production_comparison

    data = make_data(cfg)
    params = Parameters()
    params.add("M", cfg["M"])
    params.add("tau", cfg["tau"])
    params.add("p_initial", cfg["p_i"])
    try:
        fig, (ax1, ax2) = plot_production_comparison(data.copy(), pvt(), params, filter_window_size=cfg["window"], filter_zero_prod_days=cfg["filter"])
        gas, press = data["Gas"].to_numpy(), data["Pressure"].to_numpy()
        keep = (gas > 0) & ~np.isnan(press) if cfg["filter"] else np.ones(len(gas), bool)
        time = np.arange(int(keep.sum())) if cfg["filter"] else data["Days"].to_numpy()
        p_f = press[keep]
        if cfg["window"] is not None:
            p_f = uniform_filter1d(p_f, size=cfg["window"])
        res = SinglePhaseReservoir(80, cfg["p_i"], cfg["p_i"], FlowProperties(pvt(), cfg["p_i"]))
        res.simulate(time / cfg["tau"], p_f)
        ok1, obs1 = lines_match(ax1, [(time / cfg["tau"], res.recovery_factor()), (time / cfg["tau"], np.cumsum(gas[keep]) / cfg["M"])])
        ok2, obs2 = lines_match(ax2, [(time / cfg["tau"], p_f)])
        scales = (ax1.get_xscale(), ax2.get_xscale())
        return ok1 and ok2 and len(fig.axes) == 2, {"ax1": obs1, "ax2": obs2, "xscales": scales, "rows kept": int(keep.sum()), "rows": int(len(data))}, \
            "ax1: (t/tau, recovery of the 80-node forward model with the smoothed pressures), (t/tau, cumsum(Gas)/M); ax2: (t/tau, frac-face pressure as passed to simulate)"
    finally:
        plt.close("all")


def check_sqrt(cfg):
    import matplotlib.pyplot as plt
    from bluebonnet.plotting import SquareRootScale

    rs = np.random.RandomState(cfg["seed"])
    a = np.concatenate([[0.0, 1.0, 4.0, 1e-100, 1e100], 10.0 ** rs.uniform(-12, 12, cfg["n"]), rs.uniform(0, 10, cfg["n"])])
    if cfg["shape"] == "column":
        a = a.reshape(-1, 1)
    T = SquareRootScale.SquareRootTransform()
    inv = T.inverted()
    fwd = T.transform_non_affine(a)
    ref = np.sqrt(a)

    def rel(x, y):
        # a masked entry is not a value (matplotlib drops the vertex): it counts as NaN, never as the data underneath the mask
        x = np.ma.filled(np.ma.masked_invalid(np.ma.asarray(x, dtype=float)), np.nan) if np.ma.isMaskedArray(x) else np.asarray(x, dtype=float)
        y = np.asarray(y, dtype=float)
        if x.shape == y.shape and not np.all(np.isfinite(x)):
            return float("inf")
        return float(np.max(np.abs(x - y) / np.maximum(np.abs(y), 1e-300))) if x.shape == y.shape else float("inf")

    obs = {"forward vs sqrt": rel(fwd, ref), "inverse(forward(a)) vs a": rel(inv.transform(T.transform_non_affine(a)), a), "forward(inverse(a)) vs a": rel(T.transform_non_affine(inv.transform(a)), a),
           "inverted() types": [type(inv).__name__, type(inv.inverted()).__name__]}
    ok = obs["forward vs sqrt"] <= 1e-15 and obs["inverse(forward(a)) vs a"] <= 1e-12 and obs["forward(inverse(a)) vs a"] <= 1e-12
    ok = ok and isinstance(inv, SquareRootScale.InvertedSquareRootTransform) and isinstance(inv.inverted(), SquareRootScale.SquareRootTransform)
    fig, ax = plt.subplots()
    try:
        ax.set_xscale("squareroot")
        tr = ax.xaxis.get_transform()
        obs["axis transform"] = type(tr).__name__
        ok = ok and isinstance(tr, SquareRootScale.SquareRootTransform) and isinstance(ax.xaxis._scale, SquareRootScale)
    finally:
        plt.close("all")
    return bool(ok), obs, "transform_non_affine(a) == sqrt(a) (1e-15); transform/inverse reproduce a both ways (1e-12 relative); inverted() of each returns the other class"


CHECKS = {"pp_curves": check_pp, "rf_curve": check_rf, "rate_curve": check_rate, "comparison": check_comparison, "sqrt_bijection": check_sqrt}


def evaluate(clause, cfg):
    import matplotlib

    matplotlib.use("Agg", force=True)
    with warnings.catch_warnings(), np.errstate(all="ignore"):
        warnings.simplefilter("ignore")
        try:
            ok, obs, req = CHECKS[clause](cfg)
            return bool(ok), obs, req
        except Exception as e:  # noqa: BLE001
            import traceback

            return False, {"exception": "%s: %s" % (type(e).__name__, str(e)[:300]), "where": traceback.format_exc()[-400:]}, "no exception"


def run(ctx):
    quick = ctx.tier == "quick"
    rng = random.Random(ctx.seed)
    B = Bounded("matplotlib Agg; reservoirs {IdealReservoir, SinglePhaseReservoir} on tests/data/pvt_gas.csv with (nx, len(time)) in %s, sqrt-spaced times, plus one IdealReservoir run with 12001 time levels; every in {1, 4, 5, 7, 10, 200, len-1, len} "
                "(incl. len-1 a multiple of every), rescale in {False, True}, ax passed / created; recovery factor and rate plots with both change_ticks settings; production comparison on %d seeded "
                "synthetic tables x filter_window_size {None, 1, 7} x filter_zero_prod_days {True, False}; square-root transform on %d seeded non-negative arrays (1-D and column), values 0 and 1e-100 .. 1e100 (squares and roots representable)"
                % ("{(12, 21), (30, 20)}" if quick else "{(12, 21), (30, 20), (8, 11), (50, 61), (20, 2)}", 2 if quick else 8, 4 if quick else 40))

    def emit(clause, cfg):
        ok, observed, required = evaluate(clause, cfg)
        B.case(clause, repr(sorted(cfg.items())), ok, input={"clause": clause, **cfg}, observed=observed, required=required)

    sizes = [(12, 21), (30, 20)] if quick else [(12, 21), (30, 20), (8, 11), (50, 61), (20, 2)]
    for cls in ("SinglePhaseReservoir", "IdealReservoir"):
        for nx, nt in sizes:
            base = {"class": cls, "nx": nx, "nt": nt, "t_end": round(rng.uniform(1.0, 11.0), 2), "p_f": 100.0 if cls == "SinglePhaseReservoir" else 1000.0, "p_i": 2000.0 if nx == 30 else 8000.0}
            for every in sorted({1, 4, 5, 7, 10, 200, max(nt - 1, 1), nt}):
                for rescale in (False, True):
                    emit("pp_curves", {**base, "every": every, "rescale": rescale, "pass_ax": (every + rescale) % 2 == 0})
                    if every in (1, 7):
                        emit("pp_curves", {**base, "every": every, "rescale": rescale, "pass_ax": bool(rescale), "x_max": 0.25 if every == 1 else 3.0})
            for ticks in (False, True):
                for pass_ax in (True, False):
                    emit("rf_curve", {**base, "change_ticks": ticks, "pass_ax": pass_ax})
                    if nt > 2:
                        emit("rate_curve", {**base, "change_ticks": ticks, "pass_ax": pass_ax})
    # a long run (more samples than a figure has pixels): every sample is still drawn
    long_run = {"class": "IdealReservoir", "nx": 5, "nt": 12001, "t_end": 9.0, "p_f": 1000.0, "p_i": 8000.0}
    for ticks in (False, True):
        emit("rf_curve", {**long_run, "change_ticks": ticks, "pass_ax": ticks})
        emit("rate_curve", {**long_run, "change_ticks": ticks, "pass_ax": ticks})
    emit("pp_curves", {**long_run, "every": 3000, "rescale": False, "pass_ax": True})
    for k in range(2 if quick else 8):
        d = {"seed": rng.randrange(10**6), "n_keep": rng.randint(25, 60), "M": round(10 ** rng.uniform(3.0, 4.5), 2), "tau": round(10 ** rng.uniform(1.6, 2.8), 3), "p_i": round(rng.uniform(3000.0, 9000.0), 1)}
        for window in (None, 1, 7):
            for filt in (True, False):
                emit("comparison", {**d, "window": window, "filter": filt, "n_zero": rng.randint(1, 6), "n_nan": rng.randint(1, 4) if filt else 0})
    for k in range(4 if quick else 40):
        emit("sqrt_bijection", {"seed": rng.randrange(10**6), "n": rng.choice([1, 10, 1000]), "shape": ("flat", "column")[k % 2]})
    return B.result()


def replay(case):
    cfg = dict(case.get("input", case))
    clause = cfg.pop("clause", None) or case.get("clause")
    ok, observed, required = evaluate(clause, cfg)
    return {"reproduced": not ok, "call": "%s on %s" % (clause, cfg), "observed": observed, "required": required}
