"""C06  Gas Z-factor is the root of the Dranchuk-Abou-Kassem equation of state.

Contract on gas.z_factor_DAK (method: its result comes from a library root finder):
  requires 1.05 <= T_r <= 3 and 0 < p_r <= 30
  ensures  F(rho_r) == 0 with rho_r = 0.27 p_r / (Z T_r),  rho_lo < rho_r < rho_hi  (never a bound),
           F the published DAK equation, strictly monotone in rho (unique root, continuous in p), Z -> 1 as p -> 0
The EOS the code solves is extracted from the closure handed to the root finder.
"""
from __future__ import annotations

from .. import backends as be
from .. import term as tm
from .common import *  # noqa: F403

LEVEL = "other"
EXPLANATION = ("proved: the function handed to the root finder is the DAK residual of the returned Z (CAS), it depends on the inputs only through T_r and p_r (CAS), "
               "it changes sign across the code's bracket on the whole rectangle so the root is interior and brentq cannot raise (INT), rho*Z(rho) is strictly increasing so the root is unique "
               "and continuous in p (INT), Z(0) = 1 (CAS), every density coefficient but the first equals the published one (CAS). The first coefficient differs from the published equation: "
               "known finding F1 (not counted as discharged). Hall-Yarbrough agreement/termination: BOUNDED run-time contract only.")
TRUSTED = ["scipy.optimize.brentq idealised: returns an exact root inside the bracket when the end-point signs differ",
           "strictly increasing continuous function => unique root depending continuously on the right-hand side (textbook lemma, not re-proved here)",
           "sympy rewriting of the extracted residual (re-checked at 50 digits at random points on every run)"]
ASSUMPTIONS = ["Hall-Yarbrough clause is decided by a bounded run-time contract only (Newton loop without variant)"]

Tv, pv, Tpcv, Ppcv = sym_args(["T", "p", "Tpc", "Ppc"])
tr, pr, rho, g = sym_args(["tr", "pr", "rho", "g"])
A = ["0.3265", "-1.07", "-0.5339", "0.01569", "-0.05165", "0.5475", "-0.7361", "0.1844", "0.1056", "0.6134", "0.721"]
A = [tm.rconst(a) for a in A]
ZF = GAS + "z_factor_DAK"
RECT = {"tr": (1.05, 3.0), "pr": (1e-6, 30.0)}


def z_published(rho_, tr_):
    """the published DAK equation (Dranchuk & Abou-Kassem 1975) as written in the property / DESIGN.md"""
    c0 = A[0] + A[1] / tr_ + A[2] / tr_**3 + A[3] / tr_**4 + A[4] / tr_**5
    c1 = A[5] + A[6] / tr_ + A[7] / tr_**2
    c2 = -A[8] * (A[6] / tr_ + A[7] / tr_**2)
    return 1 + c0 * rho_ + c1 * rho_**2 + c2 * rho_**5 + A[9] * (1 + A[10] * rho_**2) * (rho_**2 / tr_**3) * tm.exp(-A[10] * rho_**2)


def extract(ctx, reduced=True):
    """run z_factor_DAK symbolically; return (return outcome, raise outcomes, root var, residual term at root)"""
    if reduced:
        args = [tr * tm.rconst("459.67") - tm.rconst("459.67"), pr, tm.rconst(0), tm.rconst(1)]
    else:
        args = [Tv, pv, Tpcv, Ppcv]
    outs = paths(ctx, ZF, args)
    rets = [o for o in outs if o.kind == "return"]
    if len(rets) != 1:
        # several returning paths (a shortcut or a fallback next to the root-finder path): the obligations about the equation
        # and its bracket are about THE path that returns the bracketed root; the other paths are the business of
        # dak.every_return_is_a_root
        main = [o for o in rets if isinstance(o.value, tm.T) and any(r_["root"] in tm.postorder(o.value) for r_ in o.heap["ghost"].get("roots", []))]
        if len(main) != 1:
            raise sx.OutOfSubset(f"z_factor_DAK: expected one returning path through the root finder, found {len(main)} of {len(rets)}")
        rets = main
    ret = rets[0]
    roots = ret.heap["ghost"].get("roots", [])
    return ret, [o for o in outs if o.kind == "raise"], roots, outs


def code_eos(ctx):
    """Z as a function of (rho, tr) that the code solves: result - residual, CAS-expanded"""
    ret, raises, roots, _ = extract(ctx)
    if len(roots) != 1:
        raise sx.OutOfSubset("no bracketing root finder on the path")
    r = roots[0]["root"]
    F = tm.subst(roots[0]["residual_at_root"], {r: rho})
    zval = tm.subst(ret.value, {r: rho})
    box = {"tr": (1.05, 3.0), "rho": (0.01, 3.2), "pr": (0.01, 30.0)}
    Zs = be.cas_rewrite(tm.sub(zval, F), positive=["tr", "pr", "rho"], check_box=box, seed=ctx.seed)
    Fs = be.cas_rewrite(F, positive=["tr", "pr", "rho"], check_box=box, seed=ctx.seed)
    return ret, roots[0], F, Fs, Zs, zval


def real_scan(check, n_tr=12, n_pr=40, low_p=True):
    """bounded search for a concrete failing input on the real z_factor_DAK over the rectangle"""
    import numpy as np

    zf = real(ZF)
    Tpc, Ppc = -72.0, 650.0
    prs = list(np.geomspace(1e-5, 30.0, n_pr))
    for t_r in np.linspace(1.05, 3.0, n_tr):
        T = t_r * (Tpc + 459.67) - 459.67
        for p_r in prs:
            p = p_r * Ppc
            try:
                z = zf(T, p, Tpc, Ppc)
            except Exception as e:  # noqa: BLE001
                return {"reproduced": True, "input": {"T": T, "p": p, "Tpc": Tpc, "Ppc": Ppc}, "observed": f"{type(e).__name__}: {e}", "required": "a Z-factor"}
            bad = check(t_r, p_r, z)
            if bad:
                return {"reproduced": True, "input": {"T": float(T), "p": float(p), "Tpc": Tpc, "Ppc": Ppc, "T_r": float(t_r), "p_r": float(p_r)}, "observed": {"Z": float(z), **bad}, "required": "Z solves the DAK equation extracted from the code; not a bound; Z -> 1 as p -> 0"}
    return {"reproduced": False}


def build(ctx):
    obs = []
    fs = [ZF]

    def code_residual_float(ctx):
        ret, root, F, Fs, Zs, zval = code_eos(ctx)
        return lambda t_r, p_r, rh: tm.feval(Fs, {"tr": t_r, "pr": p_r, "rho": rh})

    def scan_replay(w):
        try:
            Ff = code_residual_float(ctx)
        except Exception:  # noqa: BLE001
            Ff = None

        def check(t_r, p_r, z):
            if z in (0.05, 5.0) or abs(z - 5.0) < 1e-9 or abs(z - 0.05) < 1e-9:
                return {"why": "Z sits on a search bound"}
            if abs(z - 1) > 2.5 * p_r + 1e-9 and p_r < 0.05:
                return {"why": "Z does not tend to 1 as p -> 0"}
            if Ff is not None:
                rh = 0.27 * p_r / (t_r * z)
                res = Ff(t_r, p_r, rh)
                if abs(res) > 1e-7 * max(1.0, 0.27 * p_r / (t_r * rh)):
                    return {"why": "residual of the code's own equation of state", "residual": res}
            return None

        return real_scan(check)

    # ---- the root finder's postcondition carries the property
    def is_root():
        ret, raises, roots, outs = extract(ctx)
        if ret.heap["ghost"].get("minimize"):
            v = be.Verdict(be.REFUTED, "SMT", witness={}, detail="result is produced by scipy.optimize.minimize, whose contract promises a point within the bounds and no optimality: F(rho) == 0 is not derivable (a local search may stop on a bound)")
            return with_models(v, ret)
        if len(roots) != 1:
            return with_models(be.Verdict(be.REFUTED, "SMT", witness={}, detail=f"{len(roots)} root-finder calls on the returning path; cannot derive F(rho) == 0 for the returned Z"), ret)
        r = roots[0]["root"]
        # the returned Z corresponds to the root: 0.27 p_r / (Z T_r) == root
        v = be.prove_equal_cas(tm.div(tm.mul(tm.rconst("0.27"), pr), tm.mul(ret.value, tr)), r, {"tr": RECT["tr"], "pr": RECT["pr"], r.args[0]: (1e-7, 8.0)}, seed=ctx.seed)
        if v.status != be.PROVED:
            return with_models(v, ret)
        fact = [f for f in ret.facts if roots[0]["residual_at_root"] in tm.postorder(f)]
        if not fact:
            return with_models(be.Verdict(be.REFUTED, "SMT", witness={}, detail="no postcondition F(root) == 0 on the path"), ret)
        tol = roots[0]["tol"]
        for name, t in zip(("xtol", "rtol"), tol):
            if t is not None and not (tm.is_const(t) and tm.cval(t) <= tm.Fraction(1, 10**10)):
                return with_models(be.Verdict(be.REFUTED, "SMT", witness={}, detail=f"root finder called with {name}={t}: the idealisation 'f(r) = 0' needs xtol, rtol <= 1e-10 (reduced densities reach 1e-7 inside the rectangle)"), ret)
        v.detail = "rho(Z) == root (CAS) and brentq postcondition F(root) == 0; " + v.detail
        return with_models(v, ret)

    obs.append(Obligation("dak.is_root", "returned Z satisfies F(0.27 p_r/(Z T_r)) == 0 for the function handed to the root finder (from the root finder's contract, tolerances at rounding level)", is_root, fs, "CAS+SMT", scan_replay))

    def residual_form():
        ret, root, F, Fs, Zs, zval = code_eos(ctx)
        # F(rho) == Z_from_density(rho) - Zfun(rho) with Z_from_density = 0.27 p_r/(T_r rho): by construction Zs = zval - F;
        # the check is that Zs has no dependence on p_r and no pole at rho = 0 (so that it is an EOS Z(rho, T_r))
        if any(v.args[0] == "pr" for v in tm.free_vars(Zs)):
            return be.Verdict(be.REFUTED, "CAS", witness={}, detail="residual is not of the form 0.27 p_r/(T_r rho) - Z(rho, T_r)")
        z0 = tm.subst(Zs, {rho: tm.rconst(0)})
        return be.prove_equal_cas(z0, tm.rconst(1), {"tr": RECT["tr"]}, seed=ctx.seed)

    obs.append(Obligation("dak.residual_form", "the function handed to the root finder is 0.27 p_r/(T_r rho) - Z_eos(rho, T_r) with Z_eos(0, T_r) == 1 (so Z -> 1 as p -> 0)", residual_form, fs, "CAS", scan_replay))

    def reduced_only():
        ret_g, _, roots_g, _ = extract(ctx, reduced=False)
        ret, _, roots, _ = extract(ctx, reduced=True)
        if len(roots) != 1 or len(roots_g) != 1:
            raise sx.OutOfSubset("no bracketing root finder on the path")
        Fg = tm.subst(roots_g[0]["residual_at_root"], {roots_g[0]["root"]: rho})
        Fr = tm.subst(roots[0]["residual_at_root"], {roots[0]["root"]: rho,
                                                        tr: (Tv + tm.rconst("459.67")) / (Tpcv + tm.rconst("459.67")), pr: pv / Ppcv})
        return be.prove_equal_cas(Fg, Fr, {"T": (80.0, 400.0), "p": (10.0, 14000.0), "Tpc": (-120.0, 60.0), "Ppc": (550.0, 800.0), "rho": (0.01, 3.0)}, seed=ctx.seed)

    obs.append(Obligation("dak.reduced_only", "the residual depends on (T, p, T_pc, p_pc) only through T_r = (T+459.67)/(T_pc+459.67) and p_r = p/p_pc", reduced_only, fs, "CAS"))

    def bracket(which):
        def run():
            ret, root, F, Fs, Zs, zval = code_eos(ctx)
            # bracket end points as the code passes them to the root finder, in terms of g = rho_guess
            a, b = root["a"], root["b"]
            end = a if which == "lo" else b
            # express with g := 0.27 pr / tr  <=>  pr := g tr / 0.27
            sub = {pr: tm.div(tm.mul(g, tr), tm.rconst("0.27"))}
            end_g = be.cas_rewrite(tm.subst(end, sub), positive=["tr", "g"], check_box={"tr": (1.05, 3.0), "g": (0.01, 7.0)})
            Fend = tm.subst(tm.subst(Fs, sub), {rho: end_g})
            v = be.prove_int(Fend, {"tr": (1.05, 3.0), "g": (1e-7, 0.27 * 30 / 1.05)}, mode=">0" if which == "lo" else "<0")
            return with_models(v, ret)
        return run

    obs.append(Obligation("dak.bracket.lo", "F(lower bracket end) > 0 on the whole rectangle 1.05 <= T_r <= 3, 0 < p_r <= 30", bracket("lo"), fs, "INT", scan_replay))
    obs.append(Obligation("dak.bracket.hi", "F(upper bracket end) < 0 on the whole rectangle (so the root is interior, never a bound, and brentq cannot raise)", bracket("hi"), fs, "INT", scan_replay))

    def increasing():
        ret, root, F, Fs, Zs, zval = code_eos(ctx)
        dG = tm.diff(tm.mul(rho, Zs), rho)
        return with_models(be.prove_int(dG, {"tr": (1.05, 3.0), "rho": (0.0, 8.0)}, mode=">0"), ret)

    obs.append(Obligation("dak.strictly_increasing", "d/d rho [rho * Z_eos(rho, T_r)] > 0 for 1.05 <= T_r <= 3, 0 <= rho <= 8: unique root, continuous and increasing in p", increasing, fs, "INT", scan_replay))

    def coeff0():
        ret, root, F, Fs, Zs, zval = code_eos(ctx)
        c0 = tm.subst(tm.diff(Zs, rho), {rho: tm.rconst(0)})
        p0 = tm.subst(tm.diff(z_published(rho, tr), rho), {rho: tm.rconst(0)})
        return with_models(be.prove_equal_cas(c0, p0, {"tr": RECT["tr"]}, seed=ctx.seed), ret)

    def coeff0_replay(w):
        import numpy as np
        zf = real(ZF)
        t_r, p_r = float(w.get("tr", 1.5)), 5.0
        Tpc, Ppc = -72.0, 650.0
        z = zf(t_r * (Tpc + 459.67) - 459.67, p_r * Ppc, Tpc, Ppc)
        rh = 0.27 * p_r / (t_r * z)
        zp = tm.feval(z_published(rho, tr), {"rho": rh, "tr": t_r})
        return {"reproduced": abs(zp - z) > 1e-6, "input": {"T_r": t_r, "p_r": p_r}, "observed": {"Z": float(z), "published Z_eos(rho(Z))": zp}, "required": "equal"}

    obs.append(Obligation("dak.coeff.0", "first density coefficient of the solved equation equals the published A1 + A2/T_r + A3/T_r^3 + A4/T_r^4 + A5/T_r^5", coeff0, fs, "CAS", coeff0_replay))

    def rest():
        ret, root, F, Fs, Zs, zval = code_eos(ctx)
        c0 = tm.subst(tm.diff(Zs, rho), {rho: tm.rconst(0)})
        zp = z_published(rho, tr)
        p0 = tm.subst(tm.diff(zp, rho), {rho: tm.rconst(0)})
        return with_models(be.prove_equal_cas(tm.sub(Zs, tm.mul(c0, rho)), tm.sub(zp, tm.mul(p0, rho)), {"tr": RECT["tr"], "rho": (0.0, 3.5)}, seed=ctx.seed), ret)

    def rest_replay(w):
        # the returned Z must satisfy the published equation WITH THE LIBRARY'S OWN first coefficient (that coefficient is
        # dak.coeff.0 / finding F1; this replay is about the other terms only)
        zf = real(ZF)
        A1, A2 = 0.3265, -1.0700
        Tpc, Ppc = -72.0, 650.0
        for t_r in (float(w.get("tr", 1.5)) if isinstance(w.get("tr"), (int, float)) else 1.5, 1.1, 2.4):
            for p_r in (0.5, 5.0, 20.0):
                z = zf(t_r * (Tpc + 459.67) - 459.67, p_r * Ppc, Tpc, Ppc)
                rh = 0.27 * p_r / (t_r * z)
                zp = tm.feval(z_published(rho, tr), {"rho": rh, "tr": t_r})
                zp_lib_c0 = zp - (A1 + A2 / t_r) * rh + (A1 * A2 / t_r) * rh
                if abs(zp_lib_c0 - z) > 1e-9:
                    return {"reproduced": True, "input": {"T_r": t_r, "p_r": p_r}, "observed": {"Z": float(z), "published equation with the library's first coefficient, at rho(Z)": float(zp_lib_c0)}, "required": "equal"}
        return {"reproduced": False}

    obs.append(Obligation("dak.eos.rest", "all other terms of the solved equation (rho^2, rho^5 and the exponential term) equal the published DAK equation", rest, fs, "CAS", rest_replay))

    def pure():
        ret, raises, roots, outs = extract(ctx, reduced=False)
        gw = [w for o in outs for w in o.heap["ghost"].get("global_writes", [])]
        if gw:
            return be.Verdict(be.REFUTED, "FRAME", witness={}, detail=f"z_factor_DAK writes module-level state {sorted(set(gw))}: its result is not a function of its arguments alone")
        return be.Verdict(be.PROVED, "FRAME", detail="no store into objects that outlive the call")

    def pure_replay(w):
        # call sequence: two isotherms whose T_r agree to two decimals, each compared with a fresh evaluation order
        import importlib
        import numpy as np
        gas = importlib.import_module("bluebonnet.fluids.gas")
        Tpc, Ppc = -72.0, 650.0
        pts = [(80.0, 2000.0), (83.5, 2000.0), (80.3, 3000.0), (150.0, 1500.0), (151.0, 1500.0)]
        first = [gas.z_factor_DAK(T, p, Tpc, Ppc) for T, p in pts]
        gas2 = importlib.reload(gas)
        second = [gas2.z_factor_DAK(T, p, Tpc, Ppc) for T, p in reversed(pts)][::-1]
        bad = [(pts[i], first[i], second[i]) for i in range(len(pts)) if abs(first[i] - second[i]) > 1e-12]
        return {"reproduced": bool(bad), "input": {"sequence": pts}, "observed": bad[:3], "required": "the same Z whatever was evaluated before"}

    def every_return_is_a_root():
        """'it is never a search bound or a starting guess': on EVERY path that returns inside the validity rectangle the
        returned Z is computed from the root delivered by the bracketing root finder; a returning path without one (a
        shortcut, a fallback after an exception, a special case) that is reachable in the rectangle is refuted with a point of it"""
        outs = paths(ctx, ZF, [Tv, pv, Tpcv, Ppcv])
        r459 = tm.rconst("459.67")
        trr = tm.div(tm.add(Tv, r459), tm.add(Tpcv, r459))
        prr = tm.div(pv, Ppcv)
        rect = [tm.le(tm.rconst("1.05"), trr), tm.le(trr, tm.rconst(3)), tm.gt(prr, tm.rconst(0)), tm.le(prr, tm.rconst(30)),
                tm.gt(tm.add(Tpcv, r459), tm.rconst(200)), tm.gt(Ppcv, tm.rconst(300)), tm.lt(Ppcv, tm.rconst(1000))]
        n_ret = 0
        for o in outs:
            if o.kind != "return":
                continue
            n_ret += 1
            roots = o.heap["ghost"].get("roots", [])
            uses_root = isinstance(o.value, tm.T) and any(r_["root"] in tm.postorder(o.value) for r_ in roots)
            if uses_root:
                continue
            feasible, model = be.check_sat(list(o.pc) + list(o.facts) + rect, timeout_ms=20000)
            if feasible:
                wit = {k_: model.get(k_) for k_ in ("T", "p", "Tpc", "Ppc")}
                return with_models(be.Verdict(be.REFUTED, "SMT", witness=wit, detail=f"a returning path of z_factor_DAK inside the validity rectangle does not go through the root finder: it returns {o.value} under {[str(c_)[:80] for c_ in o.pc][:4]}"), o)
            if feasible is None:
                # the solver cannot decide (exponentials in the residual): look for a point of the path numerically, corners and
                # edges of the validity rectangle first; only a point at which EVERY condition of the path evaluates to true counts
                wit = sample_path(list(o.pc) + list(o.facts))
                if wit is not None:
                    return with_models(be.Verdict(be.REFUTED, "SMT+sampling", witness=wit, detail=f"a returning path of z_factor_DAK inside the validity rectangle does not go through the root finder (point found numerically): it returns {str(o.value)[:120]}"), o)
                return be.Verdict(be.UNKNOWN, "SMT", detail="reachability of a returning path without a root is undecided")
        if n_ret == 0:
            raise sx.OutOfSubset("z_factor_DAK: no returning path")
        return be.Verdict(be.PROVED, "SMT", detail=f"{n_ret} returning path(s), each returns a function of the bracketed root")

    def sample_path(conds):
        import itertools
        import random as _r
        rng = _r.Random(ctx.seed)
        trs = [1.05, 3.0, 1.1, 1.2, 1.5, 2.0, 2.5] + [rng.uniform(1.05, 3.0) for _ in range(12)]
        prs = [30.0, 1e-4, 29.0, 27.0, 20.0, 10.0, 1.0, 0.1, 0.01] + [rng.uniform(0.0, 30.0) for _ in range(12)]
        for (Tc_, Pc_), t_r, p_r in itertools.product(((-72.0, 650.0), (-116.0, 667.0), (20.0, 600.0)), trs, prs):
            env = {"T": t_r * (Tc_ + 459.67) - 459.67, "p": p_r * Pc_, "Tpc": Tc_, "Ppc": Pc_}
            try:
                if all(bool(tm.feval(c_, env, {})) for c_ in conds):
                    return env
            except Exception:  # noqa: BLE001 - a condition over symbols without a value at this point (e.g. the root): not a witness
                continue
        return None

    def every_return_replay(w):
        import numpy as np
        zf = real(ZF)
        cands = []
        if all(isinstance(w.get(k_), (int, float)) for k_ in ("T", "p", "Tpc", "Ppc")):
            cands.append((float(w["T"]), float(w["p"]), float(w["Tpc"]), float(w["Ppc"])))
        cands += [(60.0, 14.7, -102.0, 649.0), (120.0, 19000.0, -50.0, 640.0), (200.0, 3881.4, -102.2, 648.5)]
        for Tc_, Pc_ in ((-72.0, 650.0), (-116.0, 667.0)):
            for t_r in (1.05, 1.1, 1.2, 2.0, 3.0):
                for p_r in (30.0, 29.0, 27.0, 15.0, 1.0, 0.01, 1e-4):
                    cands.append((t_r * (Tc_ + 459.67) - 459.67, p_r * Pc_, Tc_, Pc_))
        Ff = None
        try:
            ret, root, F, Fs, Zs, zval = code_eos(ctx)
            Ff = lambda t_r, p_r, rh: tm.feval(Fs, {"tr": t_r, "pr": p_r, "rho": rh})
        except Exception:  # noqa: BLE001
            pass
        for (T_, p_, Tc_, Pc_) in cands:
            t_r, p_r = (T_ + 459.67) / (Tc_ + 459.67), p_ / Pc_
            if not (1.05 <= t_r <= 3 and 0 < p_r <= 30):
                continue
            z = float(zf(T_, p_, Tc_, Pc_))
            rh = 0.27 * p_r / (t_r * z)
            zp = tm.feval(z_published(rho, tr), {"rho": rh, "tr": t_r})
            zlib = zp - (0.3265 + -1.07 / t_r) * rh + (0.3265 * -1.07 / t_r) * rh   # the equation the library solves (its own first coefficient)
            if abs(zlib - z) > 1e-7:
                return {"reproduced": True, "input": {"T": T_, "p": p_, "Tpc": Tc_, "Ppc": Pc_, "T_r": t_r, "p_r": p_r}, "observed": {"Z": z, "Z the equation gives at rho(Z)": float(zlib)}, "required": "equal (Z is the root)"}
        return real_scan(lambda t_r, p_r, z: None) if False else {"reproduced": False}

    obs.append(Obligation("dak.every_return_is_a_root", "every returning path of z_factor_DAK that is reachable in the validity rectangle returns a function of the root delivered by the bracketing root finder (never a guess, a bound or a fallback)", every_return_is_a_root, fs, "SMT", every_return_replay))

    obs.append(Obligation("dak.pure", "z_factor_DAK reads and writes no state that outlives the call (result is a function of the four arguments)", pure, fs, "FRAME", pure_replay))

    # ---------------- Hall-Yarbrough: partial-correctness contract of the Newton loop (termination and the agreement with DAK stay bounded)
    HY = GAS + "z_factor_hallyarbrough"
    HYBOX = {"pr": (0.01, 30.0), "tr": (1.05, 3.0), "y@while0": (1e-4, 0.9), "fdum@while0": (-2.0, 2.0)}

    def hy_run():
        outs = [o for o in paths(ctx, HY, [pr, tr]) if o.kind != "infeasible"]
        if len(outs) != 1 or outs[0].kind != "return":
            raise sx.OutOfSubset(f"z_factor_hallyarbrough: {[o.kind for o in outs]} paths where one returning path (loop entered, left by its test) is expected")
        o = outs[0]
        W = o.heap["ghost"].get("while_loops", [])
        if len(W) != 1 or "y" not in W[0]["havoc"] or set(W[0]["havoc"]) - {"y", "fdum"}:
            raise sx.OutOfSubset("z_factor_hallyarbrough: expected one Newton loop carrying the iterate y (and the last residual)")
        return o, W[0]

    def hy_spec(y_, pr_, tr_):
        """published Hall-Yarbrough equation: F(y) = -A p_pr + (y + y^2 + y^3 - y^4)/(1-y)^3 - (14.76t - 9.76t^2 + 4.58t^3) y^2 + (90.7t - 242.2t^2 + 42.4t^3) y^(2.18+2.82t),
        t = 1/T_pr, A = 0.06125 t exp(-1.2 (1-t)^2);   z = A p_pr / y"""
        t_ = 1 / tr_
        A_ = tm.rconst("0.06125") * t_ * tm.exp(-tm.rconst("1.2") * (1 - t_) ** 2)
        F_ = (-A_ * pr_ + (y_ + y_**2 + y_**3 - y_**4) / (1 - y_) ** 3 - (tm.rconst("14.76") * t_ - tm.rconst("9.76") * t_**2 + tm.rconst("4.58") * t_**3) * y_**2
              + (tm.rconst("90.7") * t_ - tm.rconst("242.2") * t_**2 + tm.rconst("42.4") * t_**3) * tm.power(y_, tm.rconst("2.18") + tm.rconst("2.82") * t_))
        return A_, F_

    def hy_replay(w):
        """the PROPERTY's clause on the real routine: terminates, and agrees with the published DAK root within 5 % on the common
        range (the bounded family of rt/c06); the sufficient condition proved below is deliberately not the oracle here"""
        import types
        from ..rt import c06 as rt
        r_ = rt.run(types.SimpleNamespace(tier="quick", seed=0))
        for v in r_["violations"]:
            if v.get("clause") in ("hy.terminates", "hy.agrees_published_dak"):
                return {"reproduced": True, "input": v.get("input"), "observed": v.get("observed"), "required": v.get("required"), "clause": v.get("clause")}
        return {"reproduced": False}

    def sufficient(v):
        """these obligations are a SUFFICIENT condition for the Hall-Yarbrough clause (the routine is Newton's method on the
        published equation), not the clause itself: another convergent scheme would satisfy the property too.  A refutation is
        therefore 'not established' (undecided; the bounded search on the real code then decides), never a violation"""
        if v.status == be.REFUTED:
            return be.Verdict(be.UNKNOWN, v.backend, detail="sufficient condition for the Hall-Yarbrough clause not established (the routine is no longer recognisably Newton's method on the published equation): " + (v.detail or "") + (f" separating point {v.witness}" if v.witness else ""), seconds=v.seconds)
        return v

    def hy_residual():
        o, W = hy_run()
        y0 = W["havoc"]["y"]
        A_, F_ = hy_spec(y0, pr, tr)
        v = be.prove_equal_cas(W["post"]["fdum"], F_, HYBOX, seed=ctx.seed, npoints=8)
        if v.status == be.PROVED:
            # the loop is left exactly when the residual OF THE ITERATE BEFORE THE LAST UPDATE is within 1e-3
            v2 = be.prove_smt(tm.le(tm.absv(W["post"]["fdum"]), tm.rconst("0.001")), list(o.pc), timeout_ms=5000)
            if v2.status != be.PROVED:
                v2.detail = "exit test: " + (v2.detail or "")
                return sufficient(with_models(v2, o))
        return sufficient(with_models(v, o))

    def hy_newton():
        o, W = hy_run()
        y0 = W["havoc"]["y"]
        v = be.prove_equal_cas(W["post"]["dfdy"] if "dfdy" in W["post"] else tm.rconst(0), tm.diff(W["post"]["fdum"], y0), HYBOX, seed=ctx.seed, npoints=8)
        if v.status != be.PROVED:
            v.detail = "the slope used by the update is not d(residual)/dy: " + (v.detail or "")
            return sufficient(with_models(v, o))
        A_, F_ = hy_spec(y0, pr, tr)
        v = be.prove_equal_cas(W["post"]["y"], y0 - F_ / tm.diff(F_, y0), HYBOX, seed=ctx.seed, npoints=8)
        if v.status != be.PROVED:
            v.detail = "the update is not y - F(y)/F'(y): " + (v.detail or "")
        return sufficient(with_models(v, o))

    def hy_result():
        o, W = hy_run()
        y0 = W["havoc"]["y"]
        A_, F_ = hy_spec(y0, pr, tr)
        y1 = y0 - F_ / tm.diff(F_, y0)
        v = be.prove_equal_cas(o.value, A_ * pr / y1, HYBOX, seed=ctx.seed, npoints=8)
        if v.status != be.PROVED:
            v.detail = "result is not A p_pr / y with y the improved iterate: " + (v.detail or "")
        return sufficient(with_models(v, o))

    hy_assume = ["partial correctness: the loop is summarised by its last iteration from a havocked iterate; termination and the iterates staying inside (0, 1) (well-definedness of (1-y)^-3 and y^(2.18+2.82t)) are NOT proved - bounded clauses hy.terminates / hy.agrees_*"]
    obs.append(Obligation("hy.residual_published", "z_factor_hallyarbrough: the quantity the loop tests is the published Hall-Yarbrough residual F(y; p_pr, 1/T_pr) of the current iterate, and the loop is left only when |F| <= 1e-3", hy_residual, [HY], "CAS", hy_replay, hy_assume))
    obs.append(Obligation("hy.newton_step", "z_factor_hallyarbrough: the slope is dF/dy (exact symbolic derivative of the extracted residual) and every update is y - F(y)/F'(y)", hy_newton, [HY], "CAS", hy_replay, hy_assume))
    obs.append(Obligation("hy.result", "z_factor_hallyarbrough returns A p_pr / y with A = 0.06125 t exp(-1.2 (1-t)^2) and y the iterate AFTER the last update (one Newton step past a point whose residual is within 1e-3), never the starting guess", hy_result, [HY], "CAS", hy_replay, hy_assume))

    def canary():
        ret, root, F, Fs, Zs, zval = code_eos(ctx)
        return be.prove_int(tm.sub(tm.diff(tm.mul(rho, Zs), rho), tm.rconst("0.7")), {"tr": (1.05, 3.0), "rho": (0.0, 8.0)}, mode=">0", max_boxes=20000)

    obs.append(Obligation("canary.int", "CANARY (must be refuted): d/d rho [rho Z_eos] > 0.7 on the rectangle (true minimum is about 0.58)", canary, fs, "INT", expect=be.REFUTED))
    if ctx.tier == "thorough":
        obs.append(lean_obligation(ctx, ['pyvc_unique_root']))
    # ---------------- the tabulated column (observe_at: build_pvt_gas()['z-factor']) is z_factor_DAK at the row's own (T, p_j)
    from . import c19
    from ..oblig import Ctx
    ctx19 = Ctx("C06", ctx.tier, ctx.seed)   # own engine: C19 treats z_factor_DAK as an opaque symbol, C06 must not
    c19obs = {o.id: o for o in c19.build(ctx19)}
    for oid, nid in (("pvt.rows", "table.z_is_dak"), ("pvt.grid", "table.grid"), ("pvt.pure", "table.pure")):
        src = c19obs[oid]
        obs.append(Obligation(nid, "tabulation: " + src.statement + " (so root-ness of z_factor_DAK carries to every row of the z-factor column, on the whole 10..maximum_pressure grid)", src.run, src.functions, src.backend, src.replay))
    return obs


def bounded(ctx):
    from ..rt import c06 as rt

    return rt.run(ctx)
