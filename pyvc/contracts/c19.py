"""C19  Fluid facade and PVT-table builder reproduce the underlying correlations.

  fluid.<method> x7   result (elementwise, arrays of any length) == the stand-alone correlation applied to the
                      instance attributes in the right positions
  pvt.grid            build_pvt_gas: pressure[j] == 10 + 10 j, all < maximum_pressure, none missing
  pvt.rows            every column at row j == the stand-alone gas correlation at (T, p_j, T_pc, p_pc[, gamma]) with
                      (T_pc, p_pc) = pseudocritical_point_Sutton(gamma, make_nonhydrocarbon_properties(N2, H2S, CO2), dryness)
  sutton.*            no contaminants => hydrocarbon-only correlation; a zero-fraction extra component changes nothing;
                      every fluid type other than 'dry gas' / 'wet gas' is rejected
"""
from __future__ import annotations

from .. import backends as be
from .. import term as tm
from ..symex import ArrV, ObjV, StrSym, TableV
from .common import *  # noqa: F403

LEVEL = "proof"
EXPLANATION = "delegation and table assembly are proved by executing the facade symbolically on arrays of symbolic length and comparing, at a symbolic index, with the stand-alone correlation's own extracted term (CAS, case split on the bubble point); the pressure grid follows from the arange model; the Sutton clauses are CAS identities and a path enumeration over a symbolic fluid-type string"
TRUSTED = ["np.arange(a, b, s)[j] = a + j s with length ceil((b-a)/s)", "list comprehension / np.vectorize over an array = independent evaluations at each element", "pandas DataFrame(dict) keeps the columns",
           "scipy cumulative_trapezoid model (pseudopressure column; its properties are C08)"]
ASSUMPTIONS = ["z_factor_DAK is an opaque function symbol (its own contract is C06)"]

T, api, gg, R, S, Tpc, Ppc, g, N2, H2S, CO2, maxp = sym_args(["T", "api", "gg", "R", "S", "Tpc", "Ppc", "g", "N2", "H2S", "CO2", "maxp"])
n = tm.var("n", tm.I)
j = tm.var("j", tm.I)
PJ = tm.app("p_in", [j])
FL = FLUID + "Fluid."
BOX = dict(OIL_BOX, S=(0.0, 25.0), Tpc=(-120.0, 60.0), Ppc=(550.0, 800.0), g=(0.55, 1.2), pj=(15.0, 15000.0))


def setup(ctx):
    ctx.engine.opaque[GAS + "z_factor_DAK"] = lambda ex, a, kw: tm.app("Z_DAK", a)


def fluid_obj(ctx):
    """a Fluid as callers can have it: built by the real constructor (dataclass __init__ and __post_init__, if any) from one
    set of values, after which the public fields are REASSIGNED (Fluid is not frozen; a parameter study re-uses one
    object).  The facade must follow the object's current attributes, so anything captured at construction shows."""
    F = ctx.engine.cls(FLUID + "Fluid")
    init = [tm.var(nm + "_at_construction") for nm in ("T", "api", "gg", "R", "S")]
    outs = [o_ for o_ in ctx.engine.run_paths(F, init) if o_.kind == "return"]
    if len(outs) != 1 or not isinstance(outs[0].value, ObjV):
        raise sx.OutOfSubset("Fluid(...): expected one constructed object")
    o = outs[0].value
    o.fields.update({"temperature": T, "api_gravity": api, "gas_specific_gravity": gg, "solution_gor_initial": R, "salinity": S})
    o.fields.setdefault("water_saturation_initial", tm.rconst(0))
    o.writes = []
    return o


PDT = ["f8"]


def parr():
    if PDT[0] == "i8":
        return ArrV((n,), lambda i: tm.app("p_in", i, tm.I), "i8")
    return ArrV((n,), lambda i: tm.app("p_in", i), "f8")


def build(ctx):
    setup(ctx)
    obs = []
    pj = tm.var("pj")
    unj = {PJ: pj}

    METHODS = [
        ("water_FVF", [], WATER + "b_water_McCain", lambda: [T, PJ]),
        ("water_viscosity", [], WATER + "viscosity_water_McCain", lambda: [T, PJ, S]),
        ("gas_FVF", [Tpc, Ppc], GAS + "b_factor_DAK", lambda: [T, PJ, Tpc, Ppc]),
        ("gas_viscosity", [Tpc, Ppc], GAS + "viscosity_Sutton", lambda: [T, PJ, Tpc, Ppc, gg]),
        ("oil_FVF", [], OIL + "b_o_Standing", lambda: [T, PJ, api, gg, R]),
        ("oil_viscosity", [], OIL + "viscosity_beggs_robinson", lambda: [T, PJ, api, gg, R]),
    ]

    def facade(name, extra, target, targs):
        def run():
            global PJ
            v = run_dt()
            if v.status != be.PROVED:
                return v
            PDT[0] = "i8"
            saved = PJ
            PJ = tm.app("p_in", [j], tm.I)
            try:
                v2 = run_dt()
            finally:
                PDT[0] = "f8"
                PJ = saved
            if v2.status != be.PROVED:
                v2.detail = "[int64 pressure array] " + v2.detail
                return v2
            return v

        def run_dt():
            unj = {PJ: (pj if PDT[0] == "f8" else tm.var("pj", tm.I))}
            f = ctx.engine.func(FL + name)
            outs = [o_ for o_ in ctx.engine.run_paths(f, lambda: ([fluid_obj(ctx), parr()] + list(extra), {}), pc=[tm.ge(n, tm.const(0))]) if o_.kind != "infeasible"]
            rets = [o for o in outs if o.kind == "return"]
            if len(rets) != len(outs) or not rets:
                return be.Verdict(be.REFUTED, "CAS", witness={}, detail=f"Fluid.{name} raises on some path: {[(o.value, [str(c_) for c_ in o.pc][:3]) for o in outs if o.kind != 'return']}")
            spec_outs = paths(ctx, target, targs())
            spec = sx.merge_values([(tm.land(*o.pc), o.value) for o in spec_outs if o.kind == "return"])
            vlast = None
            for o in rets:
                res = o.value
                res = res.arr if hasattr(res, "arr") else res
                if not isinstance(res, ArrV) or res.ndim != 1:
                    return be.Verdict(be.REFUTED, "CAS", witness={}, detail=f"Fluid.{name} does not return a 1-D array")
                if res.dtype not in ("f8", "f4"):
                    return be.Verdict(be.REFUTED, "CAS", witness={}, detail=f"Fluid.{name} returns an integer array for {'int64' if PDT[0] == 'i8' else 'float64'} pressures: values are truncated")
                if res.shape[0] is not n:
                    return be.Verdict(be.REFUTED, "CAS", witness={}, detail=f"Fluid.{name} returns an array of length {res.shape[0]}, not len(pressure)")
                facts = [q(j) for q in o.qfacts] + list(o.facts) + list(o.pc)
                elem = res.get(j)
                # facts of the path (e.g. 'no element above the bubble point') simplify the element
                sub = {}
                for fct in facts:
                    for nd in tm.postorder(fct):
                        pass
                hyp = None
                extra_h = [h for h in facts if any(v.args[0] == "j" for v in tm.free_vars(h)) or PJ in tm.postorder(h)]
                # emptiness facts have the form (count == 0) => not mask(j); under the path condition count == 0 they give not mask(j)
                known_false = []
                for q in o.qfacts:
                    fj = q(j)
                    if fj.op == "or" or fj.op == "not":
                        parts = fj.args if fj.op == "or" else (fj,)
                        prem = [p_ for p_ in parts if tm.lnot(p_) in o.pc]
                        if len(prem) == len(parts) - 1:
                            concl = [p_ for p_ in parts if tm.lnot(p_) not in o.pc][0]
                            if concl.op == "not":
                                known_false.append(concl.args[0])
                e2 = tm.subst(tm.subst(elem, {c: tm.FALSE for c in known_false}), unj)
                s2 = tm.subst(tm.subst(spec, {c: tm.FALSE for c in known_false}), unj)
                hyp = tm.land(*[tm.lnot(tm.subst(c, unj)) for c in known_false]) if known_false else None
                v = equal_by_cases(e2, s2, BOX, ctx.seed, hyp=hyp, ints=(("pj",) if PDT[0] == "i8" else ()), facts=[tm.subst(f_, unj) for f_ in facts if f_.sort == tm.B])
                if v.status != be.PROVED:
                    v.detail = f"Fluid.{name}(pressure)[j] != {target.split(':')[1]}(attributes..., pressure[j]): " + v.detail
                    return with_models(v, o)
                vlast = with_models(v, *rets)
            return vlast
        return run

    def facade_replay(name, extra_names, target, order):
        def rp(w):
            import numpy as np
            Fl = real(FLUID + "Fluid")
            rng = np.random.default_rng(0)
            cand = []
            if all(isinstance(w.get(k), (int, float)) for k in ("T", "api", "gg", "R")):
                cand.append({k: float(w[k]) for k in ("T", "api", "gg", "R")} | {"S": float(w.get("S", 3.0)), "Tpc": float(w.get("Tpc", -72.0)), "Ppc": float(w.get("Ppc", 650.0)), "pj": float(w.get("pj", 2000.0))})
            cand += [dict(T=200.0, api=35.0, gg=0.8, R=650.0, S=3.0, Tpc=-72.0, Ppc=650.0, pj=2000.0), dict(T=150.0, api=30.0, gg=0.9, R=400.0, S=10.0, Tpc=-50.0, Ppc=640.0, pj=4000.0)]
            for c in cand + [dict(cc_, _reassigned=True) for cc_ in cand[-2:]]:
                if c.get("_reassigned"):
                    # one object re-used for a parameter study: built with other values, fields reassigned afterwards
                    fl = Fl(c["T"] + 40.0, c["api"] - 5.0, c["gg"] + 0.1, c["R"] + 200.0, c["S"] + 2.0)
                    fl.temperature, fl.api_gravity, fl.gas_specific_gravity, fl.solution_gor_initial, fl.salinity = c["T"], c["api"], c["gg"], c["R"], c["S"]
                else:
                    fl = Fl(c["T"], c["api"], c["gg"], c["R"], c["S"])
                args = [c[k] for k in extra_names]
                pbr = real(OIL + "pressure_bubblepoint_Standing")(c["T"], c["api"], c["gg"], c["R"])
                for ps in (np.array([c["pj"], 500.0, 1500.0, 3000.0, 6000.0, pbr]), np.arange(500, 6001, 500), np.array([]), np.array([2500.0])):
                    r_ = _cmp(fl, name, args, target, order, c, ps)
                    if r_ is not None:
                        return r_
            return {"reproduced": False}
        return rp

    def _cmp(fl, name, args, target, order, c, ps):
        import numpy as np
        try:
            got = np.asarray(getattr(fl, name)(ps, *args))
            want = np.array([real(target)(*[(float(pp) if k == "pj" else v) for k, v in order(c)]) for pp in ps], dtype=float)
        except Exception as e:  # noqa: BLE001
            return {"reproduced": True, "input": {**c, "pressures": ps.tolist()}, "observed": f"{type(e).__name__}: {e}", "required": "elementwise equality with the stand-alone correlation"}
        if got.dtype.kind != "f" or not close(got.astype(float), want, 1e-10):
            return {"reproduced": True, "input": {**c, "pressures": ps.tolist(), "dtype": str(ps.dtype)}, "observed": {"values": got.astype(float).tolist(), "dtype": str(got.dtype)}, "required": want.tolist()}
        return None

    ORDER = {
        "water_FVF": lambda c: [("T", c["T"]), ("pj", None)],
        "water_viscosity": lambda c: [("T", c["T"]), ("pj", None), ("S", c["S"])],
        "gas_FVF": lambda c: [("T", c["T"]), ("pj", None), ("Tpc", c["Tpc"]), ("Ppc", c["Ppc"])],
        "gas_viscosity": lambda c: [("T", c["T"]), ("pj", None), ("Tpc", c["Tpc"]), ("Ppc", c["Ppc"]), ("gg", c["gg"])],
        "oil_FVF": lambda c: [("T", c["T"]), ("pj", None), ("api", c["api"]), ("gg", c["gg"]), ("R", c["R"])],
        "oil_viscosity": lambda c: [("T", c["T"]), ("pj", None), ("api", c["api"]), ("gg", c["gg"]), ("R", c["R"])],
    }
    for name, extra, target, targs in METHODS:
        obs.append(Obligation(f"fluid.{name}", f"Fluid.{name}(pressure, ...)[j] == {target.split(':')[1]}(instance attributes in the right positions, pressure[j]) for arrays of any length", facade(name, extra, target, targs),
                              [FL + name, target], "CAS", facade_replay(name, ["Tpc", "Ppc"] if extra else [], target, ORDER[name])))

    def bubble():
        f = ctx.engine.func(FL + "pressure_bubblepoint")
        outs = ctx.engine.run_paths(f, lambda: ([fluid_obj(ctx)], {}))
        spec = one_path(ctx, OIL + "pressure_bubblepoint_Standing", [T, api, gg, R])
        outs = [o for o in outs if o.kind != "infeasible"]
        if not outs or any(o.kind != "return" for o in outs):
            return be.Verdict(be.REFUTED, "CAS", witness={}, detail="unexpected paths")
        # the facade identity is for ALL parameter sets: dead oil (GOR 0, as in the class docstring) included
        vals = {id(o.value): o.value for o in outs}
        if len(vals) != 1:
            return be.Verdict(be.REFUTED, "CAS", witness={}, detail="the result depends on a branch the stand-alone correlation does not have")
        return with_models(be.prove_equal_cas(outs[0].value, spec.value, dict(OIL_BOX, R=(0.0, 2500.0)), seed=ctx.seed), outs[0])

    def bubble_replay(w):
        Fl = real(FLUID + "Fluid")
        cands = [dict(T=200.0, api=35.0, gg=0.8, R=650.0), dict(T=200.0, api=35.0, gg=0.8, R=0.0), dict(T=120.0, api=20.0, gg=1.1, R=4.0), dict(T=350.0, api=55.0, gg=0.56, R=2500.0)]
        if all(isinstance(w.get(k_), (int, float)) for k_ in ("T", "api", "gg", "R")):
            cands.insert(0, {k_: float(w[k_]) for k_ in ("T", "api", "gg", "R")})
        for c in cands + [dict(cands[-1], _reassigned=True)]:
            if c.get("_reassigned"):
                fl_ = Fl(c["T"] - 50.0, c["api"] - 5.0, c["gg"] + 0.1, c["R"] - 300.0)
                fl_.temperature, fl_.api_gravity, fl_.gas_specific_gravity, fl_.solution_gor_initial = c["T"], c["api"], c["gg"], c["R"]
                got = fl_.pressure_bubblepoint()
            else:
                got = Fl(c["T"], c["api"], c["gg"], c["R"]).pressure_bubblepoint()
            want = real(OIL + "pressure_bubblepoint_Standing")(c["T"], c["api"], c["gg"], c["R"])
            if not close(got, want, 1e-12):
                return {"reproduced": True, "input": c, "observed": float(got), "required": float(want)}
        return {"reproduced": False}

    obs.append(Obligation("fluid.pressure_bubblepoint", "Fluid.pressure_bubblepoint() == pressure_bubblepoint_Standing(temperature, api_gravity, gas_specific_gravity, solution_gor_initial)", bubble,
                          [FL + "pressure_bubblepoint", OIL + "pressure_bubblepoint_Standing"], "CAS", bubble_replay))

    # ---------------- build_pvt_gas
    BP = FLUID + "build_pvt_gas"

    def run_pvt(dry):
        gv = {"N2": N2, "H2S": H2S, "CO2": CO2, "Gas Specific Gravity": g, "Reservoir Temperature (deg F)": T}
        outs = ctx.engine.run_paths(ctx.engine.func(BP), lambda: ([dict(gv), dry, maxp], {}), pc=[tm.gt(maxp, tm.rconst(20))])
        return outs

    def sutton(dry):
        outs = paths(ctx, GAS + "pseudocritical_point_Sutton", [g, one_path(ctx, GAS + "make_nonhydrocarbon_properties", [N2, H2S, CO2]).value, dry])
        rets = [o for o in outs if o.kind == "return"]
        if len(rets) != 1:
            raise sx.OutOfSubset("Sutton: expected one returning path")
        return rets[0]

    def grid():
        for dry in ("dry gas", "wet gas"):
            outs = run_pvt(dry)
            rets = [o for o in outs if o.kind == "return"]
            if len(rets) != 1:
                return be.Verdict(be.REFUTED, "SMT", witness={}, detail=f"build_pvt_gas({dry}): {len(rets)} returning paths of {len(outs)}")
            o = rets[0]
            tb = o.value
            if not isinstance(tb, TableV) or "pressure" not in tb.cols:
                return be.Verdict(be.REFUTED, "SMT", witness={}, detail="no pressure column")
            col = tb.cols["pressure"]
            nn = col.shape[0]
            h = list(o.pc) + list(o.facts)
            ten = tm.rconst(10)
            goal = tm.land(
                tm.implies(tm.land(tm.le(tm.const(0), j), tm.lt(j, nn)), tm.land(tm.eq(col.get(j), tm.add(ten, tm.mul(ten, j))), tm.lt(col.get(j), maxp))),
                tm.ge(tm.add(ten, tm.mul(ten, nn)), maxp),  # the next grid point would not be below the maximum: none missing
                tm.ge(nn, tm.const(1)))
            v = be.prove_smt(goal, h, want={"maxp": maxp, "n": nn, "j": j})
            if v.status != be.PROVED:
                return with_models(v, o)
        return with_models(v, o)

    def grid_replay(w):
        import numpy as np
        f = real(BP)
        gv = {"N2": 0.01, "H2S": 0.0, "CO2": 0.02, "Gas Specific Gravity": 0.7, "Reservoir Temperature (deg F)": 200.0}
        cands = [400.0, 405.0, 398.5, 1234.0, 410.0]
        if isinstance(w.get("maxp"), (int, float)) and 20 < w["maxp"] < 3000:
            cands.insert(0, float(w["maxp"]))
        for mp_ in cands:
            pv = np.asarray(f(gv, "wet gas", mp_)["pressure"], dtype=float)
            want = np.arange(10.0, mp_, 10.0)
            if pv.shape != want.shape or not np.allclose(pv, want):
                return {"reproduced": True, "input": {"maximum_pressure": mp_}, "observed": {"rows": len(pv), "last": float(pv[-1])}, "required": {"rows": len(want), "last": float(want[-1])}}
        return {"reproduced": False}

    obs.append(Obligation("pvt.grid", "build_pvt_gas: pressure[j] == 10 + 10 j for every row, every row below maximum_pressure, and the grid stops only where the next point would reach it", grid, [BP], "SMT", grid_replay))

    COLS = [("z-factor", GAS + "z_factor_DAK", lambda Tc, Pc: [T, PJ, Tc, Pc]), ("Density", GAS + "density_DAK", lambda Tc, Pc: [T, PJ, Tc, Pc, g]),
            ("viscosity", GAS + "viscosity_Sutton", lambda Tc, Pc: [T, PJ, Tc, Pc, g]), ("compressibility", GAS + "compressibility_DAK", lambda Tc, Pc: [T, PJ, Tc, Pc])]

    def rows():
        v = None
        for dry in ("dry gas", "wet gas"):
            outs = run_pvt(dry)
            o = [x for x in outs if x.kind == "return"][0]
            tb = o.value
            su = sutton(dry)
            Tc, Pc = su.value
            # the grid value at row j is PJ for the comparison
            pcol = tb.cols["pressure"].get(j)
            for cname, target, targs in COLS:
                if cname not in tb.cols:
                    return be.Verdict(be.REFUTED, "CAS", witness={}, detail=f"column {cname} missing")
                elem = tm.subst(tb.cols[cname].get(j), {pcol: PJ}) if pcol is not PJ else tb.cols[cname].get(j)
                if target.endswith("z_factor_DAK"):
                    spec = tm.app("Z_DAK", targs(Tc, Pc))
                else:
                    spec = one_path(ctx, target, targs(Tc, Pc)).value
                e2, s2 = elem, spec
                if e2 is not s2:
                    # compare with pseudocritical point abstracted (same symbols on both sides)
                    tcv, pcv = tm.var("Tc"), tm.var("Pc")
                    ab = {Tc: tcv, Pc: pcv}
                    e3, s3 = tm.subst(e2, ab), tm.subst(s2, ab)
                    pjv = tm.var("pj")
                    e3, s3 = tm.subst(e3, {PJ: pjv}), tm.subst(s3, {PJ: pjv})
                    v = be.prove_equal_cas(e3, s3, {"T": GAS_BOX["T"], "g": GAS_BOX["g"], "Tc": GAS_BOX["Tpc"], "Pc": GAS_BOX["Ppc"], "pj": (10.0, 40000.0), "N2": (0, 0.1), "H2S": (0, 0.1), "CO2": (0, 0.1)}, seed=ctx.seed, npoints=6)   # "all maximum pressures": rows far beyond the default 14000 psia grid (p_r > 30) included
                    if v.status != be.PROVED:
                        v.detail = f"[{dry}] column {cname} at row j is not {target.split(':')[1]}(T, p_j, Sutton point…): " + v.detail
                        return with_models(v, o, su)
            tcol = tb.cols.get("temperature")
            if tcol is None or tcol.get(j) is not T:
                return be.Verdict(be.REFUTED, "CAS", witness={}, detail="temperature column is not the reservoir temperature")
            v = with_models(be.Verdict(be.PROVED, "CAS", detail="all columns are the stand-alone correlations at (T, p_j, Sutton point[, gamma])"), o, su)
        return v

    def rows_replay(w):
        import numpy as np
        f = real(BP)
        gasm = __import__("bluebonnet.fluids.gas", fromlist=["x"])
        for gv, dry in (({"N2": 0.03, "H2S": 0.012, "CO2": 0.018, "Gas Specific Gravity": 0.65, "Reservoir Temperature (deg F)": 180.0}, "dry gas"),
                        ({"N2": 0.05, "H2S": 0.01, "CO2": 0.04, "Gas Specific Gravity": 0.8, "Reservoir Temperature (deg F)": 250.0}, "wet gas")):
          for mp_ in (1500.0, 26000.0):   # a short table and one far beyond the default grid (reduced pressures above 30)
            df = f(gv, dry, mp_)
            Tc, Pc = gasm.pseudocritical_point_Sutton(gv["Gas Specific Gravity"], gasm.make_nonhydrocarbon_properties(gv["N2"], gv["H2S"], gv["CO2"]), dry)
            T_, g_ = gv["Reservoir Temperature (deg F)"], gv["Gas Specific Gravity"]
            for k in sorted({0, 7, 80, len(df) // 2, len(df) - 300 if len(df) > 400 else 1, len(df) - 1}):
                  pk = float(df["pressure"].iloc[k])
                  want = {"z-factor": gasm.z_factor_DAK(T_, pk, Tc, Pc), "Density": gasm.density_DAK(T_, pk, Tc, Pc, g_), "viscosity": gasm.viscosity_Sutton(T_, pk, Tc, Pc, g_), "compressibility": gasm.compressibility_DAK(T_, pk, Tc, Pc), "temperature": T_}
                  for c, wv in want.items():
                      if not close(float(df[c].iloc[k]), wv, 1e-10):
                          return {"reproduced": True, "input": {"gas_values": gv, "dryness": dry, "row": k, "pressure": pk, "column": c}, "observed": float(df[c].iloc[k]), "required": float(wv)}
        return {"reproduced": False}

    obs.append(Obligation("pvt.rows", "build_pvt_gas: z-factor, Density, viscosity, compressibility at row j == the stand-alone correlations at (T, p_j, T_pc, p_pc[, gamma]) with the Sutton point of the supplied composition; temperature column == T", rows,
                          [BP, GAS + "pseudocritical_point_Sutton", GAS + "make_nonhydrocarbon_properties"] + [c[1] for c in COLS], "CAS", rows_replay))

    def pvt_pure():
        for dry in ("dry gas", "wet gas"):
            outs = run_pvt(dry)
            gw = sorted({w_ for o in outs for w_ in o.heap["ghost"].get("global_writes", [])})
            if gw:
                return be.Verdict(be.REFUTED, "FRAME", witness={}, detail=f"build_pvt_gas writes module-level state {gw}: a later call can return something else than the table of its arguments (a remembered object that a caller has modified in the meantime, or the table of other arguments)")
        return be.Verdict(be.PROVED, "FRAME", detail="no store into objects that outlive the call (module-level containers start empty, so nothing remembered can be returned either)")

    def pvt_pure_replay(w):
        import numpy as np
        f = real(BP)
        gv = {"N2": 0.01, "H2S": 0.0, "CO2": 0.02, "Gas Specific Gravity": 0.7, "Reservoir Temperature (deg F)": 200.0}
        a = f(dict(gv), "wet gas", 600.0)
        keep = {c_: np.array(a[c_], dtype=float) for c_ in a.columns}
        a["pseudopressure"] = a["pseudopressure"] / float(np.asarray(a["pseudopressure"])[-1])   # what a notebook does with its own table
        a["z-factor"] = 1.0
        f(dict(gv, **{"Gas Specific Gravity": 0.8}), "wet gas", 600.0)
        b = f(dict(gv), "wet gas", 600.0)
        for c_ in keep:
            if b is a or not np.allclose(np.asarray(b[c_], dtype=float), keep[c_], rtol=1e-12, atol=0):
                return {"reproduced": True, "input": {"sequence": "t = build_pvt_gas(g, 'wet gas', 600); t['pseudopressure'] /= t['pseudopressure'].iloc[-1]; t['z-factor'] = 1; build_pvt_gas(other gas); build_pvt_gas(g, 'wet gas', 600)", "gas": gv},
                        "observed": {"same object as the first table": bool(b is a), "column": c_, "last value": float(np.asarray(b[c_], dtype=float)[-1])}, "required": {"last value": float(keep[c_][-1]), "a table computed from the arguments": True}}
        return {"reproduced": False}

    obs.append(Obligation("pvt.pure", "build_pvt_gas writes no state that outlives the call and returns a freshly allocated table: the result is a function of the arguments, whatever was built or modified before", pvt_pure, [BP], "FRAME", pvt_pure_replay))

    # ---------------- Sutton
    PS = GAS + "pseudocritical_point_Sutton"
    HC = {"dry gas": ((tm.rconst("120.1"), tm.rconst(429), tm.rconst("-62.9")), (tm.rconst("671.1"), tm.rconst(-14), tm.rconst("-34.3"))),
          "wet gas": ((tm.rconst("164.3"), tm.rconst("357.7"), tm.rconst("-67.7")), (tm.rconst(744), tm.rconst("-125.4"), tm.rconst("5.9")))}

    def no_contaminants():
        v = None
        for dry in ("dry gas", "wet gas"):
            nh = one_path(ctx, GAS + "make_nonhydrocarbon_properties", [tm.rconst(0), tm.rconst(0), tm.rconst(0)]).value
            outs = [o for o in paths(ctx, PS, [g, nh, dry]) if o.kind == "return"]
            if len(outs) != 1:
                return be.Verdict(be.REFUTED, "CAS", witness={}, detail="no unique returning path")
            Tc, Pc = outs[0].value
            (t0, t1, t2), (p0, p1, p2) = HC[dry]
            v = be.prove_equal_cas(tm.add(Tc, tm.mul(tm.rconst("1e-3"), Pc)), tm.add(t0 + t1 * g + t2 * g * g - tm.rconst("459.67"), tm.mul(tm.rconst("1e-3"), p0 + p1 * g + p2 * g * g)), {"g": GAS_BOX["g"]}, seed=ctx.seed)
            if v.status == be.PROVED:
                v = be.prove_equal_cas(Pc, p0 + p1 * g + p2 * g * g, {"g": GAS_BOX["g"]}, seed=ctx.seed)
            if v.status != be.PROVED:
                v.detail = f"[{dry}] " + v.detail
                return with_models(v, outs[0])
        return with_models(v, outs[0])

    def sutton_replay(w):
        gasm = __import__("bluebonnet.fluids.gas", fromlist=["x"])
        for dry, ((t0, t1, t2), (p0, p1, p2)) in (("dry gas", ((120.1, 429, -62.9), (671.1, -14, -34.3))), ("wet gas", ((164.3, 357.7, -67.7), (744, -125.4, 5.9)))):
            for g_ in (0.6, 0.75, 1.0):
                Tc, Pc = gasm.pseudocritical_point_Sutton(g_, gasm.make_nonhydrocarbon_properties(0.0, 0.0, 0.0), dry)
                if not (close(Tc, t0 + t1 * g_ + t2 * g_**2 - 459.67, 1e-10) and close(Pc, p0 + p1 * g_ + p2 * g_**2, 1e-10)):
                    return {"reproduced": True, "input": {"gravity": g_, "fluid": dry, "fractions": 0}, "observed": (float(Tc), float(Pc)), "required": (t0 + t1 * g_ + t2 * g_**2 - 459.67, p0 + p1 * g_ + p2 * g_**2)}
                a = gasm.pseudocritical_point_Sutton(g_, gasm.make_nonhydrocarbon_properties(0.03, 0.012, 0.018), dry)
                b_ = gasm.pseudocritical_point_Sutton(g_, gasm.make_nonhydrocarbon_properties(0.03, 0.012, 0.018, ("Helium", 0.0, 4.0, 9.5, 33.0)), dry)
                if not close(a, b_, 1e-12):
                    return {"reproduced": True, "input": {"gravity": g_, "fluid": dry, "extra": ("Helium", 0.0, 4.0, 9.5, 33.0)}, "observed": [float(x) for x in b_], "required": [float(x) for x in a]}
        for bad in ("oil", "Dry Gas", "DRY GAS", "dry gas ", " wet gas", "wet", ""):
            try:
                gasm.pseudocritical_point_Sutton(0.7, gasm.make_nonhydrocarbon_properties(0.0, 0.0, 0.0), bad)
                return {"reproduced": True, "input": {"fluid": bad}, "observed": "returns", "required": "ValueError"}
            except ValueError:
                pass
        return {"reproduced": False}

    obs.append(Obligation("sutton.no_contaminants", "all contaminant fractions 0 => (T_pc, p_pc) are the hydrocarbon-only Sutton correlations of the gravity (Wichert-Aziz correction 0)", no_contaminants, [PS, GAS + "make_nonhydrocarbon_properties"], "CAS", sutton_replay))

    def zero_extra():
        v = None
        xm, xt, xp = sym_args(["xm", "xt", "xp"])
        for dry in ("dry gas", "wet gas"):
            nh0 = one_path(ctx, GAS + "make_nonhydrocarbon_properties", [N2, H2S, CO2]).value
            nh1 = one_path(ctx, GAS + "make_nonhydrocarbon_properties", [N2, H2S, CO2, ("X", tm.rconst(0), xm, xt, xp)]).value
            a = [o for o in paths(ctx, PS, [g, nh0, dry]) if o.kind == "return"]
            b_ = [o for o in paths(ctx, PS, [g, nh1, dry]) if o.kind == "return"]
            if len(a) != 1 or len(b_) != 1:
                return be.Verdict(be.REFUTED, "CAS", witness={}, detail="no unique returning path")
            bx = {"g": GAS_BOX["g"], "N2": (0.0, 0.1), "H2S": (0.001, 0.1), "CO2": (0.0, 0.1), "xm": (2.0, 60.0), "xt": (10.0, 1200.0), "xp": (30.0, 1500.0)}
            for k in (0, 1):
                v = be.prove_equal_cas(a[0].value[k], b_[0].value[k], bx, seed=ctx.seed, npoints=6)
                if v.status != be.PROVED:
                    v.detail = f"[{dry}] component {k}: " + v.detail
                    return with_models(v, a[0], b_[0])
        return with_models(v, a[0], b_[0])

    obs.append(Obligation("sutton.zero_extra", "an extra non-hydrocarbon component with fraction 0 leaves the pseudocritical point unchanged", zero_extra, [PS, GAS + "make_nonhydrocarbon_properties"], "CAS", sutton_replay))

    def rejects():
        nh = one_path(ctx, GAS + "make_nonhydrocarbon_properties", [N2, H2S, CO2]).value
        try:
            fl = StrSym("fluid")
            outs = paths(ctx, PS, [g, nh, fl])
            goals = []
            known = tm.lor(*[fl.tests.get(k, tm.FALSE) for k in ("dry gas", "wet gas")])
            for o in outs:
                pc = tm.land(*(list(o.pc) + list(o.facts)))
                if o.kind == "return":
                    goals.append(tm.implies(pc, known))
                elif o.value == "ValueError":
                    goals.append(tm.implies(pc, tm.lnot(known)))
                else:
                    return be.Verdict(be.REFUTED, "SMT", witness={}, detail=f"raises {o.value}")
            if not any(o.kind == "raise" for o in outs):
                return be.Verdict(be.REFUTED, "SMT", witness={}, detail="no rejecting path")
            return with_models(be.prove_smt(tm.land(*goals), []), *outs)
        except sx.OutOfSubset as e:
            # the fluid type is manipulated as a string: fall back to concrete candidates (refutation only)
            for bad in ("oil", "Dry Gas", "DRY GAS", "dry gas ", " wet gas", "wet", ""):
                outs = paths(ctx, PS, [g, nh, bad])
                if any(o.kind == "return" for o in outs):
                    return be.Verdict(be.REFUTED, "SYMEX", witness={"fluid": bad}, detail=f"fluid type {bad!r} is accepted")
            raise e

    def sutton_frame():
        """the contaminant table handed to pseudocritical_point_Sutton is the caller's (and is reused for the next gas): the
        call must leave every field of it unchanged, on every path"""
        jj = tm.var("j", tm.I)
        for dry in ("dry gas", "wet gas"):
            holder = {}

            def mk(dry=dry):
                nh = one_path(ctx, GAS + "make_nonhydrocarbon_properties", [N2, H2S, CO2]).value
                holder["nh"] = nh
                snap = lambda a_: (a_.version, a_.get(jj)) if isinstance(a_, ArrV) else (None, list(a_) if isinstance(a_, (list, tuple)) else a_)
                holder["snap"] = snap
                holder["before"] = {fn_: snap(a_) for fn_, a_ in nh.fields.items()}
                return [g, nh, dry], {}
            outs = [o for o in ctx.engine.run_paths(ctx.engine.func(PS), mk) if o.kind != "infeasible"]
            for o in outs:
                nh = o.heap["args"][1]
                for fn_, a_ in nh.fields.items():
                    v0, e0 = holder["before"].get(fn_, (None, None))
                    v1, e1 = holder["snap"](a_)
                    same = (v1 == v0 and e1 is e0) if isinstance(a_, ArrV) else (e1 == e0 if not isinstance(e1, list) else (len(e1) == len(e0) and all(x is y or x == y for x, y in zip(e1, e0))))
                    if not same:
                        return be.Verdict(be.REFUTED, "FRAME", witness={"field": fn_, "fluid": dry}, detail=f"pseudocritical_point_Sutton modifies the caller's contaminant table: field {fn_!r} after the call is {e1} (was {e0}); the next call on the same table sees different properties")
                if set(nh.fields) != set(holder["before"]):
                    return be.Verdict(be.REFUTED, "FRAME", witness={}, detail="fields added to / removed from the caller's table")
        return be.Verdict(be.PROVED, "FRAME", detail="no field of the argument is written on any path")

    def sutton_frame_replay(w):
        import numpy as np
        gasm = __import__("bluebonnet.fluids.gas", fromlist=["x"])
        nh = gasm.make_nonhydrocarbon_properties(0.03, 0.012, 0.018)
        before = nh.copy()
        first = gasm.pseudocritical_point_Sutton(0.7, nh, "dry gas")
        changed = [n_ for n_ in nh.dtype.names if not np.array_equal(nh[n_], before[n_])]
        second = gasm.pseudocritical_point_Sutton(0.7, nh, "dry gas")
        if changed or not np.allclose(first, second, rtol=1e-13):
            return {"reproduced": True, "input": {"N2": 0.03, "H2S": 0.012, "CO2": 0.018, "specific_gravity": 0.7, "fluid": "dry gas", "calls": 2}, "observed": {"fields changed": changed, "first call": [float(x) for x in first], "second call": [float(x) for x in second]},
                    "required": "the table unchanged and the same result from the second call"}
        return {"reproduced": False}

    obs.append(Obligation("sutton.frame", "pseudocritical_point_Sutton leaves the caller's contaminant table unchanged (it is reused for the next gas; a modified table changes every later pseudocritical point)", sutton_frame, [PS, GAS + "make_nonhydrocarbon_properties"], "FRAME", sutton_frame_replay))

    obs.append(Obligation("sutton.rejects", "every fluid type other than 'dry gas' / 'wet gas' raises ValueError (symbolic string)", rejects, [PS], "SMT", sutton_replay))

    def canary():
        f = ctx.engine.func(FL + "water_viscosity")
        outs = ctx.engine.run_paths(f, lambda: ([fluid_obj(ctx), parr()], {}), pc=[tm.ge(n, tm.const(1))])
        elem = tm.subst(outs[0].value.get(j), unj)
        spec = tm.subst(one_path(ctx, WATER + "viscosity_water_McCain", [T, PJ, tm.rconst(0)]).value, unj)
        return be.prove_equal_cas(elem, spec, BOX, seed=ctx.seed)

    obs.append(Obligation("canary.cas", "CANARY (must be refuted): Fluid.water_viscosity ignores the salinity", canary, [FL + "water_viscosity"], "CAS", expect=be.REFUTED))
    return obs
