"""C10 bounded clauses: results always reflect the most recent simulation (run-time contracts on the real
IdealReservoir / SinglePhaseReservoir).

Family: every call sequence up to length L (quick 4, thorough 5) over the six-letter alphabet
  A = simulate(grid A, 15 pts)   B = simulate(grid B, 15 pts, other values)   C = simulate(grid C, 22 pts)
  r = recovery_factor()          d = recovery_factor(density=True)            i = recovery_factor_interpolator()
for both classes (nx=12, p_f=1000, p_i=8000, tests/data/pvt_gas.csv), walked as a prefix tree: the object
that carries a history is cloned (copy.deepcopy of the whole instance __dict__, the immutable-by-contract
FlowProperties shared) before every branch, so every node of the tree is the object after exactly that
sequence.  Because a clone could in principle hide state kept outside the instance, a seeded sample of
sequences is additionally executed from scratch on ONE object without any cloning.  Every node is compared
with a FRESH object on which only the latest simulate and the later calls were executed.  All comparisons
are exact (np.array_equal)."""
from __future__ import annotations

import copy
import random
import warnings

import numpy as np

from .common import Bounded

NX, P_F, P_I = 12, 1000.0, 8000.0
RENAME = {"P": "pressure", "Z-Factor": "z-factor", "Cg": "compressibility", "Viscosity": "viscosity", "Density": "density"}
ALPHABET = "ABCrdi"
SIMS = "ABCS"
_cache = {}


def grids():
    return {
        "A": np.arange(0, 15),  # whole days as an INTEGER-typed array (np.arange): B and S have the same length and are float, so both dtype orders occur
        "B": np.concatenate([np.arange(5.0), 4.0 + np.linspace(0.3, 9.0, 10)]),  # float, A's length, and A's first five instants: a re-run that starts like the previous one and then departs
        "C": np.concatenate([np.arange(4.0), 3.0 + np.linspace(0.2, np.sqrt(6.0), 18) ** 2]),  # another length, again sharing the leading instants
        "S": np.linspace(0.0, np.sqrt(2.0), 15) ** 2,  # simulated together with a frac-face schedule
    }


SCHEDULE = np.linspace(1000.0, 3000.0, 15)


def fluid():
    if "fluid" not in _cache:
        import pandas as pd
        from bluebonnet.flow import FlowProperties

        pvt = pd.read_csv("/repo/tests/data/pvt_gas.csv").rename(columns=RENAME)
        need = {"pressure", "pseudopressure", "compressibility", "viscosity", "z-factor", "density"}
        if not need <= set(pvt.columns):  # pragma: no cover - the shipped table has them
            raise RuntimeError("tests/data/pvt_gas.csv lacks " + ", ".join(sorted(need - set(pvt.columns))))
        with warnings.catch_warnings(), np.errstate(all="ignore"):
            warnings.simplefilter("ignore")
            _cache["fluid"] = FlowProperties(pvt, P_I)
    return _cache["fluid"]


def classes():
    from bluebonnet.flow import IdealReservoir, SinglePhaseReservoir

    return {"IdealReservoir": IdealReservoir, "SinglePhaseReservoir": SinglePhaseReservoir}


def fresh(cls_name):
    return classes()[cls_name](NX, P_F, P_I, fluid())


def clone(obj):
    fl = obj.fluid
    return copy.deepcopy(obj, {id(fl): fl})


def probe_times(time, fracs):
    """7 times: before the first, the first, between two nodes, a node, a seeded interior point, the last, after the last"""
    t = np.asarray(time, dtype=float)
    return np.array([t[0] - 0.5, t[0], t[1] + fracs[0] * (t[2] - t[1]), t[len(t) // 2], t[0] + fracs[1] * (t[-1] - t[0]), t[-1], t[-1] + 3.0])


def apply(obj, letter, fracs):
    """execute one letter; returns a normalised, comparable record of what the call returned"""
    g = grids()
    try:
        if letter in "ABC":
            obj.simulate(g[letter].copy())
            return None
        if letter == "S":
            obj.simulate(g["S"].copy(), SCHEDULE.copy())
            return None
        if letter == "r":
            return np.array(obj.recovery_factor(), copy=True)
        if letter == "d":
            return np.array(obj.recovery_factor(density=True), copy=True)
        if letter == "i":
            f = obj.recovery_factor_interpolator()
            return np.array(f(probe_times(obj.time, fracs)), copy=True)
    except RuntimeError:
        return "raise:RuntimeError"
    except Exception as e:  # noqa: BLE001
        return "raise:" + type(e).__name__
    raise ValueError(letter)


def same(a, b):
    if a is None or b is None or isinstance(a, str) or isinstance(b, str):
        return type(a) is type(b) and a == b
    a, b = np.asarray(a), np.asarray(b)
    return a.shape == b.shape and np.array_equal(a, b, equal_nan=True)


def snapshot(obj):
    return {k: (np.array(getattr(obj, k), copy=True) if hasattr(obj, k) else None) for k in ("time", "pseudopressure", "recovery")}


def brief(x):
    if x is None or isinstance(x, str):
        return x
    x = np.asarray(x)
    return {"shape": list(x.shape), "first": x.ravel()[:3].tolist(), "last": x.ravel()[-3:].tolist()}


def suffix_of(seq):
    """the latest simulate and everything after it (whole sequence when there is no simulate)"""
    last = max((k for k, c in enumerate(seq) if c in SIMS), default=None)
    return seq if last is None else seq[last:]


def reference(cls_name, seq, fracs, memo):
    """state/return of a fresh object on which only the latest simulate and the later calls were executed"""
    suf = suffix_of(seq)
    key = (cls_name, suf)
    if key not in memo:
        obj = fresh(cls_name)
        ret = None
        for c in suf:
            ret = apply(obj, c, fracs)
        probe = apply(clone(obj), "i", fracs)
        memo[key] = {"state": snapshot(obj), "ret": ret, "probe": probe, "fracface": obj.pressure_fracface}
    return memo[key]


def node_findings(cls_name, seq, obj, ret, fracs, memo, leaf):
    """contract clauses at the node reached by `seq`; yields (clause, ok, observed, required)"""
    ref = reference(cls_name, seq, fracs, memo)
    st = snapshot(obj)
    has_sim = any(c in SIMS for c in seq)
    bad = [k for k in st if not same(st[k], ref["state"][k])]
    yield ("history.state", not bad, {k: brief(st[k]) for k in bad}, {k: brief(ref["state"][k]) for k in bad} or "time, pseudopressure, .recovery equal to the fresh object's")
    if seq[-1] in "rd":
        yield ("history.return", same(ret, ref["ret"]), brief(ret), brief(ref["ret"]))
    if seq[-1] == "i":
        yield ("history.interp", same(ret, ref["ret"]), brief(ret), brief(ref["ret"]))
    if not has_sim:
        yield ("history.raises_before_simulate", ret == "raise:RuntimeError" and ref["ret"] == "raise:RuntimeError" and all(v is None for v in st.values()),
               {"history object": ret, "fresh object": ref["ret"], "attributes set": [k for k, v in st.items() if v is not None]}, "RuntimeError from both, no result attribute set")
    if leaf and has_sim:
        probe = apply(clone(obj), "i", fracs)
        yield ("history.interp", same(probe, ref["probe"]), brief(probe), brief(ref["probe"]))
    ff = obj.pressure_fracface
    yield ("fracface_frame", np.ndim(ff) == 0 and ff == P_F, brief(np.asarray(ff)) if np.ndim(ff) else ff, P_F)


def idem_findings(obj, letter, ret, fracs):
    """repeat the last call on a clone: same result, time / pseudopressure untouched"""
    o2 = clone(obj)
    before = snapshot(o2)
    ret2 = apply(o2, letter, fracs)
    after = snapshot(o2)
    keys = ("time", "pseudopressure") if letter not in SIMS else ("time", "pseudopressure", "recovery")
    bad = [k for k in keys if not same(before[k], after[k])]
    ok = same(ret, ret2) and not bad
    return ok, {"first": brief(ret), "second": brief(ret2), "changed": bad}


def inp(cls_name, seq, fracs):
    return {"class": cls_name, "sequence": seq, "nx": NX, "pressure_fracface": P_F, "pressure_initial": P_I, "table": "tests/data/pvt_gas.csv",
            "letters": "A/B/C simulate(grid A/B/C; A = np.arange(15) is int64, B float of the same length, C float of another length), S simulate(float quadratic grid of A's length, schedule linspace(1000,3000,15)), r recovery_factor(), d recovery_factor(density=True), i recovery_factor_interpolator()",
            "probe_fractions": list(fracs)}


def walk(B, cls_name, alphabet, depth, fracs, memo, idem_sim_depth):
    def rec(obj, seq):
        for c in alphabet:
            o = clone(obj) if seq else fresh(cls_name)
            ret = apply(o, c, fracs)
            s = seq + c
            for clause, ok, observed, required in node_findings(cls_name, s, o, ret, fracs, memo, leaf=len(s) == depth):
                B.case(clause, (cls_name, s), ok, input=inp(cls_name, s, fracs), observed=observed, required=required)
            if (c not in SIMS or len(s) <= idem_sim_depth) and not isinstance(ret, str):
                ok, obs = idem_findings(o, c, ret, fracs)
                B.case("idempotent", (cls_name, s), ok, input=inp(cls_name, s, fracs), observed=obs, required="repeating the last call returns the same result and leaves time/pseudopressure unchanged (array_equal)")
            if len(s) < depth:
                rec(o, s)

    rec(None, "")


def run_scratch(cls_name, seq, fracs, memo):
    """one object, no cloning: all findings along the sequence"""
    obj = fresh(cls_name)
    out = []
    for k, c in enumerate(seq):
        ret = apply(obj, c, fracs)
        s = seq[: k + 1]
        out += [(s, f) for f in node_findings(cls_name, s, obj, ret, fracs, memo, leaf=False)]
    if any(c in SIMS for c in seq):
        ref = reference(cls_name, seq, fracs, memo)
        probe = apply(obj, "i", fracs)
        out.append((seq, ("history.interp", same(probe, ref["probe"]), brief(probe), brief(ref["probe"]))))
    if seq and not isinstance(ret, str):
        before = snapshot(obj)
        ret2 = apply(obj, seq[-1], fracs)
        after = snapshot(obj)
        bad = [k for k in ("time", "pseudopressure") if not same(before[k], after[k])]
        out.append((seq, ("idempotent", same(ret, ret2) and not bad, {"first": brief(ret), "second": brief(ret2), "changed": bad}, "same result, state unchanged")))
    return out


def run(ctx):
    quick = ctx.tier == "quick"
    depth = 4 if quick else 5
    n_scratch = 40 if quick else 400
    rng = random.Random(ctx.seed)
    fracs = (round(rng.uniform(0.05, 0.95), 6), round(rng.uniform(0.05, 0.95), 6))
    B = Bounded("all call sequences of length <= %d over {simulate A/B/C, recovery_factor(), recovery_factor(density=True), recovery_factor_interpolator()} "
                "(prefix tree with state clones) plus all sequences of length <= %d over {simulate(A, schedule), simulate A, r, i} for SinglePhaseReservoir, plus %d seeded sequences "
                "per class executed on one object without cloning; IdealReservoir and SinglePhaseReservoir, nx=12, grids 15/15/22 points, p_f=1000, p_i=8000, tests/data/pvt_gas.csv; "
                "interpolators compared at 7 times (before/at/inside/after the grid); exact equality (np.array_equal)" % (depth, depth - 1, n_scratch))
    with warnings.catch_warnings(), np.errstate(all="ignore"):
        warnings.simplefilter("ignore")
        for cls_name in classes():
            memo = {}
            walk(B, cls_name, ALPHABET, depth, fracs, memo, idem_sim_depth=depth - 1)
            if cls_name == "SinglePhaseReservoir":
                walk(B, cls_name, "SAri", depth - 1, fracs, memo, idem_sim_depth=depth - 1)
            for _ in range(n_scratch):
                n = rng.randint(2, depth + 1)
                seq = "".join(rng.choice(ALPHABET + ("S" if cls_name == "SinglePhaseReservoir" else "")) for _ in range(n))
                for s, (clause, ok, observed, required) in run_scratch(cls_name, seq, fracs, memo):
                    B.case(clause, (cls_name, s, "scratch", seq), ok, input=inp(cls_name, seq, fracs), observed=observed, required=required)
    return B.result()


def replay(case):
    """re-run one violation record's input from scratch on one object (no cloning)"""
    case = case.get("input", case)
    fracs = tuple(case.get("probe_fractions", (0.5, 0.5)))
    with warnings.catch_warnings(), np.errstate(all="ignore"):
        warnings.simplefilter("ignore")
        found = run_scratch(case["class"], case["sequence"], fracs, {})
    failed = [{"after": s, "clause": clause, "observed": observed, "required": required} for s, (clause, ok, observed, required) in found if not ok]
    return {"reproduced": bool(failed), "call": "%s(%d, %r, %r, FlowProperties(pvt_gas, %r)) then %s" % (case["class"], NX, P_F, P_I, P_I, " ".join(case["sequence"])), "failed": failed[:5]}
