"""C13  Hand-coded derivative functions equal the true derivatives of their parents.

Contracts (lemmas over the transparent definitions extracted from oil.py / water.py):
  water.dbw_dp     b_water_McCain_dp(T, p)          == d/dp b_water_McCain(T, p)
  oil.drs_dp.*     dgor_dpressure_Standing           == d/dp solution_gor_Standing  below p_b; 0 at and above;
                   both functions switch branch on the same condition
  oil.dbo_drs      db_o_dgor_Standing                == d/dR b_o_bubblepoint_Standing
  oil.co_above     oil_compressibility_Standing      == oil_compressibility_undersat_Spivey   for p >= p_b
  oil.co_below     oil_compressibility_Standing      == (B_g - dBo/dR(Rs(p))) dRs/dp / B_ob(R_si)   for p < p_b
`deriv` is exact symbolic differentiation of the parent's own extracted term (no step size).
"""
from __future__ import annotations

from .. import backends as be
from .. import term as tm
from .common import *  # noqa: F403

LEVEL = "proof"
EXPLANATION = "every clause of C13 is an identity between terms extracted from the real source; proved for the whole input box by CAS normal form (sympy, exact rationals) plus SMT for the branch-selection clause"
TRUSTED = ["sympy normal-form procedures (expand/together/powsimp/expand_log) and the differentiation rules of pyvc.term.diff (sum, product, quotient, chain, power); cross-checked numerically at 50 digits on every run"]
ASSUMPTIONS = ["z_factor_DAK is opaque (an uninterpreted function of its four arguments): C13 needs only that both sides use the same Z"]

T, p, api, gg, R, Tpc, Ppc, Tstd, pstd = sym_args(["T", "p", "api", "gg", "R", "Tpc", "Ppc", "Tstd", "pstd"])
OILP = dict(OIL_BOX, p=(1.0, 15000.0))  # the identities are claimed for every positive pressure (shipped tables start at 10 psia and below)


def opaque_z(ctx):
    ctx.engine.opaque[GAS + "z_factor_DAK"] = lambda ex, a, kw: tm.app("Z_DAK", a)


def pb_term(ctx):
    return one_path(ctx, OIL + "pressure_bubblepoint_Standing", [T, api, gg, R]).value


def real_pb_ok(pt):
    return real(OIL + "pressure_bubblepoint_Standing")(pt["T"], pt["api"], pt["gg"], pt["R"]) > 50


def build(ctx):
    opaque_z(ctx)
    obs = []

    # ---- water
    def water():
        bw = one_path(ctx, WATER + "b_water_McCain", [T, p])
        d = one_path(ctx, WATER + "b_water_McCain_dp", [T, p])
        return tm.diff(bw.value, p), d.value, None, bw, d

    def water_real(pt):
        f = real(WATER + "b_water_McCain")
        g = real(WATER + "b_water_McCain_dp")
        return g(pt["T"], pt["p"]), num_deriv(lambda x: f(pt["T"], x), pt["p"])

    obs.append(cas_ob(ctx, "water.dbw_dp", "b_water_McCain_dp(T,p) == d/dp b_water_McCain(T,p)", water,
                      {"T": WATER_BOX["T"], "p": WATER_BOX["p"]}, [WATER + "b_water_McCain", WATER + "b_water_McCain_dp"], water_real, tol=1e-6))

    # ---- dRs/dp
    def rs_paths():
        pb = pb_term(ctx)
        c = tm.ge(p, pb)
        rs = paths(ctx, OIL + "solution_gor_Standing", [T, p, api, gg, R])
        dr = paths(ctx, OIL + "dgor_dpressure_Standing", [T, p, api, gg, R])
        return pb, c, rs, dr

    def pick(outs, c, positive):
        sel = [o for o in outs if has_cond(o, c, positive)]
        if len(sel) != 1 or sel[0].kind != "return":
            raise sx.OutOfSubset(f"no unique path with {'p >= p_b' if positive else 'p < p_b'} (found {len(sel)} of {len(outs)}: the function does not branch on that condition)")
        return sel[0]

    def drs_below():
        pb, c, rs, dr = rs_paths()
        a, b = pick(rs, c, False), pick(dr, c, False)
        return b.value, tm.diff(a.value, p), tm.lt(p, pb), a, b

    def drs_real(pt):
        rsf = real(OIL + "solution_gor_Standing")
        df = real(OIL + "dgor_dpressure_Standing")
        args = (pt["api"], pt["gg"], pt["R"])
        return df(pt["T"], pt["p"], *args), num_deriv(lambda x: rsf(pt["T"], x, *args), pt["p"], rel=1e-6)

    def below_real(pt):
        pb = real(OIL + "pressure_bubblepoint_Standing")(pt["T"], pt["api"], pt["gg"], pt["R"])
        return pb > 50 and pt["p"] < pb * (1 - 1e-4)

    def above_real(pt):
        pb = real(OIL + "pressure_bubblepoint_Standing")(pt["T"], pt["api"], pt["gg"], pt["R"])
        return pb > 50 and pt["p"] > pb * (1 + 1e-4)

    fs = [OIL + "solution_gor_Standing", OIL + "dgor_dpressure_Standing", OIL + "pressure_bubblepoint_Standing"]
    obs.append(cas_ob(ctx, "oil.drs_dp.below", "p < p_b: dgor_dpressure_Standing == d/dp solution_gor_Standing", drs_below, OILP, fs, drs_real, tol=1e-5, hyp_real=below_real, representations=True))

    def drs_above():
        pb, c, rs, dr = rs_paths()
        a, b = pick(rs, c, True), pick(dr, c, True)
        # parent constant (derivative 0) and hand-coded derivative 0 at and above the bubble point
        return tm.add(b.value, tm.diff(tm.toreal(a.value), p)), tm.rconst(0), tm.ge(p, pb), a, b

    obs.append(cas_ob(ctx, "oil.drs_dp.above", "p >= p_b: solution GOR is constant and dgor_dpressure_Standing == 0", drs_above, OILP, fs, drs_real, tol=1e-5, hyp_real=above_real, representations=True))

    def drs_branch():
        pb, c, rs, dr = rs_paths()
        pbv = tm.var("pb")
        for outs in (rs, dr):
            if len(outs) != 2:
                raise sx.OutOfSubset(f"expected two paths, found {len(outs)}")
            v = paths_split_on(outs, c, {pb: pbv})
            if v.status != be.PROVED:
                return v
        # the 'zero derivative' path of dgor must be exactly the 'constant' path of the parent
        const_path = [o for o in rs if tm.diff(tm.toreal(o.value), p) is tm.rconst(0)]
        zero_path = [o for o in dr if (tm.is_const(o.value) and tm.cval(o.value) == 0)]
        if len(const_path) != 1 or len(zero_path) != 1:
            raise sx.OutOfSubset("cannot identify the constant / zero branches")
        return be.prove_smt(tm.subst(tm.iff(tm.land(*const_path[0].pc), tm.land(*zero_path[0].pc)), {pb: pbv}), [], want={"p": p, "pb": pbv})

    def branch_replay(w):
        # concretise: p equal to the real bubble point of a sample oil (the only place the two tests can differ)
        import numpy as np
        rsf, df, pbf = real(OIL + "solution_gor_Standing"), real(OIL + "dgor_dpressure_Standing"), real(OIL + "pressure_bubblepoint_Standing")
        for (T_, api_, gg_, R_) in [(200.0, 35.0, 0.8, 650.0), (150.0, 30.0, 0.9, 400.0), (250.0, 45.0, 0.7, 1200.0)]:
            pb = pbf(T_, api_, gg_, R_)
            for pp in (pb, np.nextafter(pb, 0), np.nextafter(pb, 1e9)):
                d = df(T_, pp, api_, gg_, R_)
                # one-sided difference on the side the point belongs to: at and above p_b to the right (slope 0), below p_b to the left
                h = pp * 1e-7 * (1.0 if pp >= pb else -1.0)
                true_d = (rsf(T_, pp + h, api_, gg_, R_) - rsf(T_, pp, api_, gg_, R_)) / h
                if abs(d - true_d) > 1e-3 * max(1.0, abs(true_d)) + 1e-9:
                    return {"reproduced": True, "input": {"T": T_, "p": float(pp), "api": api_, "gg": gg_, "R": R_, "p_b": float(pb)},
                            "observed": float(d), "required": float(true_d), "note": "one-sided derivative of the parent at the branch point (right at and above p_b, left below)"}
        return {"reproduced": False}

    obs.append(Obligation("oil.drs_dp.branch", "parent and derivative switch branch on the same condition p >= p_b (derivative is 0 exactly where the parent is constant)", drs_branch, fs, "SMT", branch_replay))

    # ---- dBo/dRs
    def dbo():
        a = one_path(ctx, OIL + "b_o_bubblepoint_Standing", [T, api, gg, R])
        b = one_path(ctx, OIL + "db_o_dgor_Standing", [T, api, gg, R])
        return b.value, tm.diff(a.value, R), None, a, b

    def dbo_real(pt):
        f, g = real(OIL + "b_o_bubblepoint_Standing"), real(OIL + "db_o_dgor_Standing")
        return g(pt["T"], pt["api"], pt["gg"], pt["R"]), num_deriv(lambda x: f(pt["T"], pt["api"], pt["gg"], x), pt["R"])

    obs.append(cas_ob(ctx, "oil.dbo_drs", "db_o_dgor_Standing == d/dR b_o_bubblepoint_Standing", dbo, OIL_BOX,
                      [OIL + "b_o_bubblepoint_Standing", OIL + "db_o_dgor_Standing"], dbo_real, tol=1e-6))

    # ---- all-pressure oil compressibility
    co_args = [T, p, api, gg, R, Tpc, Ppc, Tstd, pstd]
    CO_BOX = dict(OILP, Tpc=(-120.0, 60.0), Ppc=(550.0, 800.0), Tstd=(59.0, 61.0), pstd=(14.6, 14.8))
    cofs = [OIL + "oil_compressibility_Standing", OIL + "oil_compressibility_undersat_Spivey", GAS + "b_factor_DAK", OIL + "dgor_dpressure_Standing", OIL + "db_o_dgor_Standing", OIL + "b_o_bubblepoint_Standing", OIL + "solution_gor_Standing"]

    def co_paths():
        pb = pb_term(ctx)
        c = tm.ge(p, pb)
        return pb, c, paths(ctx, OIL + "oil_compressibility_Standing", co_args)

    def co_above():
        pb, c, outs = co_paths()
        o = pick(outs, c, True)
        sp = one_path(ctx, OIL + "oil_compressibility_undersat_Spivey", [T, p, api, gg, R])
        return o.value, sp.value, tm.ge(p, pb), o, sp

    def co_above_real(pt):
        f, g = real(OIL + "oil_compressibility_Standing"), real(OIL + "oil_compressibility_undersat_Spivey")
        a = (pt["T"], pt["p"], pt["api"], pt["gg"], pt["R"])
        return f(*a, pt["Tpc"], pt["Ppc"], pt["Tstd"], pt["pstd"]), g(*a)

    _co_above = cas_ob(ctx, "oil.co_above", "p >= p_b: oil_compressibility_Standing == oil_compressibility_undersat_Spivey", co_above, CO_BOX, cofs, co_above_real, tol=1e-9, hyp_real=above_real, representations=True)

    def near_bubblepoint_replay(w, inner=_co_above.replay):
        """'at and above the bubble point': the pressures AT p_b and a few psi above it (a random point of the box almost never
        falls into a window a few psi wide next to an input-dependent threshold)"""
        f, g, pbf = real(OIL + "oil_compressibility_Standing"), real(OIL + "oil_compressibility_undersat_Spivey"), real(OIL + "pressure_bubblepoint_Standing")
        for (T_, api_, gg_, R_) in ((200.0, 35.0, 0.8, 650.0), (150.0, 30.0, 0.9, 300.0), (250.0, 42.0, 0.75, 1100.0), (120.0, 25.0, 0.65, 150.0)):
            pb = float(pbf(T_, api_, gg_, R_))
            for d_ in (0.0, 1e-9, 1e-3, 0.5, 2.0, 4.9, 9.0, 30.0, 120.0):
                p_ = pb + d_
                a = float(f(T_, p_, api_, gg_, R_, -72.0, 650.0, 60.0, 14.7))
                b = float(g(T_, p_, api_, gg_, R_))
                if not close(a, b, 1e-9):
                    return {"reproduced": True, "input": {"T": T_, "p": p_, "api": api_, "gg": gg_, "R": R_, "p_b": pb, "p - p_b": d_}, "observed": {"oil_compressibility_Standing": a}, "required": {"oil_compressibility_undersat_Spivey": b}}
        return inner(w) if inner else {"reproduced": False}

    _co_above.replay = near_bubblepoint_replay
    obs.append(_co_above)

    def co_below():
        pb, c, outs = co_paths()
        o = pick(outs, c, False)
        bg = one_path(ctx, GAS + "b_factor_DAK", [T, p, Tpc, Ppc, Tstd, pstd])
        rs = pick(paths(ctx, OIL + "solution_gor_Standing", [T, p, api, gg, R]), c, False)
        drs = pick(paths(ctx, OIL + "dgor_dpressure_Standing", [T, p, api, gg, R]), c, False)
        dbo_ = one_path(ctx, OIL + "db_o_dgor_Standing", [T, api, gg, rs.value])
        bob = one_path(ctx, OIL + "b_o_bubblepoint_Standing", [T, api, gg, R])
        spec = tm.div(tm.mul(tm.sub(bg.value, dbo_.value), drs.value), bob.value)
        return o.value, spec, tm.lt(p, pb), o, bg, rs, drs, dbo_, bob

    def co_below_real(pt):
        f = real(OIL + "oil_compressibility_Standing")
        a = (pt["T"], pt["p"], pt["api"], pt["gg"], pt["R"])
        bg = real(GAS + "b_factor_DAK")(pt["T"], pt["p"], pt["Tpc"], pt["Ppc"], pt["Tstd"], pt["pstd"])
        rs = real(OIL + "solution_gor_Standing")(*a)
        drs = real(OIL + "dgor_dpressure_Standing")(*a)
        dbo_ = real(OIL + "db_o_dgor_Standing")(pt["T"], pt["api"], pt["gg"], rs)
        bob = real(OIL + "b_o_bubblepoint_Standing")(pt["T"], pt["api"], pt["gg"], pt["R"])
        return f(*a, pt["Tpc"], pt["Ppc"], pt["Tstd"], pt["pstd"]), (bg - dbo_) * drs / bob

    def co_below_hyp(pt):
        tr = (pt["T"] + 459.67) / (pt["Tpc"] + 459.67)
        return below_real(pt) and 1.05 <= tr <= 3.0

    obs.append(cas_ob(ctx, "oil.co_below", "p < p_b: oil_compressibility_Standing == (B_g - dBo/dR(Rs(p))) * dRs/dp / B_ob(R_si), with the library's own B_g, dRs/dp and dBo/dR",
                      co_below, CO_BOX, cofs, co_below_real, tol=1e-9, hyp_real=co_below_hyp))

    # the same with the standard conditions OMITTED on both sides: "the library's own gas formation volume factor" called the
    # way the caller calls the compressibility (defaults of two functions in two modules that must agree)
    co_args_d = [T, p, api, gg, R, Tpc, Ppc]

    def co_below_defaults():
        pb = pb_term(ctx)
        c = tm.ge(p, pb)
        o = pick(paths(ctx, OIL + "oil_compressibility_Standing", co_args_d), c, False)
        bg = one_path(ctx, GAS + "b_factor_DAK", [T, p, Tpc, Ppc])
        rs = pick(paths(ctx, OIL + "solution_gor_Standing", [T, p, api, gg, R]), c, False)
        drs = pick(paths(ctx, OIL + "dgor_dpressure_Standing", [T, p, api, gg, R]), c, False)
        dbo_ = one_path(ctx, OIL + "db_o_dgor_Standing", [T, api, gg, rs.value])
        bob = one_path(ctx, OIL + "b_o_bubblepoint_Standing", [T, api, gg, R])
        spec = tm.div(tm.mul(tm.sub(bg.value, dbo_.value), drs.value), bob.value)
        return o.value, spec, tm.lt(p, pb), o, bg, rs, drs, dbo_, bob

    def co_below_defaults_real(pt):
        f = real(OIL + "oil_compressibility_Standing")
        a = (pt["T"], pt["p"], pt["api"], pt["gg"], pt["R"])
        bg = real(GAS + "b_factor_DAK")(pt["T"], pt["p"], pt["Tpc"], pt["Ppc"])
        rs = real(OIL + "solution_gor_Standing")(*a)
        drs = real(OIL + "dgor_dpressure_Standing")(*a)
        dbo_ = real(OIL + "db_o_dgor_Standing")(pt["T"], pt["api"], pt["gg"], rs)
        bob = real(OIL + "b_o_bubblepoint_Standing")(pt["T"], pt["api"], pt["gg"], pt["R"])
        return f(*a, pt["Tpc"], pt["Ppc"]), (bg - dbo_) * drs / bob

    obs.append(cas_ob(ctx, "oil.co_below.defaults", "p < p_b, standard conditions omitted: oil_compressibility_Standing(T, p, ..., T_pc, p_pc) == (B_g - dBo/dR) * dRs/dp / B_ob with B_g = b_factor_DAK(T, p, T_pc, p_pc) (each function's own defaults)",
                      co_below_defaults, {k_: v_ for k_, v_ in CO_BOX.items() if k_ not in ("Tstd", "pstd")}, cofs, co_below_defaults_real, tol=1e-9, hyp_real=co_below_hyp))

    def co_branch():
        pb, c, outs = co_paths()
        if len(outs) != 2:
            raise sx.OutOfSubset(f"expected two paths, found {len(outs)}")
        v = paths_split_on(outs, c, {pb: tm.var("pb")})
        return v, None

    obs.append(Obligation("oil.co_branch", "oil_compressibility_Standing switches between its two forms exactly at p >= p_b", lambda: co_branch()[0], cofs, "SMT"))

    from ..xcheck import scalar_xcheck
    oilok = lambda pt: real_pb_ok(pt)
    for q_, an, bx in ((WATER + "b_water_McCain", ["T", "p"], {"T": WATER_BOX["T"], "p": WATER_BOX["p"]}), (WATER + "b_water_McCain_dp", ["T", "p"], {"T": WATER_BOX["T"], "p": WATER_BOX["p"]}),
                       (OIL + "solution_gor_Standing", ["T", "p", "api", "gg", "R"], OILP), (OIL + "dgor_dpressure_Standing", ["T", "p", "api", "gg", "R"], OILP),
                       (OIL + "b_o_bubblepoint_Standing", ["T", "api", "gg", "R"], OIL_BOX), (OIL + "db_o_dgor_Standing", ["T", "api", "gg", "R"], OIL_BOX)):
        obs.append(scalar_xcheck(ctx, q_, an, bx, hyp_real=(oilok if "R" in an else None)))
    obs.append(scalar_xcheck(ctx, OIL + "oil_compressibility_Standing", ["T", "p", "api", "gg", "R", "Tpc", "Ppc"], dict(OILP, Tpc=(-100.0, 20.0), Ppc=(600.0, 700.0)), hyp_real=lambda pt: real_pb_ok(pt) and 1.1 <= (pt["T"] + 459.67) / (pt["Tpc"] + 459.67) <= 3, opaque_z=True))

    # ---- canary: a deliberately false derivative identity generated from the real code must be refuted
    def canary():
        bw = one_path(ctx, WATER + "b_water_McCain", [T, p])
        d = one_path(ctx, WATER + "b_water_McCain_dp", [T, p])
        return tm.mul(tm.rconst("1.0001"), tm.diff(bw.value, p)), d.value

    obs.append(cas_ob(ctx, "canary.cas", "CANARY (must be refuted): 1.0001 * d/dp b_water_McCain == b_water_McCain_dp", canary,
                      {"T": WATER_BOX["T"], "p": WATER_BOX["p"]}, [WATER + "b_water_McCain"], expect=be.REFUTED))
    return obs
