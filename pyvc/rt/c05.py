"""C05 bounded clauses: parameter round-trip of the one-phase forecaster and run-time checks of bound
containment, guess regularisation and rejection of malformed bounds, on the real bluebonnet.forecast code.

Recovery curves: IdealReservoir(40, 500, 5000).recovery_factor_interpolator() and the SinglePhaseReservoir one on
tests/data/pvt_gas.csv (both simulated on 1500 sqrt-spaced times up to t = 10), and the analytic tanh(sqrt(x)).

Tolerances (relative).  Round trip: 1e-5 for windows ending at >= 1.5 tau, 1e-4 for windows ending in
[0.6 tau, 1.5 tau).  Measured on the clean code over 4000 seeded draws: worst 5e-9 resp. 1.3e-7, median 1e-16 -
far inside the 1 % / 5 % the plan asked for, so the tighter values are what is enforced.  Bounds containment:
slack 1e-9 * max(1, |bound|).  Fixed-tau optimum: M_ within 1e-6 relative of the clipped closed-form
least-squares optimum (measured worst 2e-9)."""
from __future__ import annotations

import math
import random
import warnings

import numpy as np

from .common import Bounded

RENAME = {"P": "pressure", "Z-Factor": "z-factor", "Cg": "compressibility", "Viscosity": "viscosity", "Density": "density"}
TOL_LATE, TOL_EARLY, TOL_OPT, SLACK = 1e-5, 1e-4, 1e-6, 1e-9
_curves = {}


def curves():
    if not _curves:
        import pandas as pd
        from bluebonnet.flow import FlowProperties, IdealReservoir, SinglePhaseReservoir

        ts = np.linspace(0.0, np.sqrt(10.0), 1500) ** 2
        with warnings.catch_warnings(), np.errstate(all="ignore"):
            warnings.simplefilter("ignore")
            r = IdealReservoir(40, 500.0, 5000.0, None)
            r.simulate(ts)
            _curves["ideal"] = r.recovery_factor_interpolator()
            pvt = pd.read_csv("/repo/tests/data/pvt_gas.csv").rename(columns=RENAME)
            g = SinglePhaseReservoir(40, 500.0, 5000.0, FlowProperties(pvt, 5000.0))
            g.simulate(ts)
            _curves["gas"] = g.recovery_factor_interpolator()
        _curves["tanh"] = lambda x: np.tanh(np.sqrt(x))
    return _curves


def window(cfg):
    n, kind = cfg["n"], cfg["grid"]
    u = np.linspace(0.0, 1.0, n + 1)[1:]
    if kind == "sqrt":
        u = u**2
    return u * cfg["end_over_tau"] * cfg["tau"]


def inf(x):
    return math.inf if x in ("inf", None) else float(x)


def make_bounds(b):
    from bluebonnet.forecast import Bounds

    if b is None:
        return None
    return Bounds(M=(inf(b["M"][0]), inf(b["M"][1])), tau=(inf(b["tau"][0]), inf(b["tau"][1])))


def fit(cfg):
    from bluebonnet.forecast import ForecasterOnePhase

    rf = curves()[cfg["curve"]]
    t = window(cfg)
    cum = cfg["M"] * rf(t / cfg["tau"])
    bounds = make_bounds(cfg.get("bounds"))
    f = ForecasterOnePhase(rf) if bounds is None else ForecasterOnePhase(rf, bounds)
    tau_fixed = cfg.get("tau_fixed")
    with warnings.catch_warnings(), np.errstate(all="ignore"):
        warnings.simplefilter("ignore")
        if tau_fixed is None:
            f.fit(t, cum)
        else:
            f.fit(t, cum, tau=tau_fixed)
    return f, t, cum, rf


def check_roundtrip(cfg):
    f, t, cum, rf = fit(cfg)
    eM, et = abs(f.M_ / cfg["M"] - 1.0), abs(f.tau_ / cfg["tau"] - 1.0)
    tol = TOL_LATE if cfg["end_over_tau"] >= 1.5 else TOL_EARLY
    law = np.array_equal(f.forecast_cum(t), f.M_ * rf(t / f.tau_)) and np.array_equal(f.forecast_cum(t, 2.0, 3.0), 2.0 * rf(t / 3.0))
    return bool(eM <= tol and et <= tol and law), {"M_": float(f.M_), "tau_": float(f.tau_), "rel err M": float(eM), "rel err tau": float(et), "forecast_cum == M*rf(t/tau)": bool(law)}, \
        "M_, tau_ within %g (relative) of the generating values; forecast_cum(t) == M_*rf(t/tau_)" % tol


def check_within(cfg):
    f, t, cum, rf = fit(cfg)
    b = cfg["bounds"]
    (mlo, mhi), (tlo, thi) = (inf(b["M"][0]), inf(b["M"][1])), (inf(b["tau"][0]), inf(b["tau"][1]))

    def inside(x, lo, hi):
        return lo - SLACK * max(1.0, abs(lo)) <= x <= (hi + SLACK * max(1.0, abs(hi)) if math.isfinite(hi) else hi)

    tau_fixed = cfg.get("tau_fixed")
    obs = {"M_": float(f.M_), "tau_": float(f.tau_)}
    ok = inside(f.M_, mlo, mhi) and math.isfinite(f.M_)
    if tau_fixed is None:
        ok = ok and inside(f.tau_, tlo, thi) and math.isfinite(f.tau_)
        req = "M_ in [%r, %r] and tau_ in [%r, %r] (slack 1e-9)" % (mlo, mhi, tlo, thi)
    else:
        ok = ok and f.tau_ == tau_fixed and type(f.tau_) is type(tau_fixed)
        y = rf(t / tau_fixed)
        m_opt = min(max(float(np.dot(cum, y) / np.dot(y, y)), mlo), mhi)
        obs["closed-form optimum"] = m_opt
        ok = ok and abs(f.M_ - m_opt) <= TOL_OPT * abs(m_opt)
        req = "tau_ is the supplied tau (%r) unchanged, M_ in [%r, %r] (slack 1e-9) and within 1e-6 of the clipped least-squares optimum" % (tau_fixed, mlo, mhi)
    return bool(ok), obs, req


def check_guess(cfg):
    b = make_bounds(cfg["bounds"])
    guess = [float(x) for x in cfg["guess"]]
    out = b.regularize_initial_guess(list(guess))
    lims = [b.M, b.tau]
    ok = isinstance(out, list) and len(out) == len(guess)
    for k in range(len(guess)) if ok else ():
        lo, hi = lims[k]
        ok = ok and lo <= out[k] <= hi
        if lo <= guess[k] <= hi:
            ok = ok and out[k] == guess[k]
    return bool(ok), {"returned": out}, "every component inside its bounds; components that were inside are returned unchanged"


def check_malformed(cfg):
    from bluebonnet.forecast import Bounds

    try:
        Bounds(M=tuple(inf(x) for x in cfg["M"]), tau=tuple(inf(x) for x in cfg["tau"]))
        got = "accepted"
    except ValueError:
        got = "ValueError"
    except Exception as e:  # noqa: BLE001
        got = type(e).__name__
    want = "accepted" if cfg["valid"] else "ValueError"
    return got == want, {"outcome": got}, want


CHECKS = {"roundtrip": check_roundtrip, "within_bounds": check_within, "guess_regularised": check_guess, "malformed_rejected": check_malformed}


def evaluate(clause, cfg):
    try:
        return CHECKS[clause](cfg)
    except Exception as e:  # noqa: BLE001
        return False, {"exception": "%s: %s" % (type(e).__name__, str(e)[:300])}, "no exception"


def draw(rng):
    return {"curve": rng.choice(["ideal", "gas", "tanh"]), "M": 10 ** rng.uniform(0.0, 8.0), "tau": 10 ** rng.uniform(-2.0, 4.0),
            "end_over_tau": round(rng.uniform(0.6, 3.0), 4), "n": rng.randint(50, 400), "grid": rng.choice(["uniform", "sqrt"])}


def fnum(x):
    return "inf" if x == math.inf else x


def _import_quietly():
    """bluebonnet's import registers a matplotlib scale and may emit (pending) deprecation warnings"""
    with warnings.catch_warnings():
        warnings.simplefilter("ignore")
        import bluebonnet.fluids  # noqa: F401
        import bluebonnet.forecast  # noqa: F401
        import bluebonnet.plotting  # noqa: F401


def run(ctx):
    _import_quietly()
    quick = ctx.tier == "quick"
    rng = random.Random(ctx.seed)
    n_rt = 12 if quick else 150
    B = Bounded("curves {IdealReservoir interpolator, SinglePhaseReservoir interpolator (pvt_gas.csv), tanh(sqrt x)}; M = 10^U(0,8), tau = 10^U(-2,4) plus the corners of that box and (1e9, 1e-2), window end / tau = U(0.6, 3), "
                "50..400 samples on uniform or sqrt-spaced times, noise-free; %d seeded round trips per curve (default bounds; tolerance 1e-5 for windows >= 1.5 tau, 1e-4 otherwise); "
                "%d fits with finite / half-infinite bounds containing or excluding the truth, free and fixed tau (slack 1e-9; fixed tau: 1e-6 of the clipped closed-form optimum); "
                "%d seeded bounds/guess pairs for regularize_initial_guess; malformed and well-formed Bounds" % (n_rt, (8 if quick else 60) * 7, 200 if quick else 3000))

    def emit(clause, cfg):
        ok, observed, required = evaluate(clause, cfg)
        B.case(clause, repr(sorted(cfg.items(), key=lambda kv: kv[0])), ok, input={"clause": clause, **cfg}, observed=observed, required=required)

    # round trip
    for name in ("ideal", "gas", "tanh"):
        for k in range(n_rt):
            cfg = draw(rng)
            cfg["curve"] = name
            if k % 6 == 0:
                cfg["end_over_tau"] = (0.6, 3.0, 1.5)[(k // 6) % 3]  # window edges and the tolerance switch
            if k % 6 == 1:
                cfg["n"] = 50
            emit("roundtrip", cfg)
        # the corners of the (M, tau) box: extreme ratios M/tau are where an optimiser's scaling shows
        for Mc, tc in ((1e8, 1e-2), (1.0, 1e4), (1e8, 1e4), (1.0, 1e-2), (1e9, 1e-2)):
            for eot in (3.0, 1.0):
                emit("roundtrip", {"curve": name, "M": Mc, "tau": tc, "end_over_tau": eot, "n": 300, "grid": "uniform"})
    # within bounds
    for _ in range(8 if quick else 60):
        c = draw(rng)
        M, tau = c["M"], c["tau"]
        a, b2 = rng.uniform(0.2, 0.9), rng.uniform(1.1, 5.0)
        variants = [
            {"M": [M * a, M * b2], "tau": [tau * a, tau * b2]},  # around the truth
            {"M": [M * 1.5, M * 4.0], "tau": [tau * 0.1, tau * 0.5]},  # truth outside, both
            {"M": [M * 0.05, M * 0.5], "tau": [tau * 2.0, tau * 30.0]},  # truth outside, other side
            {"M": [M * 1e-6, M * 1e-3], "tau": [tau * 1e2, tau * 1e3]},  # initial guess far above M's range / below tau's
            {"M": [M * a, "inf"], "tau": [tau * 3.0, "inf"]},  # half-infinite
        ]
        for v in variants:
            emit("within_bounds", {**c, "bounds": v})
        emit("within_bounds", {**c, "bounds": variants[0], "tau_fixed": c["tau"]})
        emit("within_bounds", {**c, "bounds": variants[rng.randrange(1, 5)], "tau_fixed": c["tau"] * rng.choice([0.5, 2.0, 1.0])})
    # guess regularisation
    for _ in range(200 if quick else 3000):
        s1, s2 = 10 ** rng.uniform(-3, 8), 10 ** rng.uniform(-3, 5)
        lo1, lo2 = rng.choice([0.0, s1 * rng.random()]), s2 * rng.random()
        hi1, hi2 = lo1 + s1 * (0.01 + rng.random()), lo2 + s2 * (0.01 + rng.random())
        half = rng.random() < 0.15
        bounds = {"M": [lo1, "inf" if half else hi1], "tau": [lo2, "inf" if half and rng.random() < 0.5 else hi2]}

        def g(lo, hi):
            return rng.choice([lo - abs(hi - lo) * rng.random() - 1e-3, lo, lo + (hi - lo) * rng.random(), hi, hi + abs(hi - lo) * rng.random() + 1e-3, hi * 10 + 1])

        guess = [g(lo1, hi1)] + ([g(lo2, hi2)] if rng.random() < 0.7 else [])
        emit("guess_regularised", {"bounds": bounds, "guess": guess})
    # malformed bounds
    fixed = [
        ([1, 2, 3], [0, 1], False), ([1], [0, 1], False), ([], [0, 1], False), ([1, 2], [1], False), ([1, 2], [], False), ([1, 2], [1, 2, 3], False),
        ([1, 0], [0, 1], False), ([1, 1], [0, 1], False), ([0, 1], [20, 10], False), ([0, 1], [5, 5], False), ([0, "inf"], [1e-10, "inf"], True), ([0, 1], [2, 3], True),
        (["inf", "inf"], [0, 1], False), ([0, 1], [-1, -1], False), ([-2, -1], [-5, -4], True),
    ]
    for M, tau, valid in fixed:
        emit("malformed_rejected", {"M": M, "tau": tau, "valid": valid})
    for _ in range(20 if quick else 300):
        lo, d = rng.uniform(-10, 1e6), rng.choice([0.0, -rng.random() * 100, rng.random() * 100 + 1e-6])
        which = rng.choice(["M", "tau"])
        good = [0.0, 1.0]
        pair = [lo, lo + d]
        emit("malformed_rejected", {"M": pair if which == "M" else good, "tau": pair if which == "tau" else good, "valid": pair[0] < pair[1]})
    return B.result()


def replay(case):
    _import_quietly()
    cfg = dict(case.get("input", case))
    clause = cfg.pop("clause", None) or case.get("clause")
    ok, observed, required = evaluate(clause, cfg)
    return {"reproduced": not ok, "call": "%s on %s" % (clause, cfg), "observed": observed, "required": required}
