"""C10  Results always reflect the most recent simulation, never stale state.

Representation invariant cache_ok(self): 'recovery' present  =>  'time' and 'pseudopressure' present and
recovery == RF(self.time, self.pseudopressure, mode).  Abstract view (time, pseudopressure, cache).
  simulate.frame / .drops_cache / .function_of_args / .atomic     (both classes, with and without a schedule)
  recovery_factor.post / .frame        result == RF(current state, mode), stored as the cache, nothing else written
  interpolator.post                    built over (self.time, cache if present else RF(current state)), fill (0, last)
  before_simulate                      RuntimeError from both recovery calls when nothing has been simulated
History equivalence (any call sequence == fresh object after the last simulate and the later recovery calls) follows
by induction on the history from these method contracts; all sequences up to length 4/5: BOUNDED run-time contract.
"""
from __future__ import annotations

from .. import backends as be
from .. import term as tm
from .. import symex as sx
from ..symex import ArrV, ObjV
from ..libmodels import Interp1dV
from . import resv
from .common import *  # noqa: F403

LEVEL = "proof"
EXPLANATION = "the three methods are executed symbolically on objects in every relevant pre-state (nothing simulated / simulated / simulated with a cached recovery); frames are read off the log of attribute writes and array versions, 'function of the arguments' is a dependency check on the result terms, recovery formulas are CAS obligations; the induction over histories is a meta-argument over these contracts and is exercised by the bounded layer"
TRUSTED = ["scipy cumulative_trapezoid / interp1d models", "induction on the call history (base: fresh object; step: each method contract re-establishes cache_ok and the abstract view)"]
ASSUMPTIONS = ["call sequences are also run for real up to a bounded length (bounded clause)"]

nt, nx = resv.nt, resv.nx
k = tm.var("k", tm.I)
CLASSES = ("IdealReservoir", "SinglePhaseReservoir")


def old_state(cache=True, length=None):
    L = length if length is not None else tm.var("nt_old", tm.I)

    def f():
        st = {"time": ArrV((L,), lambda i: tm.app("old_t", i), "f8", name="old_t"), "pseudopressure": ArrV((L, nx), lambda i: tm.app("old_PP", i), "f8", name="old_PP")}
        if cache:
            st["recovery"] = ArrV((L,), lambda i: tm.app("old_rec", i), "f8", name="old_rec")
        return st
    return f


def mentions_old(t):
    return sorted({a.args[0] for a in tm.apps(t) if a.args[0].startswith("old_")} | {v.args[0] for v in tm.free_vars(t) if v.args[0] == "nt_old"})


def seq_replay(w):
    """bounded search over short call sequences on the real classes (the rt layer's own harness)"""
    import types
    import warnings
    import numpy as np
    warnings.simplefilter("ignore")
    from ..rt import c10 as rt
    # hidden state across simulations in one process: a second grid with the same length and end points
    try:
        flow = __import__("bluebonnet.flow", fromlist=["x"])
        for cls_ in (flow.IdealReservoir,):
            a = cls_(20, 1000.0, 8000.0)
            a.simulate(np.linspace(0, 2, 60) ** 2)
            a.simulate(np.linspace(0, 4, 60))
            x = a.pseudopressure.copy()
            # independent backward-Euler reference for the second grid
            tB = np.linspace(0, 4, 60)
            n_ = 20
            u = np.ones(n_)
            for i in range(len(tB) - 1):
                kk = (tB[i + 1] - tB[i]) * (n_ - 1) ** 2
                A_ = np.diag(np.full(n_, 1 + 2 * kk)) + np.diag(np.full(n_ - 1, -kk), 1) + np.diag(np.full(n_ - 1, -kk), -1)
                A_[-1, -1] = 1 + kk
                u = np.linalg.solve(A_, u)
            if not np.allclose(x[-1], u, rtol=1e-8, atol=1e-12):
                return {"reproduced": True, "input": {"sequence": "IdealReservoir(20, ...).simulate(linspace(0,2,60)**2); simulate(linspace(0,4,60))"}, "observed": {"max difference of the last profile to an independent backward-Euler run": float(np.abs(x[-1] - u).max())}, "required": "the field of the latest simulation"}
    except Exception:  # noqa: BLE001
        pass
    # hidden state: the same object simulated again after its fluid was replaced must equal a fresh object
    try:
        flow = __import__("bluebonnet.flow", fromlist=["x"])
        P = np.linspace(100.0, 9000.0, 40)
        def table(a0):
            return {"pressure": P, "pseudopressure": P**2, "alpha": a0 * (1 + (P / 9000.0) ** 2)}
        tgrid = np.linspace(0, 1.0, 30) ** 2
        fa, fb = flow.FlowProperties(table(2.0), 8000.0), flow.FlowProperties(table(0.5), 8000.0)
        res = flow.SinglePhaseReservoir(10, 1000.0, 8000.0, fa)
        res.simulate(tgrid)
        res.fluid = fb
        res.simulate(tgrid)
        fresh = flow.SinglePhaseReservoir(10, 1000.0, 8000.0, fb)
        fresh.simulate(tgrid)
        if not np.array_equal(res.pseudopressure, fresh.pseudopressure):
            return {"reproduced": True, "input": {"sequence": "simulate(t); res.fluid = other FlowProperties; simulate(t)", "tables": "pseudopressure p^2, alpha a0 (1 + (p/9000)^2) with a0 = 2 then 0.5", "nx": 10, "p_f": 1000.0, "p_i": 8000.0},
                    "observed": {"max difference to a fresh object": float(np.abs(res.pseudopressure - fresh.pseudopressure).max()), "extra attributes": sorted(set(vars(res)) - set(vars(fresh)))}, "required": "identical to a fresh object simulated with the current fluid"}
    except Exception:  # noqa: BLE001
        pass
    # read-only queries leave the stored field alone: recovery calls (both modes) and the interpolator on reservoirs with
    # every kind of attached fluid, including an ideal reservoir whose table does not reach down to zero pseudopressure
    try:
        import pandas as pd
        flow = __import__("bluebonnet.flow", fromlist=["x"])
        pvt = pd.read_csv("/repo/tests/data/pvt_gas.csv").rename(columns={"P": "pressure", "Z-Factor": "z-factor", "Cg": "compressibility", "Viscosity": "viscosity", "Density": "density"})
        tgrid = np.linspace(0, 2.0, 40) ** 2
        for label, mk in (("IdealReservoir, table cut to p >= 4000", lambda: flow.IdealReservoir(12, 4500.0, 8000.0, flow.FlowProperties(pvt[pvt["pressure"] >= 4000].reset_index(drop=True), 8000.0))),
                          ("IdealReservoir, full table", lambda: flow.IdealReservoir(12, 1000.0, 8000.0, flow.FlowProperties(pvt, 8000.0))),
                          ("SinglePhaseReservoir", lambda: flow.SinglePhaseReservoir(12, 1000.0, 8000.0, flow.FlowProperties(pvt, 8000.0)))):
            res = mk()
            res.simulate(tgrid)
            field, times = np.array(res.pseudopressure, copy=True), np.array(res.time, copy=True)
            for call in ("recovery_factor(density=True)", "recovery_factor()", "recovery_factor_interpolator()"):
                eval("res." + call)
                if not (np.array_equal(res.pseudopressure, field) and np.array_equal(res.time, times)):
                    return {"reproduced": True, "input": {"object": label, "nx": 12, "time": "linspace(0,2,40)**2", "sequence": "simulate(t); " + call},
                            "observed": {"max change of the stored field": float(np.abs(np.asarray(res.pseudopressure) - field).max())}, "required": "the stored times and field unchanged by a query"}
    except Exception:  # noqa: BLE001
        pass
    # the interpolator follows the recovery calls made after the simulation: simulate; rf(); interp; rf(density=True); interp
    try:
        import pandas as pd
        flow = __import__("bluebonnet.flow", fromlist=["x"])
        pvt = pd.read_csv("/repo/tests/data/pvt_gas.csv").rename(columns={"P": "pressure", "Z-Factor": "z-factor", "Cg": "compressibility", "Viscosity": "viscosity", "Density": "density"})
        tgrid = np.linspace(0, 2.0, 40) ** 2
        q = np.array([0.05, 0.5, 1.7, 3.9])
        for label, mk in (("SinglePhaseReservoir", lambda: flow.SinglePhaseReservoir(12, 1000.0, 8000.0, flow.FlowProperties(pvt, 8000.0))),
                          ("IdealReservoir with a fluid", lambda: flow.IdealReservoir(12, 1000.0, 8000.0, flow.FlowProperties(pvt, 8000.0)))):
            for seq in (("recovery_factor()", "recovery_factor_interpolator()", "recovery_factor(density=True)", "recovery_factor_interpolator()"),
                        ("recovery_factor(density=True)", "recovery_factor_interpolator()", "recovery_factor()", "recovery_factor_interpolator()")):
                a, b = mk(), mk()
                a.simulate(tgrid.copy())
                b.simulate(tgrid.copy())
                out = None
                for call in seq:
                    out = eval("a." + call)
                for call in (seq[0], seq[2]):      # the fresh object: only the recovery calls
                    eval("b." + call)
                ref = b.recovery_factor_interpolator()
                if not np.allclose(out(q), ref(q), rtol=1e-12, atol=1e-14):
                    return {"reproduced": True, "input": {"object": label, "nx": 12, "time": "linspace(0,2,40)**2", "sequence": ["simulate(t)"] + list(seq), "queries": q.tolist()},
                            "observed": np.asarray(out(q), dtype=float).tolist(), "required": np.asarray(ref(q), dtype=float).tolist()}
    except Exception:  # noqa: BLE001
        pass
    r_ = rt.run(types.SimpleNamespace(tier="quick", seed=0))
    if r_["violations"]:
        v = r_["violations"][0]
        return {"reproduced": True, "input": v.get("input"), "observed": v.get("observed"), "required": v.get("required"), "clause": v.get("clause")}
    return {"reproduced": False}


_INTERP_FULL = None


def interp_post_full(ctx):
    return _INTERP_FULL()


def build(ctx):
    obs = []
    for cls in CLASSES:
        tag = "ideal" if cls == "IdealReservoir" else "single"
        simq = resv.ISIM if cls == "IdealReservoir" else resv.SSIM
        scheds = ("none",) if cls == "IdealReservoir" else ("none", "array")

        def sim_frame(cls=cls, scheds=scheds):
            last = None
            for sch in scheds:
                for cache in (False, True):
                    outs, h = resv.run_simulate(ctx, cls, sch, old_state(cache))
                    for o in outs:
                        r = o.heap["args"][0]
                        if o.kind == "raise":
                            continue
                        gw = o.heap["ghost"].get("global_writes", [])
                        if gw:
                            return be.Verdict(be.REFUTED, "FRAME", witness={"schedule": sch}, detail=f"simulate() stores into module-level state {sorted(set(map(str, gw)))}: later simulations (of this or any other object) can depend on earlier ones")
                        written = sorted({a for op, a in r.writes})
                        if not set(written) <= {"time", "pseudopressure", "recovery"}:
                            return be.Verdict(be.REFUTED, "FRAME", witness={"schedule": sch}, detail=f"simulate() writes {written}: more than time, pseudopressure and the cache")
                        if "recovery" in r.fields:
                            return be.Verdict(be.REFUTED, "FRAME", witness={"schedule": sch, "cache": cache}, detail="after simulate() the recovery cached for the previous run is still present" + (f" on the path {[str(c)[:60] for c in o.pc]}" if o.pc else ""))
                        if not ({"time", "pseudopressure"} <= set(r.fields)):
                            return be.Verdict(be.REFUTED, "FRAME", witness={}, detail="simulate() returns without storing time and pseudopressure")
                        if r.fields["pressure_fracface"] is not resv.pf or r.fields["nx"] is not nx:
                            return be.Verdict(be.REFUTED, "FRAME", witness={"schedule": sch}, detail="simulate() changes a constructor field (pressure_fracface / nx)")
                        last = o
            return with_models(be.Verdict(be.PROVED, "FRAME", detail="writes only time, pseudopressure; cache dropped; constructor fields untouched; all pre-states and schedule forms"), last)

        obs.append(Obligation(f"{tag}.simulate.frame", f"{cls}.simulate: modifies only time and pseudopressure, drops a cached recovery (cache_ok re-established with an empty cache), leaves pressure_fracface and the other constructor fields alone", sim_frame, [simq], "FRAME", seq_replay))

        def sim_function(cls=cls, scheds=scheds):
            last = None
            for sch in scheds:
                S = resv.Step(ctx, cls, sch, old_state(True))
                j = tm.var("j", tm.I)
                terms = [S.pre((tm.const(0), j)), S.newrow((j,))] + [sv["b"]((j,)) for sv in S.solves] + [b["arg_fn"]((j,)) for b in S.bm]
                tf = S.res.fields["time"]
                terms.append(tf.get(k))
                bad = sorted(set(sum((mentions_old(t) for t in terms), [])))
                if bad:
                    return be.Verdict(be.REFUTED, "STRUCT", witness={"schedule": sch}, detail=f"the stored field depends on the previous state {bad}, not only on the arguments and the constructor fields")
                if tf.get(k) is not tm.app("t", [k]) or S.res.fields["pseudopressure"].get(k, j) is not S.PP(k, j):
                    return be.Verdict(be.REFUTED, "STRUCT", witness={}, detail="time / pseudopressure stored are not the argument / the computed field")
                last = S.o
            return with_models(be.Verdict(be.PROVED, "STRUCT", detail="row 0, the step body and the stored time mention only time, schedule, nx and the fluid"), last)

        obs.append(Obligation(f"{tag}.simulate.function_of_args", f"{cls}.simulate: the stored times are the argument and the stored field is a function of the arguments and the constructor fields only (never of previous times, field or cache)", sim_function, [simq], "STRUCT", seq_replay))

        def sim_atomic(cls=cls, scheds=scheds):
            last = None
            for sch in scheds:
                outs, h = resv.run_simulate(ctx, cls, sch, old_state(True), sched_len=(tm.var("Ls", tm.I) if sch == "array" else None))
                for o in outs:
                    if o.kind != "raise":
                        continue
                    r = o.heap["args"][0]
                    if r.writes:
                        return be.Verdict(be.REFUTED, "FRAME", witness={"schedule": sch}, detail=f"a rejected simulate() ({o.value}) has already written {sorted({a for _, a in r.writes})}: times and field no longer belong together")
                    last = o
            return with_models(be.Verdict(be.PROVED, "FRAME", detail="no attribute is written on any raising path"), *( [last] if last else []))

        obs.append(Obligation(f"{tag}.simulate.atomic", f"{cls}.simulate: a call that raises (schedule of the wrong length, frac-face pressure outside the table) leaves the object untouched", sim_atomic, [simq], "FRAME", seq_replay))

    # ---------------- recovery_factor / interpolator (defined on IdealReservoir, inherited)
    def rf_state(cls, cache):
        def mk():
            fluid, fo = resv.make_fluid(ctx)
            st = {"time": ArrV((nt,), lambda i: tm.app("t", i), "f8", name="t"), "pseudopressure": ArrV((nt, nx), lambda i: tm.app("PP", i), "f8", name="PP")}
            if cache:
                st["recovery"] = ArrV((nt,), lambda i: tm.app("old_rec", i), "f8", name="old_rec")
            return resv.make_reservoir(ctx, cls, fluid, st)
        return mk

    BASE = [tm.ge(nt, tm.const(2)), tm.ge(nx, tm.const(3))]

    def rf_spec_flux(cls, inc_of):
        PP = lambda r, c: tm.app("PP", [r, c])
        rate = lambda i: (-PP(i, tm.const(2)) + 4 * PP(i, tm.const(1)) - 3 * PP(i, tm.const(0))) * (nx - tm.rconst(1)) * tm.rconst("0.5")
        return rate

    def rf_post():
        last = None
        for cls in CLASSES:
            for dens in (False, True):
                for cache in (False, True):
                    holder = {}

                    def mk(cls=cls, cache=cache, dens=dens):
                        r = rf_state(cls, cache)()
                        holder["r"] = r
                        return [r], {"density": dens}

                    outs = ctx.engine.run_paths(ctx.engine.func(resv.RF), mk, pc=BASE)
                    if len(outs) != 1 or outs[0].kind != "return":
                        return be.Verdict(be.REFUTED, "CAS", witness={}, detail=f"recovery_factor(density={dens}) on a simulated object: {[(o.kind, o.value) for o in outs]}")
                    o = outs[0]
                    r = holder["r"]
                    res = o.value
                    if r.fields.get("recovery") is not res:
                        return be.Verdict(be.REFUTED, "FRAME", witness={}, detail="the returned array is not stored as the cache")
                    if sorted({a for _, a in r.writes}) != ["recovery"] or r.fields["pseudopressure"].version != 0 or r.fields["time"].version != 0:
                        return be.Verdict(be.REFUTED, "FRAME", witness={"density": dens}, detail=f"recovery_factor writes {sorted({a for _, a in r.writes})}; in-place writes to the stored field: {o.heap['ghost'].get('view_writes', [])}")
                    el = res.get(k)
                    if mentions_old(el):
                        return be.Verdict(be.REFUTED, "STRUCT", witness={}, detail="the result depends on the previously cached recovery")
                    scale = (tm.rconst(1) - resv.pf / resv.p_init) if cls == "IdealReservoir" else tm.rconst(1)
                    if not dens:
                        reg = o.heap["ghost"].get("cumtrapz", {})
                        if len(reg) != 1:
                            return be.Verdict(be.REFUTED, "CAS", witness={}, detail="flux recovery is not a cumulative trapezoid")
                        nm, q = list(reg.items())[0]
                        if q["x"] is None or q["x"]((k,)) is not tm.app("t", [k]):
                            return be.Verdict(be.REFUTED, "CAS", witness={}, detail="flux is not integrated over the stored times")
                        rate = rf_spec_flux(cls, None)
                        v = be.prove_equal_cas(q["y"]((k,)), rate(k), {"k": (0, 50), "nx": (3, 400)}, ints=("k", "nx"), seed=ctx.seed, npoints=5)
                        if v.status != be.PROVED:
                            v.detail = "flux stencil is not (-pp[:,2] + 4 pp[:,1] - 3 pp[:,0]) (nx - 1)/2: " + v.detail
                            return with_models(v, o)
                        v = be.prove_equal_cas(el, tm.app(nm, [k]) * scale, {"k": (0, 50), "p_f": (100.0, 5000.0), "p_init": (5000.0, 9000.0)}, ints=("k",), seed=ctx.seed, npoints=5)
                        if v.status != be.PROVED:
                            v.detail = "recovery is not the time integral of the flux times the FVF scale: " + v.detail
                            return with_models(v, o)
                    else:
                        sums = o.heap["ghost"].get("sums", {})
                        if len(sums) != 2:
                            return be.Verdict(be.REFUTED, "CAS", witness={}, detail="in-place recovery is not built from the mass in place at time k and at time 0")
                    last = o
        return with_models(be.Verdict(be.PROVED, "CAS+FRAME", detail="flux and in-place modes, both classes, with and without a cache"), last)

    obs.append(Obligation("recovery_factor.post", "recovery_factor(): result == RF(self.time, self.pseudopressure, mode) (flux: time integral of the three-point flux times the FVF scale; in place: 1 - mass/mass_0), independent of any cached value; it is stored as the cache and nothing else is written (the stored field is not modified through a view)", rf_post, [resv.RF], "CAS+FRAME", seq_replay))

    def interp_underlying(o):
        """the interp1d object behind the value recovery_factor_interpolator() returns: the value itself, or - for a
        wrapping callable - the single interpolant it evaluates on a symbolic query; returns (I, query map g with
        F(q) = I(g(q))) or a refuting verdict"""
        F = o.value
        q = tm.var("q")
        if isinstance(F, Interp1dV):
            return F, q, None
        if not isinstance(F, sx.FuncV):
            return None, None, be.Verdict(be.REFUTED, "STRUCT", witness={}, detail=f"recovery_factor_interpolator returns {type(F).__name__}, not a callable over time")
        outs = [x for x in ctx.engine.run_paths(F, [q]) if x.kind != "infeasible"]
        if len(outs) != 1 or outs[0].kind != "return" or not isinstance(outs[0].value, tm.T):
            raise sx.OutOfSubset(f"the returned callable has {len(outs)} paths on a scalar query")
        val = outs[0].value
        names = {nm: I_ for nm, I_ in o.heap["ghost"].get("interps", {}).items()}
        if not (val.op == "app" and val.args[0] in names and len(val.args) == 2):
            raise sx.OutOfSubset(f"the returned callable is not one interpolant applied to a function of the query: {val}")
        return names[val.args[0]], val.args[1], None

    def interp_post(state_only=True):
        last = None
        for cls in CLASSES:
            for cache in (False, True):
                holder = {}

                def mk(cls=cls, cache=cache):
                    r = rf_state(cls, cache)()
                    holder["r"] = r
                    return [r], {}

                outs = ctx.engine.run_paths(ctx.engine.func(resv.RFI), mk, pc=BASE)
                if len(outs) != 1 or outs[0].kind != "return":
                    return be.Verdict(be.REFUTED, "STRUCT", witness={}, detail=f"recovery_factor_interpolator: {[(o.kind, o.value) for o in outs]}")
                o = outs[0]
                I, gq, bad = interp_underlying(o)
                if bad is not None:
                    return bad
                # C10 needs: abscissae are a function of the stored times only (C17 interp.nodes_and_fill decides WHICH function is admissible)
                xk = I.xf(k)
                if xk is not tm.app("t", [k]):
                    foreign = [a for a in tm.apps(xk) if a.args[0] != "t"] + [v_ for v_ in tm.free_vars(xk) if v_ is not k]
                    if foreign:
                        return be.Verdict(be.REFUTED, "STRUCT", witness={}, detail=f"the interpolator's abscissae depend on more than the stored times: {foreign[:3]}")
                if cache:
                    if I.yf(k) is not tm.app("old_rec", [k]):
                        return be.Verdict(be.REFUTED, "STRUCT", witness={}, detail="with a cached recovery (valid by cache_ok) the interpolator does not use it")
                else:
                    # must equal a fresh recovery_factor() on the same state
                    h2 = {}

                    def mk2(cls=cls):
                        r = rf_state(cls, False)()
                        h2["r"] = r
                        return [r], {}
                    o2 = ctx.engine.run_paths(ctx.engine.func(resv.RF), mk2, pc=BASE)[0]
                    a, b_ = I.yf(k), o2.value.get(k)
                    # the two runs number their quadrature symbols independently: compare integrands and scale
                    ra, rb = list(o.heap["ghost"].get("cumtrapz", {}).items()), list(o2.heap["ghost"].get("cumtrapz", {}).items())
                    if len(ra) != 1 or len(rb) != 1 or ra[0][1]["y"]((k,)) is not rb[0][1]["y"]((k,)) or tm.subst(a, {tm.app(ra[0][0], [k]): tm.app(rb[0][0], [k])}) is not b_:
                        return be.Verdict(be.REFUTED, "STRUCT", witness={}, detail="without a cache the interpolator is not built from recovery_factor() of the current state")
                # 0 before the first time: the literal 0, or recovery[0], which is 0 by C03 rf.*.zero_at_start (for a cache: by cache_ok)
                zero_lo = (tm.is_const(I.fill_lo) and tm.cval(I.fill_lo) == 0) or I.fill_lo is I.yf(tm.const(0))
                if I.mode != "fill" or not zero_lo:
                    return be.Verdict(be.REFUTED, "STRUCT", witness={}, detail="fill value before the first time is not 0")
                if I.fill_hi is not I.yf(tm.sub(nt, tm.const(1))):
                    return be.Verdict(be.REFUTED, "STRUCT", witness={}, detail="fill value after the last time is not the final recovery")
                # frame: building the interpolator reads the state; with a cache it writes nothing, without one the only
                # write is the cache that the inner recovery_factor() stores (so a repeated call sees the same state)
                r = o.heap["args"][0]
                wr = [w_ for w_ in r.writes]
                if cache and (wr or r.fields.get("recovery") is None or r.fields["recovery"].get(k) is not tm.app("old_rec", [k])):
                    return be.Verdict(be.REFUTED, "FRAME", witness={}, detail=f"recovery_factor_interpolator() modifies the object although a cached recovery exists: writes {wr}, cache {'kept' if r.fields.get('recovery') is not None else 'removed'} (a repeated call does not see the same state)")
                if not cache and (any(w_ != ("set", "recovery") for w_ in wr) or "recovery" not in r.fields):
                    return be.Verdict(be.REFUTED, "FRAME", witness={}, detail=f"recovery_factor_interpolator() without a cache: writes {wr}; expected only the cache stored by recovery_factor()")
                if o.heap["ghost"].get("global_writes"):
                    return be.Verdict(be.REFUTED, "FRAME", witness={}, detail="recovery_factor_interpolator() writes module-level state")
                if not state_only:
                    v = interp_semantics(o, I, gq, cls, cache)
                    if v.status != be.PROVED:
                        return with_models(v, o)
                last = o
        return with_models(be.Verdict(be.PROVED, "STRUCT", detail="x = function of the stored times, y = cache or RF(current state), fill (0, last)" + ("" if state_only else "; F(t_k) = recovery[k], F = 0 before t_0, F = recovery[-1] after t_last")), last)

    def interp_semantics(o, I, gq, cls, cache):
        """C17: with F(q) = I(g(q)):  F(t_k) == y_k for every k;  q < t_0 => F(q) == 0;  q > t_last => F(q) == y_last,
        for every strictly increasing time grid (any sign, any origin), from the interp1d contract.  The contract's own
        precondition - abscissae strictly increasing, so that the interpolant through (x_k, y_k) is well defined - is an
        obligation here: it has to follow from the strict monotonicity of the stored times."""
        q = tm.var("q")
        one = tm.const(1)
        n1 = tm.sub(nt, one)
        T_ = lambda i: tm.app("t", [i])
        k2 = tm.var("k2", tm.I)
        inr = lambda i: tm.land(tm.le(tm.const(0), i), tm.lt(i, nt))
        # hypothesis on the grid, instantiated where needed (strictly increasing: k < k2 => t_k < t_k2)
        mono = lambda a, b_: tm.implies(tm.land(inr(a), inr(b_), tm.lt(a, b_)), tm.lt(T_(a), T_(b_)))
        hyp = list(o.pc) + [tm.ge(nt, tm.const(2))]
        # (0) library precondition: x strictly increasing
        xs = lambda i: I.xf(i)
        v = be.prove_smt(tm.implies(tm.land(inr(k), inr(k2), tm.lt(k, k2)), tm.lt(xs(k), xs(k2))), hyp + [mono(k, k2)], want={"t_k": T_(k), "t_k2": T_(k2), "x_k": xs(k), "x_k2": xs(k2)})
        if v.status != be.PROVED:
            v.detail = "interp1d precondition not established: the abscissae handed to interp1d are not strictly increasing for every strictly increasing time grid (several simulated times share one abscissa, so the interpolant cannot reproduce recovery at each of them): " + v.detail
            return v
        g = lambda arg: tm.subst(gq, {q: arg})
        # (1) nodes: g(t_k) is the abscissa x_k, so I(g(t_k)) = y_k by the node axiom
        v = be.prove_smt(tm.implies(inr(k), tm.eq(g(T_(k)), xs(k))), hyp, want={"t_k": T_(k)})
        if v.status != be.PROVED:
            v.detail = "the interpolator evaluated at a simulated time does not query its own node: " + v.detail
            return v
        # (2) outside: q < t_0 => g(q) < x_0 or (g(q) == x_0 and y_0 == 0);  q > t_last => g(q) > x_last or g(q) == x_last
        x0, xl = xs(tm.const(0)), xs(n1)
        y0_zero = I.fill_lo is I.yf(tm.const(0))
        lo_goal = tm.implies(tm.lt(q, T_(tm.const(0))), tm.lt(g(q), x0))
        v = be.prove_smt(lo_goal, hyp, want={"q": q, "t_0": T_(tm.const(0)), "g(q)": g(q), "x_0": x0})
        if v.status != be.PROVED:
            v.detail = "a query before the first simulated time is not mapped before the first abscissa (the value there is not the fill value 0): " + v.detail
            return v
        v = be.prove_smt(tm.implies(tm.gt(q, T_(n1)), tm.ge(g(q), xl)), hyp, want={"q": q, "t_last": T_(n1), "g(q)": g(q), "x_last": xl})
        if v.status != be.PROVED:
            v.detail = "a query after the last simulated time is not mapped to or after the last abscissa: " + v.detail
            return v
        return be.Verdict(be.PROVED, "SMT")

    global _INTERP_FULL
    _INTERP_FULL = lambda: interp_post(state_only=False)
    obs.append(Obligation("interpolator.post", "recovery_factor_interpolator(): interpolant over (a function of self.time, cache if present else recovery_factor() of the current state), 0 before the first time and the final recovery after the last; it writes nothing except the cache stored by the inner recovery_factor()", interp_post, [resv.RFI, resv.RF], "STRUCT", seq_replay))

    def before():
        for cls in CLASSES:
            # every way of asking: no arguments, the in-place mode, and with a time array (positional or keyword; the
            # `time` parameter of recovery_factor is documented but unused - it must not make the call succeed)
            for q, kw in ((resv.RF, {}), (resv.RF, {"density": True}), (resv.RF, {"time": "ARR"}), (resv.RF, {"time": "ARR", "density": True}), (resv.RFI, {})):
                def mk(cls=cls, kw=kw):
                    fluid, fo = resv.make_fluid(ctx)
                    kw2 = {k_: (resv.time_arr() if v_ == "ARR" else v_) for k_, v_ in kw.items()}
                    return [resv.make_reservoir(ctx, cls, fluid)], kw2
                outs = ctx.engine.run_paths(ctx.engine.func(q), mk, pc=BASE)
                # without arguments the documented RuntimeError; with a time argument any error (the clean code fails on the
                # missing field with AttributeError) - what must not happen is a normal return
                allowed = ("RuntimeError",) if "time" not in kw else ("RuntimeError", "AttributeError")
                if any(o.kind != "raise" or o.value not in allowed for o in outs):
                    return be.Verdict(be.REFUTED, "SYMEX", witness={}, detail=f"{q.split('.')[-1]}({', '.join(kw)}) before any simulate: {[(o.kind, o.value) for o in outs]}")
                if any(o.heap["args"][0].writes for o in outs):
                    return be.Verdict(be.REFUTED, "FRAME", witness={}, detail="state written before raising")
        return be.Verdict(be.PROVED, "SYMEX", detail="RuntimeError from recovery_factor(), recovery_factor(density=True) and recovery_factor_interpolator() on a fresh object of either class")

    obs.append(Obligation("before_simulate", "recovery_factor() and recovery_factor_interpolator() raise RuntimeError (and write nothing) when nothing has been simulated; recovery_factor(time[, density]) raises as well", before, [resv.RF, resv.RFI], "SYMEX", seq_replay))

    def canary():
        outs, h = resv.run_simulate(ctx, "SinglePhaseReservoir", "array", old_state(True))
        o = [x for x in outs if x.kind == "return"][0]
        r = o.heap["args"][0]
        if "recovery" in r.fields:
            return be.Verdict(be.PROVED, "FRAME")
        return be.Verdict(be.REFUTED, "FRAME", witness={}, detail="cache dropped (as it must be)")

    obs.append(Obligation("canary.frame", "CANARY (must be refuted): simulate() keeps the cached recovery", canary, [resv.SSIM], "FRAME", expect=be.REFUTED))
    tp = resv.twophase_delegates(ctx)
    tp.id = "dep." + tp.id
    obs.append(tp)
    return obs


def bounded(ctx):
    from ..rt import c10 as rt
    return rt.run(ctx)
