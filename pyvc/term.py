"""Hash-consed term DAG over reals / integers / booleans.

Terms are what the symbolic executor (symex.py) produces from the AST of the real
source.  Back ends: float evaluation (cross-check), mpmath evaluation (separating
points), outward-rounded interval evaluation (INT), sympy (CAS), z3 (SMT).

Semantics assumed (DESIGN.md 2.2): float values are mathematical reals, float
literals denote the decimal rational written in the source, division and powers are
total functions whose well-definedness is a separate obligation.
"""
from __future__ import annotations

import math
from fractions import Fraction

R, I, B = "R", "I", "B"

_table: dict = {}
_counter = [0]


class T:
    __slots__ = ("op", "args", "sort", "id", "__weakref__")

    def __repr__(self):
        return show(self)

    # arithmetic sugar (used by contracts, not by the executor)
    def __add__(self, o):
        return add(self, lift(o))

    def __radd__(self, o):
        return add(lift(o), self)

    def __sub__(self, o):
        return sub(self, lift(o))

    def __rsub__(self, o):
        return sub(lift(o), self)

    def __mul__(self, o):
        return mul(self, lift(o))

    def __rmul__(self, o):
        return mul(lift(o), self)

    def __truediv__(self, o):
        return div(self, lift(o))

    def __rtruediv__(self, o):
        return div(lift(o), self)

    def __neg__(self):
        return neg(self)

    def __pow__(self, o):
        return power(self, lift(o))

    def __hash__(self):
        return self.id

    def __eq__(self, o):
        return self is o



class NotScalar(TypeError):
    """a value of the symbolic executor (array, table, object, list) reached a place that models scalars only: the construct is
    outside the modelled subset - never an error of the code under contract and never a verdict"""

def mk(op, args, sort):
    key = (op, args, sort)
    t = _table.get(key)
    if t is None:
        t = T.__new__(T)
        t.op, t.args, t.sort = op, args, sort
        _counter[0] += 1
        t.id = _counter[0]
        _table[key] = t
    return t


def const(v, sort=None):
    if isinstance(v, bool):
        return mk("bool", (v,), B)
    if isinstance(v, int):
        return mk("const", (Fraction(v),), sort or I)
    if isinstance(v, float):
        if v != v or v in (math.inf, -math.inf):
            raise ValueError("non-finite literal")
        return mk("const", (Fraction(repr(v)),), sort or R)
    if isinstance(v, Fraction):
        if sort is None:
            sort = I if v.denominator == 1 else R
        return mk("const", (v,), sort)
    raise NotScalar(v)


def rconst(v):
    """real-sorted constant from int / float / Fraction / decimal string"""
    if isinstance(v, str):
        return mk("const", (Fraction(v),), R)
    if isinstance(v, float):
        return const(v, R)
    return mk("const", (Fraction(v),), R)


TRUE = mk("bool", (True,), B)
FALSE = mk("bool", (False,), B)
INF = mk("inf", (), R)  # np.inf: distinguished constant, x < INF for every real x, no arithmetic


def var(name, sort=R):
    return mk("var", (name,), sort)


def lift(v):
    if isinstance(v, T):
        return v
    return const(v)


def is_const(t):
    return t.op == "const"


def cval(t):
    return t.args[0]


def toreal(t):
    if t.sort == R:
        return t
    if t.op == "const":
        return mk("const", t.args, R)
    return mk("toreal", (t,), R)


def _num_sort(a, b):
    return I if (a.sort == I and b.sort == I) else R


def add(*xs):
    xs = [lift(x) for x in xs]
    sort = I if all(x.sort == I for x in xs) else R
    flat = []
    c = Fraction(0)
    for x in xs:
        if sort == R:
            x = toreal(x)
        if x.op == "+":
            ys = x.args
        else:
            ys = (x,)
        for y in ys:
            if y.op == "const":
                c += cval(y)
            else:
                flat.append(y)
    if c != 0 or not flat:
        flat.append(mk("const", (c,), sort))
    if len(flat) == 1:
        return flat[0]
    return mk("+", tuple(flat), sort)


def neg(x):
    x = lift(x)
    if x.op == "const":
        return mk("const", (-cval(x),), x.sort)
    if x.op == "neg":
        return x.args[0]
    return mk("neg", (x,), x.sort)


def sub(a, b):
    return add(a, neg(b))


def mul(*xs):
    xs = [lift(x) for x in xs]
    sort = I if all(x.sort == I for x in xs) else R
    flat = []
    c = Fraction(1)
    for x in xs:
        if sort == R:
            x = toreal(x)
        ys = x.args if x.op == "*" else (x,)
        for y in ys:
            if y.op == "const":
                c *= cval(y)
            else:
                flat.append(y)
    if c == 0:
        return mk("const", (Fraction(0),), sort)
    if c != 1 or not flat:
        flat.insert(0, mk("const", (c,), sort))
    if len(flat) == 1:
        return flat[0]
    return mk("*", tuple(flat), sort)


def div(a, b):
    a, b = toreal(lift(a)), toreal(lift(b))
    if a.op == "const" and cval(a) == 0:
        return a  # 0/b = 0 (b != 0 is a separate well-definedness obligation)
    if b.op == "const" and cval(b) != 0:
        if a.op == "const":
            return mk("const", (cval(a) / cval(b),), R)
        return mul(mk("const", (1 / cval(b),), R), a)
    if a is b:
        return mk("const", (Fraction(1),), R)  # b != 0 is a separate well-definedness obligation
    if a.op == "*" and b.op != "*" and b in a.args:
        rest = list(a.args)
        rest.remove(b)
        return mul(*rest)
    return mk("/", (a, b), R)


def floordiv(a, b):
    a, b = lift(a), lift(b)
    if a.op == "const" and b.op == "const" and cval(b) != 0:
        return const(Fraction(math.floor(cval(a) / cval(b))), _num_sort(a, b))
    return mk("floordiv", (a, b), _num_sort(a, b))


def mod(a, b):
    a, b = lift(a), lift(b)
    if a.op == "const" and b.op == "const" and cval(b) != 0:
        q = math.floor(cval(a) / cval(b))
        return const(cval(a) - q * cval(b), _num_sort(a, b))
    return mk("mod", (a, b), _num_sort(a, b))


def power(a, b):
    a, b = lift(a), lift(b)
    if b.op == "const" and cval(b).denominator == 1:
        n = int(cval(b))
        if a.op == "const" and (cval(a) != 0 or n >= 0) and abs(n) <= 64:
            return mk("const", (cval(a) ** n,), a.sort if n >= 0 else R)
        if n == 1:
            return a
        if n == 0:
            return const(1, a.sort)
        return mk("ipow", (a, mk("const", (Fraction(n),), I)), a.sort if n >= 0 else R)
    return mk("rpow", (toreal(a), toreal(b)), R)


def fn1(name, x):
    return mk(name, (toreal(lift(x)),), R)


def exp(x):
    x = lift(x)
    if x.op == "const" and cval(x) == 0:
        return rconst(1)
    return fn1("exp", x)


def log(x):
    x = lift(x)
    if x.op == "const" and cval(x) == 1:
        return rconst(0)
    return fn1("log", x)


def sqrt(x):
    return fn1("sqrt", x)


def absv(x):
    x = lift(x)
    if x.op == "const":
        return mk("const", (abs(cval(x)),), x.sort)
    return mk("abs", (x,), x.sort)


def trunc(x):
    """numpy's cast of a real to an integer dtype: truncation toward zero"""
    x = lift(x)
    if x.sort == I:
        return x
    if x.op == "const":
        return const(Fraction(math.trunc(cval(x))), I)
    return mk("trunc", (x,), I)


def minimum(a, b):
    a, b = lift(a), lift(b)
    if a is b:
        return a
    if a.op == "const" and b.op == "const":
        return a if cval(a) <= cval(b) else b
    s = _num_sort(a, b)
    if s == R:
        a, b = toreal(a), toreal(b)
    return mk("min", (a, b), s)


def maximum(a, b):
    a, b = lift(a), lift(b)
    if a is b:
        return a
    if a.op == "const" and b.op == "const":
        return a if cval(a) >= cval(b) else b
    s = _num_sort(a, b)
    if s == R:
        a, b = toreal(a), toreal(b)
    return mk("max", (a, b), s)


def _cmp(op, a, b):
    a, b = lift(a), lift(b)
    if a.sort == B or b.sort == B:
        if op == "==":
            return iff(a, b)
        if op == "!=":
            return lnot(iff(a, b))
        raise TypeError("ordering on booleans")
    if a.op == "inf" or b.op == "inf":
        if a.op == "inf" and b.op == "inf":
            return const(op in ("<=", ">=", "=="))
        if a.op == "inf":  # INF op b
            return const(op in (">", ">=", "!="))
        return const(op in ("<", "<=", "!="))
    if a.op == "const" and b.op == "const":
        x, y = cval(a), cval(b)
        return const({"<": x < y, "<=": x <= y, ">": x > y, ">=": x >= y, "==": x == y, "!=": x != y}[op])
    if a is b:
        return const(op in ("<=", ">=", "=="))
    if _num_sort(a, b) == R:
        a, b = toreal(a), toreal(b)
    if op == ">":
        return mk("<", (b, a), B)
    if op == ">=":
        return mk("<=", (b, a), B)
    if op == "!=":
        return lnot(mk("==", (a, b), B))
    return mk(op, (a, b), B)


def lt(a, b):
    return _cmp("<", a, b)


def le(a, b):
    return _cmp("<=", a, b)


def gt(a, b):
    return _cmp(">", a, b)


def ge(a, b):
    return _cmp(">=", a, b)


def eq(a, b):
    return _cmp("==", a, b)


def ne(a, b):
    return _cmp("!=", a, b)


def cmp(op, a, b):
    return _cmp(op, a, b)


def land(*xs):
    out = []
    for x in xs:
        x = lift(x)
        if x is TRUE:
            continue
        if x is FALSE:
            return FALSE
        if x.op == "and":
            out.extend(x.args)
        else:
            out.append(x)
    seen = []
    for x in out:
        if x not in seen:
            seen.append(x)
    if not seen:
        return TRUE
    if len(seen) == 1:
        return seen[0]
    return mk("and", tuple(seen), B)


def lor(*xs):
    out = []
    for x in xs:
        x = lift(x)
        if x is FALSE:
            continue
        if x is TRUE:
            return TRUE
        if x.op == "or":
            out.extend(x.args)
        else:
            out.append(x)
    seen = []
    for x in out:
        if x not in seen:
            seen.append(x)
    if not seen:
        return FALSE
    if len(seen) == 1:
        return seen[0]
    return mk("or", tuple(seen), B)


def lnot(x):
    x = lift(x)
    if x is TRUE:
        return FALSE
    if x is FALSE:
        return TRUE
    if x.op == "not":
        return x.args[0]
    return mk("not", (x,), B)


def implies(a, b):
    return lor(lnot(a), b)


def iff(a, b):
    a, b = lift(a), lift(b)
    if a is b:
        return TRUE
    if a.op == "bool":
        return b if a is TRUE else lnot(b)
    if b.op == "bool":
        return a if b is TRUE else lnot(a)
    return mk("iff", (a, b), B)


def ite(c, a, b):
    c, a, b = lift(c), lift(a), lift(b)
    if c is TRUE:
        return a
    if c is FALSE:
        return b
    if a is b:
        return a
    if a.sort == B:
        return land(implies(c, a), implies(lnot(c), b))
    s = _num_sort(a, b)
    if s == R:
        a, b = toreal(a), toreal(b)
    return mk("ite", (c, a, b), s)


def app(fname, args, sort=R):
    """uninterpreted function application (opaque callees, library results, input arrays)"""
    return mk("app", (fname,) + tuple(lift(a) for a in args), sort)


# ---------------------------------------------------------------------------------------------
# traversal helpers


def children(t):
    if t.op in ("const", "bool", "var", "inf"):
        return ()
    if t.op == "app":
        return t.args[1:]
    return t.args


def postorder(t):
    seen = set()
    out = []
    stack = [(t, False)]
    while stack:
        n, done = stack.pop()
        if done:
            out.append(n)
            continue
        if n.id in seen:
            continue
        seen.add(n.id)
        stack.append((n, True))
        for c in children(n):
            if c.id not in seen:
                stack.append((c, False))
    return out


def free_vars(t):
    return sorted({n for n in postorder(t) if n.op == "var"}, key=lambda v: v.args[0])


def apps(t):
    return [n for n in postorder(t) if n.op == "app"]


def size(t):
    return len(postorder(t))


def rebuild(t, kids):
    """same node with new children (through the smart constructors)"""
    op = t.op
    if op in ("const", "bool", "var", "inf"):
        return t
    if op == "app":
        return app(t.args[0], kids, t.sort)
    if op == "+":
        return add(*kids)
    if op == "*":
        return mul(*kids)
    if op == "neg":
        return neg(kids[0])
    if op == "/":
        return div(*kids)
    if op == "floordiv":
        return floordiv(*kids)
    if op == "mod":
        return mod(*kids)
    if op in ("ipow", "rpow"):
        return power(*kids)
    if op in ("exp", "log", "sqrt"):
        return {"exp": exp, "log": log, "sqrt": sqrt}[op](kids[0])
    if op == "abs":
        return absv(kids[0])
    if op == "trunc":
        return trunc(kids[0])
    if op == "toreal":
        return toreal(kids[0])
    if op == "min":
        return minimum(*kids)
    if op == "max":
        return maximum(*kids)
    if op in ("<", "<=", "=="):
        return _cmp(op, *kids)
    if op == "and":
        return land(*kids)
    if op == "or":
        return lor(*kids)
    if op == "not":
        return lnot(kids[0])
    if op == "iff":
        return iff(*kids)
    if op == "ite":
        return ite(*kids)
    raise NotImplementedError(op)


def subst(t, mapping):
    """simultaneous substitution {term -> term} (keys are usually vars or app terms)"""
    if not mapping:
        return t
    memo = dict(mapping)
    for n in postorder(t):
        if n in memo:
            continue
        ks = children(n)
        if not ks:
            memo[n] = n
            continue
        nk = tuple(memo[k] for k in ks)
        if all(a is b for a, b in zip(nk, ks)):
            memo[n] = n
        else:
            memo[n] = rebuild(n, nk)
    return memo[t]


_PREC = {"+": 1, "*": 2}


def show(t, depth=0, limit=60):
    if depth > limit:
        return "…"
    op = t.op
    if op == "const":
        v = cval(t)
        if v.denominator == 1:
            return str(v.numerator)
        f = float(v)
        if Fraction(repr(f)) == v:
            return repr(f)
        return f"({v.numerator}/{v.denominator})"
    if op == "bool":
        return str(t.args[0])
    if op == "var":
        return t.args[0]
    if op == "inf":
        return "INF"
    d = depth + 1
    if op == "app":
        return f"{t.args[0]}({', '.join(show(a, d, limit) for a in t.args[1:])})"
    if op == "+":
        return "(" + " + ".join(show(a, d, limit) for a in t.args) + ")"
    if op == "*":
        return "(" + "*".join(show(a, d, limit) for a in t.args) + ")"
    if op == "neg":
        return "-" + show(t.args[0], d, limit)
    if op == "/":
        return f"({show(t.args[0], d, limit)}/{show(t.args[1], d, limit)})"
    if op in ("ipow", "rpow"):
        return f"({show(t.args[0], d, limit)}**{show(t.args[1], d, limit)})"
    if op in ("<", "<=", "=="):
        return f"({show(t.args[0], d, limit)} {op} {show(t.args[1], d, limit)})"
    if op in ("and", "or", "iff"):
        return "(" + f" {op} ".join(show(a, d, limit) for a in t.args) + ")"
    if op == "toreal":
        return show(t.args[0], d, limit)
    return f"{op}({', '.join(show(a, d, limit) for a in t.args)})"


# ---------------------------------------------------------------------------------------------
# symbolic differentiation (sum, product, quotient, chain, power rules; ite piecewise)


class NotDifferentiable(Exception):
    pass


def diff(t, x, opaque=None):
    """d t / d x.  `opaque`: dict app-name -> callable(app_term, argindex) -> term for the partial
    derivative of an uninterpreted function (default: a fresh app named d<i>_<name>)."""
    memo = {}
    zero, one = rconst(0), rconst(1)

    def d(n):
        r = memo.get(n)
        if r is not None:
            return r
        op = n.op
        if n is x:
            r = one
        elif op in ("const", "var", "inf", "bool"):
            r = zero
        elif op == "toreal":
            r = d(n.args[0])
        elif op == "+":
            r = add(*[d(a) for a in n.args])
        elif op == "neg":
            r = neg(d(n.args[0]))
        elif op == "*":
            terms = []
            for i, a in enumerate(n.args):
                da = d(a)
                if da is zero:
                    continue
                terms.append(mul(da, *[b for j, b in enumerate(n.args) if j != i]))
            r = add(*terms) if terms else zero
        elif op == "/":
            u, v = n.args
            du, dv = d(u), d(v)
            if dv is zero:
                r = div(du, v)
            elif du is zero:
                r = neg(div(mul(u, dv), power(v, const(2))))
            else:
                r = div(sub(mul(du, v), mul(u, dv)), power(v, const(2)))
        elif op == "ipow":
            u, k = n.args
            du = d(u)
            r = zero if du is zero else mul(toreal(k), power(u, const(cval(k) - 1, I)), du)
        elif op == "rpow":
            u, v = n.args
            du, dv = d(u), d(v)
            parts = []
            if du is not zero:
                parts.append(mul(v, power(u, sub(v, one)), du))
            if dv is not zero:
                parts.append(mul(n, log(u), dv))
            r = add(*parts) if parts else zero
        elif op == "exp":
            du = d(n.args[0])
            r = zero if du is zero else mul(n, du)
        elif op == "log":
            du = d(n.args[0])
            r = zero if du is zero else div(du, n.args[0])
        elif op == "sqrt":
            du = d(n.args[0])
            r = zero if du is zero else div(du, mul(rconst(2), n))
        elif op == "ite":
            c, a, b = n.args
            r = ite(c, d(a), d(b))
        elif op == "app":
            parts = []
            for i, a in enumerate(n.args[1:]):
                da = d(a)
                if da is zero:
                    continue
                if opaque and n.args[0] in opaque:
                    pa = opaque[n.args[0]](n, i)
                else:
                    pa = app(f"d{i}_{n.args[0]}", n.args[1:], R)
                parts.append(mul(pa, da))
            r = add(*parts) if parts else zero
        elif op in ("min", "max") and len(n.args) == 2 and all(a.sort != B for a in n.args):
            # piecewise: the derivative of the selected argument (one-sided at the kink, like the `ite` it abbreviates)
            a, b = n.args
            r = ite(le(a, b) if op == "min" else ge(a, b), d(a), d(b))
        else:
            # abs/trunc/floordiv/mod: only if independent of x
            if any(d(a) is not zero for a in children(n) if a.sort != B):
                raise NotDifferentiable(op)
            r = zero
        memo[n] = r
        return r

    for n in postorder(t):
        if n.sort != B:
            d(n)
    return memo[t]


# ---------------------------------------------------------------------------------------------
# float evaluation (extraction cross-check) and mpmath evaluation (separating points)


class EvalError(Exception):
    pass


def feval(t, env, funcs=None, mp=None):
    """evaluate with python floats (mp=None) or mpmath (mp = the mpmath module).
    env: {var term or name: number}; funcs: {app name: python callable}"""
    memo = {}
    M = mp

    def num(fr):
        if M is None:
            return fr.numerator / fr.denominator
        return M.mpf(fr.numerator) / M.mpf(fr.denominator)

    class _Err:
        def __init__(self, msg):
            self.msg = msg

    for n in postorder(t):
        op = n.op
        a = [memo[c] for c in children(n)]
        if op == "ite":
            memo[n] = a[0] if isinstance(a[0], _Err) else (a[1] if a[0] else a[2])
            continue
        bad = next((y for y in a if isinstance(y, _Err)), None)
        if bad is not None:
            if op == "and" and any((not isinstance(y, _Err)) and (not y) for y in a):
                memo[n] = False
            elif op == "or" and any((not isinstance(y, _Err)) and bool(y) for y in a):
                memo[n] = True
            else:
                memo[n] = bad
            continue
        try:
            if op == "const":
                v = num(cval(n))
            elif op == "bool":
                v = n.args[0]
            elif op == "inf":
                v = math.inf if M is None else M.inf
            elif op == "var":
                if n in env:
                    v = env[n]
                elif n.args[0] in env:
                    v = env[n.args[0]]
                else:
                    raise EvalError(f"unbound {n.args[0]}")
            elif op == "toreal":
                v = a[0]
            elif op == "+":
                v = sum(a[1:], a[0])
            elif op == "*":
                v = a[0]
                for y in a[1:]:
                    v = v * y
            elif op == "neg":
                v = -a[0]
            elif op == "/":
                v = a[0] / a[1]
            elif op == "floordiv":
                v = a[0] // a[1]
            elif op == "mod":
                v = a[0] % a[1]
            elif op == "ipow":
                v = a[0] ** int(a[1])
            elif op == "rpow":
                if a[0] < 0:
                    raise EvalError("negative base of real power")
                if a[0] == 0:
                    v = a[0] * 0 if a[1] > 0 else (a[0] * 0 + 1 if a[1] == 0 else 1 / (a[0] * 0))
                else:
                    v = a[0] ** a[1]
            elif op == "exp":
                v = math.exp(a[0]) if M is None else M.exp(a[0])
            elif op == "log":
                if a[0] <= 0:
                    raise EvalError("log of non-positive")
                v = math.log(a[0]) if M is None else M.log(a[0])
            elif op == "sqrt":
                if a[0] < 0:
                    raise EvalError("sqrt of negative")
                v = math.sqrt(a[0]) if M is None else M.sqrt(a[0])
            elif op == "abs":
                v = abs(a[0])
            elif op == "trunc":
                v = int(a[0])
            elif op == "min":
                v = min(a)
            elif op == "max":
                v = max(a)
            elif op == "<":
                v = a[0] < a[1]
            elif op == "<=":
                v = a[0] <= a[1]
            elif op == "==":
                v = a[0] == a[1]
            elif op == "and":
                v = all(a)
            elif op == "or":
                v = any(a)
            elif op == "not":
                v = not a[0]
            elif op == "iff":
                v = bool(a[0]) == bool(a[1])
            elif op == "app":
                f = (funcs or {}).get(n.args[0])
                if f is None:
                    raise EvalError(f"no interpretation for {n.args[0]}")
                v = f(*a)
            else:
                raise EvalError(op)
        except (ZeroDivisionError, OverflowError, ValueError, EvalError, IndexError, KeyError) as e:
            v = _Err(f"{type(e).__name__}: {e} at {op}")
        memo[n] = v
    r = memo[t]
    if isinstance(r, _Err):
        raise EvalError(r.msg)
    return r
