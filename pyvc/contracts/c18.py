"""C18  Pressure-history fit uses the library's forward model and honours its limits.

With the contracts of FlowProperties(...), simulate() and recovery_factor() in place (C09, C10):
  obj.equals_forward_model   _obj_function == M * recovery_factor(SinglePhaseReservoir(N, p_i, p_i, FlowProperties(table, p_i))
                             .simulate(days / tau, schedule)) - production        (hence zero at the generating parameters)
  obj.pure                   no state that outlives the call
  fit.filter                 filter_zero_prod_days: exactly the rows with Gas > 0 and a non-missing Pressure are kept (else none dropped)
  fit.passes_data            the minimiser gets _obj_function and (time = arange(n), cumulative = cumsum(Gas), table, frac-face pressures)
  fit.limits                 declared limits tau in [30, 2 (n-1)], M in [cum[n-2], inplace_max], p_initial in [max p_f, pressure_imax];
                             fitted values within them (assumed contract of lmfit)
  fit.window_one             a smoothing window of one sample leaves the pressures unchanged
Row filtering on real pandas frames and the objective on real runs: BOUNDED run-time contracts.
"""
from __future__ import annotations

from .. import backends as be
from .. import term as tm
from ..symex import ArrV, TableV
from ..libmodels import MinimizerResultV, ParamsV, ParamV
from . import resv
from .common import *  # noqa: F403

LEVEL = "proof"
EXPLANATION = "_obj_function and fit_production_pressure are executed symbolically with the reservoir methods replaced by their contracts; the objective, the data handed to the minimiser, the row filter and the declared limits are structural / SMT obligations; containment of the fitted values is the assumed contract of lmfit"
TRUSTED = ["lmfit: Minimizer calls fcn(params, *fcn_args); returned parameter values within [min, max]", "pandas row filter / column selection model", "scipy.ndimage.uniform_filter1d(x, size=1) == x (holds to the last bit only)",
           "contracts of FlowProperties.__init__, simulate, recovery_factor (C09, C10)"]
ASSUMPTIONS = ["the forward model's own correctness is C01-C04/C10; C18 is about the objective being that forward model"]

n, m = tm.var("n", tm.I), tm.var("m", tm.I)
k = tm.var("k", tm.I)
OBJ = FCP + "_obj_function"
FIT = FCP + "fit_production_pressure"
PVT_COLS = ("pressure", "pseudopressure", "compressibility", "viscosity", "z-factor")


def pvt_table():
    return TableV({c: ArrV((m,), (lambda i, c=c: tm.app("T_" + c, i)), "f8", name="T_" + c) for c in PVT_COLS}, "DataFrame")


def prod_table():
    return TableV({c: ArrV((n,), (lambda i, c=c: tm.app("D_" + c, i)), "f8", name="D_" + c) for c in ("Days", "Gas", "Pressure", "Well")}, "DataFrame")


def rt_replay(w):
    import types
    from ..rt import c18 as rt
    r_ = rt.run(types.SimpleNamespace(tier="quick", seed=0))
    if r_["violations"]:
        v = r_["violations"][0]
        return {"reproduced": True, "input": v.get("input"), "observed": v.get("observed"), "required": v.get("required"), "clause": v.get("clause")}
    return {"reproduced": False}


def converged_fit_replay(w):
    """a fit that is allowed to CONVERGE (the bounded family uses 3..10 iterations, where lmfit aborts) with the optimum of M on
    its upper limit: the user states a maximum resource in place below the truth.  Returned values and the limits recorded in
    result.params must be the declared ones."""
    import warnings
    import numpy as np
    import pandas as pd
    warnings.simplefilter("ignore")
    try:
        fp_mod = __import__("bluebonnet.forecast.forecast_pressure", fromlist=["x"])
        flow = __import__("bluebonnet.flow", fromlist=["x"])
        pvt = pd.read_csv("/repo/tests/data/pvt_gas.csv").rename(columns={"P": "pressure", "Z-Factor": "z-factor", "Cg": "compressibility", "Viscosity": "viscosity", "Density": "density"})
        n_ = 40
        days = np.arange(n_, dtype=float)
        pff = np.where(days < 15, 3000.0, np.where(days < 28, 2200.0, 1500.0))
        r = flow.SinglePhaseReservoir(80, 6000.0, 6000.0, flow.FlowProperties(pvt, 6000.0))
        r.simulate(days / 150.0, pressure_fracface=pff)
        cum = 2000.0 * np.asarray(r.recovery_factor(), dtype=float)
        gas = np.diff(cum, prepend=0.0)
        gas[0] = gas[1]
        table = pd.DataFrame({"Days": days, "Gas": gas, "Pressure": pff})
        cum_obs = np.cumsum(gas)
        for inplace_max, filt in ((1.02 * cum_obs[-1], True), (1.10 * cum_obs[-1], False)):
            res = fp_mod.fit_production_pressure(table.copy(), pvt, 5000.0, pressure_imax=9000.0, inplace_max=inplace_max, filter_zero_prod_days=filt, n_iter=1500)
            want = {"tau": (30.0, 2.0 * (n_ - 1)), "M": (float(cum_obs[-2]), float(inplace_max)), "p_initial": (float(pff.max()), 9000.0)}
            for k_, (lo, hi) in want.items():
                par = res.params[k_]
                tol = 1e-9 * max(1.0, abs(hi))
                if not (lo - tol <= par.value <= hi + tol) or not (abs(par.min - lo) <= tol and abs(par.max - hi) <= tol):
                    return {"reproduced": True, "input": {"well": "synthetic, 40 daily rows, three frac-face pressure levels, true M = 2000", "inplace_max": float(inplace_max), "pressure_imax": 9000.0, "filter_zero_prod_days": filt, "n_iter": 1500},
                            "observed": {"parameter": k_, "value": float(par.value), "recorded limits": [float(par.min), float(par.max)]}, "required": {"declared limits": [lo, hi], "value": "inside them"}}
    except Exception as e:  # noqa: BLE001
        return {"reproduced": True, "input": {"well": "synthetic, 40 daily rows"}, "observed": f"{type(e).__name__}: {e}", "required": "a fit"}
    return rt_replay(w)


def two_wells_replay(w):
    """hidden state across data sets: objective of well B evaluated after well A must equal the forward model"""
    import warnings
    import numpy as np
    import pandas as pd
    warnings.simplefilter("ignore")
    try:
        fp_mod = __import__("bluebonnet.forecast.forecast_pressure", fromlist=["x"])
        flow = __import__("bluebonnet.flow", fromlist=["x"])
        from lmfit import Parameters
        pvt = pd.read_csv("/repo/tests/data/pvt_gas.csv").rename(columns={"P": "pressure", "Z-Factor": "z-factor", "Cg": "compressibility", "Viscosity": "viscosity", "Density": "density"})
        days = np.arange(60.0)
        prm = Parameters()
        prm.add("tau", value=400.0)
        prm.add("M", value=5000.0)
        prm.add("p_initial", value=9000.0)

        def forward(sched):
            r = flow.SinglePhaseReservoir(80, 9000.0, 9000.0, flow.FlowProperties(pvt, 9000.0))
            r.simulate(days / 400.0, pressure_fracface=sched)
            return 5000.0 * r.recovery_factor()
        sa = np.linspace(6000.0, 2000.0, 60)
        sb = 3000.0 + 1500.0 * np.cos(days / 9.0)
        fp_mod._obj_function(prm, days, forward(sa), pvt, sa)
        got = fp_mod._obj_function(prm, days, forward(sb), pvt, sb)
        if np.abs(got).max() > 1e-9 * 5000.0:
            return {"reproduced": True, "input": {"sequence": "objective for schedule A, then for schedule B at the generating parameters", "tau": 400.0, "M": 5000.0, "p_initial": 9000.0}, "observed": {"max |objective|": float(np.abs(got).max())}, "required": 0.0}
        # input SIZE as a class of its own: a long daily history (the objective must be the forward model at every length)
        for nlong in (3500, 6001):
            dl = np.arange(float(nlong))
            sl = 5500.0 - 2500.0 * (1 - np.exp(-dl / 700.0)) + 150.0 * np.sin(dl / 37.0)
            r = flow.SinglePhaseReservoir(80, 9000.0, 9000.0, flow.FlowProperties(pvt, 9000.0))
            r.simulate(dl / 2100.0, pressure_fracface=sl)
            cum = 80000.0 * np.asarray(r.recovery_factor(), dtype=float)
            pl = Parameters()
            pl.add("tau", value=2100.0)
            pl.add("M", value=80000.0)
            pl.add("p_initial", value=9000.0)
            got = np.asarray(fp_mod._obj_function(pl, dl, cum, pvt, sl), dtype=float)
            if got.shape != cum.shape or not np.isfinite(got).all() or np.abs(got).max() > 1e-9 * 80000.0:
                return {"reproduced": True, "input": {"history": f"{nlong} daily samples, smooth frac-face schedule", "tau": 2100.0, "M": 80000.0, "p_initial": 9000.0},
                        "observed": {"max |objective| at the generating parameters": float(np.abs(got).max()) if got.shape == cum.shape else f"shape {got.shape}"}, "required": "0 (objective == M * library recovery factor - cumulative production)"}
    except Exception as e:  # noqa: BLE001
        return {"reproduced": True, "input": {}, "observed": f"{type(e).__name__}: {e}", "required": "objective evaluates"}
    return rt_replay(w)


def build(ctx):
    obs = []

    def run_obj():
        resv.install_method_contracts(ctx)
        try:
            def mk():
                P = ParamsV()
                for nm in ("tau", "M", "p_initial"):
                    P.items[nm] = ParamV(nm, tm.var(nm), None, None)
                days = ArrV((n,), lambda i: tm.app("days", i), "f8", name="days")
                prod = ArrV((n,), lambda i: tm.app("prod", i), "f8", name="prod")
                pff = ArrV((n,), lambda i: tm.app("pff", i), "f8", name="pff")
                return [P, days, prod, pvt_table(), pff], {}
            outs = ctx.engine.run_paths(ctx.engine.func(OBJ), mk, pc=[tm.ge(n, tm.const(2))])
        finally:
            resv.uninstall_method_contracts(ctx)
        rets = [o for o in outs if o.kind == "return"]
        if len(rets) != 1:
            raise sx.OutOfSubset(f"_obj_function: {len(rets)} returning paths of {len(outs)}")
        return rets[0], outs

    def forward():
        o, outs = run_obj()
        g = o.heap["ghost"]
        sims, rfs, ctors = g.get("sim_calls", []), g.get("rf_calls", []), g.get("fp_ctor", [])
        if len(sims) != 1 or len(rfs) != 1 or len(ctors) != 1:
            return be.Verdict(be.REFUTED, "STRUCT", witness={}, detail=f"{len(ctors)} wrappers, {len(sims)} simulations, {len(rfs)} recovery calls per objective evaluation")
        s_, r_, c_ = sims[0], rfs[0], ctors[0]
        tau, M, p_i = tm.var("tau"), tm.var("M"), tm.var("p_initial")
        pv = o.heap["args"][3]
        checks = [
            (c_["table"] is pv and c_["p_i"] is p_i, "the wrapper is not FlowProperties(pvt_table, p_initial)"),
            (s_["cls"] == "SinglePhaseReservoir" and s_["fields"]["fluid"].fields.get("ctor") is c_, "the reservoir is not a SinglePhaseReservoir over that wrapper"),
            (s_["fields"]["pressure_initial"] is p_i, "the reservoir's initial pressure is not p_initial"),
            (s_["schedule_fn"] is not None and s_["schedule_fn"]((k,)) is tm.app("pff", [k]), "simulate() does not receive the frac-face pressure history"),
            (r_["receiver"] is s_["receiver"] and r_["sim"] == s_["id"] and r_["density"] is False, "recovery_factor() is not taken from that simulation (flux mode)"),
        ]
        for ok, msg in checks:
            if not ok:
                return with_models(be.Verdict(be.REFUTED, "STRUCT", witness={}, detail=msg), o)
        v = be.prove_equal_cas(s_["time_fn"]((k,)), tm.app("days", [k]) / tau, {"k": (0, 100), "tau": (30.0, 5000.0)}, ints=("k",), seed=ctx.seed)
        if v.status != be.PROVED:
            v.detail = "simulate() is not run on days / tau: " + v.detail
            return with_models(v, o)
        v = be.prove_equal_cas(o.value.get(k), M * tm.app("RF0", [k]) - tm.app("prod", [k]), {"k": (0, 100), "M": (1.0, 1e6)}, ints=("k",), seed=ctx.seed)
        if v.status != be.PROVED:
            v.detail = "objective is not M * recovery_factor - production: " + v.detail
        return with_models(v, o)

    obs.append(Obligation("obj.equals_forward_model", "_obj_function(params, days, production, table, p_f) == M * RF(SinglePhaseReservoir(N, p_i, p_i, FlowProperties(table, p_i)).simulate(days / tau, p_f)) - production, from the callees' contracts", forward,
                          [OBJ, resv.SSIM, resv.RF, FP + "FlowProperties.__init__"], "STRUCT+CAS", two_wells_replay))

    def pure():
        o, outs = run_obj()
        gw = [w_ for x in outs for w_ in x.heap["ghost"].get("global_writes", [])]
        if gw:
            return be.Verdict(be.REFUTED, "FRAME", witness={}, detail=f"_obj_function writes module-level state {sorted(set(map(str, gw)))}: the objective is not a function of its arguments alone")
        for a in o.heap["args"][1:]:
            if isinstance(a, ArrV) and a.version:
                return be.Verdict(be.REFUTED, "FRAME", witness={}, detail="an input array is modified")
        return with_models(be.Verdict(be.PROVED, "FRAME", detail="no store into objects that outlive the call"), o)

    obs.append(Obligation("obj.pure", "_obj_function reads and writes no state that outlives the call (the objective depends on its arguments only)", pure, [OBJ], "FRAME", two_wells_replay))

    # ---------------- fit_production_pressure
    def run_fit(filter_rows, window, given_params=False):
        resv.install_method_contracts(ctx)
        try:
            def mk():
                kw = {"filter_zero_prod_days": filter_rows, "pressure_imax": tm.var("p_imax"), "inplace_max": tm.var("M_max"), "n_iter": tm.var("n_iter", tm.I)}
                if window is not None:
                    kw["filter_window_size"] = window
                return [prod_table(), pvt_table(), tm.var("p_guess")], kw
            outs = ctx.engine.run_paths(ctx.engine.func(FIT), mk, pc=[tm.ge(n, tm.const(3))])
        finally:
            resv.uninstall_method_contracts(ctx)
        rets = [o for o in outs if o.kind == "return"]
        if len(rets) != 1:
            raise sx.OutOfSubset(f"fit_production_pressure: {len(rets)} returning paths of {len(outs)}")
        return rets[0]

    def data_cols(o, filter_rows):
        """(Days, Gas, Pressure) element functions and row count of the table the fit works on"""
        g = o.heap["ghost"]
        if filter_rows:
            fl = g.get("row_filters", [])
            if len(fl) != 1:
                return None
            f = fl[0]
            cols = f["result"].cols
            return {c: (lambda i, c=c: cols[c].get(i)) for c in ("Days", "Gas", "Pressure")}, f["nrows"], f
        return {c: (lambda i, c=c: tm.app("D_" + c, [i])) for c in ("Days", "Gas", "Pressure")}, n, None

    def fit_filter():
        o = run_fit(True, None)
        fl = o.heap["ghost"].get("row_filters", [])
        if len(fl) != 1 or fl[0]["source"] is not o.heap["args"][0]:
            return be.Verdict(be.REFUTED, "SMT", witness={}, detail=f"{len(fl)} row filters on the production table when filtering is requested")
        mask = fl[0]["mask"]((k,))
        want = tm.land(tm.gt(tm.app("D_Gas", [k]), tm.rconst(0)), tm.app("notna", [tm.app("D_Pressure", [k])], tm.B))
        v = be.prove_smt(tm.iff(mask, want), [], want={"Gas": tm.app("D_Gas", [k])})
        if v.status != be.PROVED:
            v.detail = "rows kept are not exactly those with Gas > 0 and a non-missing Pressure: " + v.detail
            return with_models(v, o)
        o2 = run_fit(False, None)
        if o2.heap["ghost"].get("row_filters"):
            return be.Verdict(be.REFUTED, "SMT", witness={}, detail="rows are dropped although filtering was not requested")
        return with_models(v, o, o2)

    obs.append(Obligation("fit.filter", "fit_production_pressure(filter_zero_prod_days=True) keeps exactly the rows with Gas > 0 and a non-missing Pressure; with False no row is dropped", fit_filter, [FIT], "SMT", rt_replay))

    def fit_passes(filter_rows):
        def run():
            o = run_fit(filter_rows, tm.var("w", tm.I))
            dc = data_cols(o, filter_rows)
            if dc is None:
                return be.Verdict(be.REFUTED, "STRUCT", witness={}, detail="no single filtered table")
            cols, nrows, _ = dc
            mc = o.heap["ghost"].get("minimize_calls", [])
            if len(mc) != 1:
                return be.Verdict(be.REFUTED, "STRUCT", witness={}, detail=f"{len(mc)} minimiser runs")
            mz = mc[0]["minimizer"]
            if getattr(mz.fcn, "qualname", None) != OBJ:
                return be.Verdict(be.REFUTED, "STRUCT", witness={}, detail="the minimiser does not minimise _obj_function")
            if len(mz.fcn_args) != 4:
                return be.Verdict(be.REFUTED, "STRUCT", witness={}, detail="fcn_args is not (time, cumulative production, table, frac-face pressures)")
            t_, cum, tbl, pff = mz.fcn_args
            if tbl is not o.heap["args"][1]:
                return be.Verdict(be.REFUTED, "STRUCT", witness={}, detail="the PVT table handed to the objective is not the caller's")
            same_len = isinstance(t_, ArrV) and (t_.shape[0] is nrows or be.prove_smt(tm.eq(t_.shape[0], nrows), list(o.pc) + list(o.facts)).status == be.PROVED)
            if not (isinstance(t_, ArrV) and t_.get(k) is k and same_len):
                return be.Verdict(be.REFUTED, "STRUCT", witness={}, detail=f"time is not arange(number of kept rows): element {t_.get(k) if isinstance(t_, ArrV) else t_}, length {getattr(t_, 'shape', None)}")
            cs = o.heap["ghost"].get("cumsum", {})
            if len(cs) != 1 or list(cs.values())[0][1]((k,)) is not cols["Gas"](k) or not isinstance(cum, ArrV) or cum.get(k) is not tm.app(list(cs)[0], [k]):
                return be.Verdict(be.REFUTED, "STRUCT", witness={}, detail="cumulative production is not cumsum of the kept Gas column")
            w = tm.var("w", tm.I)
            pk = pff.get(k)
            raw = cols["Pressure"](k)
            v = be.prove_smt(tm.implies(tm.eq(w, tm.const(1)), tm.eq(pk, raw)), [], want={"w": w})
            if v.status != be.PROVED:
                v.detail = "with a window of one sample the pressures are changed: " + v.detail
                return with_models(v, o)
            fl = o.heap["ghost"].get("filters", [])
            if len(fl) != 1 or fl[0]["input"].get(k) is not raw or fl[0]["size"] is not w:
                return be.Verdict(be.REFUTED, "STRUCT", witness={}, detail="frac-face pressures are not the (kept) Pressure column smoothed with the requested window")
            o3 = run_fit(filter_rows, None)
            p3 = o3.heap["ghost"]["minimize_calls"][0]["minimizer"].fcn_args[3]
            c3 = data_cols(o3, filter_rows)[0]
            if p3.get(k) is not c3["Pressure"](k):
                return be.Verdict(be.REFUTED, "STRUCT", witness={}, detail="without a window the pressures are not the (kept) Pressure column itself")
            return with_models(v, o, o3)
        return run

    obs.append(Obligation("fit.passes_data", "the minimiser minimises _obj_function over (time = arange(n), cumulative = cumsum(Gas), the caller's table, frac-face pressures = Pressure smoothed with the requested window); a window of one sample (or none) leaves the pressures unchanged [no row filter]", fit_passes(False), [FIT], "STRUCT+SMT", rt_replay))
    obs.append(Obligation("fit.passes_data.filtered", "the same on the filtered rows", fit_passes(True), [FIT], "STRUCT+SMT", rt_replay))

    def fit_limits(filter_rows):
        def run():
            o = run_fit(filter_rows, None)
            dc = data_cols(o, filter_rows)
            if dc is None:
                return be.Verdict(be.REFUTED, "STRUCT", witness={}, detail="no single filtered table")
            cols, nrows, _ = dc
            mc = o.heap["ghost"]["minimize_calls"][0]
            P = mc["minimizer"].params.items
            res = o.value
            if not isinstance(res, MinimizerResultV) or res is not mc["result"]:
                return be.Verdict(be.REFUTED, "SMT", witness={}, detail="the function does not return the minimiser's result")
            if set(P) != {"tau", "M", "p_initial"}:
                return be.Verdict(be.REFUTED, "SMT", witness={}, detail=f"parameters {sorted(P)}")
            cs = list(o.heap["ghost"]["cumsum"])[0]
            cum = lambda i: tm.app(cs, [i])
            ext = o.heap["ghost"].get("extrema", {})
            mx = [tm.app(nm, (), tm.R) for nm in ext if nm.startswith("max")]
            pff = mc["minimizer"].fcn_args[3]
            if len(mx) != 1 or list(ext.values())[0][2](k) is not pff.get(k):
                return be.Verdict(be.REFUTED, "SMT", witness={}, detail="the lower limit of p_initial is not the maximum of the frac-face pressures handed to the objective")
            want = {"tau": (tm.rconst(30), tm.mul(tm.sub(nrows, tm.const(1)), tm.const(2))), "M": (cum(tm.sub(nrows, tm.const(2))), tm.var("M_max")), "p_initial": (mx[0], tm.var("p_imax"))}
            goals = []
            for nm, (lo, hi) in want.items():
                prm = P[nm]
                if prm.min is None or prm.max is None:
                    return be.Verdict(be.REFUTED, "SMT", witness={}, detail=f"{nm} has no declared limit")
                goals += [tm.eq(tm.toreal(prm.min), tm.toreal(lo)), tm.eq(tm.toreal(prm.max), tm.toreal(hi))]
                fitted = res.params.items[nm]
                goals += [tm.le(prm.min, fitted.value), tm.le(fitted.value, prm.max)]
            hyp = list(o.facts) + list(o.pc) + [q(k) for q in o.qfacts]
            v = be.prove_smt(tm.land(*goals), hyp, want={nm + "_min": P[nm].min for nm in P})
            if v.status != be.PROVED:
                v.detail = "declared limits are not tau in [30, 2 (n-1)], M in [cum[n-2], inplace_max], p_initial in [max p_f, pressure_imax], or fitted values may leave them: " + v.detail
            return with_models(v, o)
        return run

    obs.append(Obligation("fit.limits", "declared limits: tau in [30, 2 (n-1)], M in [cum[n-2], inplace_max], p_initial in [max frac-face pressure, pressure_imax]; the fitted values returned lie within them [no row filter]", fit_limits(False), [FIT], "SMT", converged_fit_replay))
    obs.append(Obligation("fit.limits.filtered", "the same on the filtered rows", fit_limits(True), [FIT], "SMT", converged_fit_replay))

    def canary():
        o, outs = run_obj()
        return be.prove_equal_cas(o.value.get(k), tm.var("M") * tm.app("RF0", [k]), {"k": (0, 100), "M": (1.0, 1e6)}, ints=("k",), seed=ctx.seed)

    obs.append(Obligation("canary.cas", "CANARY (must be refuted): the objective ignores the production data", canary, [OBJ], "CAS", expect=be.REFUTED))
    return obs


def bounded(ctx):
    from ..rt import c18 as rt
    return rt.run(ctx)
