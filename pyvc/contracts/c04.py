"""C04  Each time level is the implicit backward-Euler update of the previous one.

Modular: the time loop of simulate() (both classes) is summarised exactly as the recurrence row[i+1] = body(row[i], i);
inside the body the callees _build_matrix and _solve are replaced by their contracts, which are verified against their
bodies separately.
  build_matrix.shape / .entries   three diagonals of lengths n-1, n, n-1; main 1+2k (1+k in the last row), lower -k[r+1], upper -k[r]
  solve.contract                  _solve(A, b) returns x with A x = b exactly, on every path (no loosely converged iterate is returned)
  step.uses_contracts             the stored row is _solve(_build_matrix(kt_h2), b)
  step.mesh_ratio                 kt_h2[j] == (t[i+1] - t[i]) / DX2 * alpha_s(q_j) with DX2 > 0 free of i and q_j the previous level
  step.rhs                        b[j] == pp[i, j] for j >= 1 (clip is the identity under C01's invariant pp <= m_i)
  step.interior / step.noflow     the stored row satisfies the interior and the no-flow equations of the documented scheme
"""
from __future__ import annotations

from .. import backends as be
from .. import term as tm
from ..symex import ArrV
from ..libmodels import BandMatV
from . import resv
from .common import *  # noqa: F403

LEVEL = "proof"
EXPLANATION = "the loop body of simulate() is executed once at a symbolic step index with the callee contracts in place; every clause of the step contract is an SMT/CAS obligation over that body; the callee contracts are proved against _build_matrix and _solve themselves"
TRUSTED = ["scipy.sparse.diags entry formula and length requirement", "scipy.sparse.linalg.spsolve returns x with A x = b for a nonsingular matrix (idealised: backward error at rounding level)",
           "loop summarised as a recurrence (body reads row i, writes row i+1; checked syntactically and by a frame probe)"]
ASSUMPTIONS = ["'residual at rounding level' is the exactness of the direct solve in the real-number model; the bounded layer measures the actual residual on real runs"]

n = tm.var("n", tm.I)
r, j = tm.var("r", tm.I), tm.var("j", tm.I)
BM = resv.BM
SOLVE = RES + "_solve"
ONE, TWO = tm.rconst(1), tm.rconst(2)
CLASSES = ("IdealReservoir", "SinglePhaseReservoir")


def Karr():
    return ArrV((n,), lambda i: tm.app("kin", i), "f8", name="kin")


def real_step_check(check_rows=True):
    """bounded search on real runs: rebuild the backward-Euler rows independently and measure the residual"""
    from ..rt import c04 as rt
    import types
    r_ = rt.run(types.SimpleNamespace(tier="quick", seed=0))
    if r_["violations"]:
        v = r_["violations"][0]
        return {"reproduced": True, "input": v.get("input"), "observed": v.get("observed"), "required": v.get("required"), "clause": v.get("clause")}
    return large_run_check()


def large_run_check():
    """input SIZE as a class of its own: one run with more than 2^20 stored values (ideal reservoir: the system is rebuilt
    here from dt/dx^2 alone); every stored level must satisfy the backward-Euler system of the stored previous level at
    rounding level, in a float64 field"""
    import numpy as np
    flow = __import__("bluebonnet.flow", fromlist=["x"])
    nx_, nt_ = 240, 4600
    t = np.linspace(0.0, 1.2, nt_) ** 2
    r = flow.IdealReservoir(nx_, 1000.0, 8000.0)
    r.simulate(t)
    pp = np.asarray(r.pseudopressure)
    inp = {"reservoir": "IdealReservoir", "nx": nx_, "time": f"linspace(0, 1.2, {nt_})**2", "stored values": nx_ * nt_}
    if pp.dtype != np.float64:
        return {"reproduced": True, "input": inp, "observed": {"dtype of the stored field": str(pp.dtype)}, "required": "float64 (the stored level is the state of the next step)"}
    dx2 = (1.0 / (nx_ - 1)) ** 2
    k = np.diff(t)[:, None] / dx2
    x, b = pp[1:].astype(float), pp[:-1].astype(float)
    ax = (1 + 2 * k) * x
    ax[:, -1] = ((1 + k) * x[:, -1:])[:, 0]
    ax[:, :-1] -= k * x[:, 1:]
    ax[:, 1:] -= k * x[:, :-1]
    res = np.abs(ax - b).max(axis=1) / (1 + 4 * k[:, 0])
    i_ = int(np.argmax(res))
    if not np.isfinite(res).all() or res[i_] > 1e-11:
        return {"reproduced": True, "input": inp, "observed": {"largest scaled residual of A x = b": float(res[i_]), "at step": i_}, "required": "<= 1e-11 (rounding level of a direct solve)"}
    return {"reproduced": False}


def build(ctx):
    obs = []

    # ---------------- _build_matrix against its contract
    def bm_real():
        outs = ctx.engine.run_paths(ctx.engine.func(BM), lambda: ([Karr()], {}), pc=[tm.ge(n, tm.const(2))])
        if len(outs) != 1 or outs[0].kind != "return" or not isinstance(outs[0].value, BandMatV):
            raise sx.OutOfSubset("_build_matrix: expected one returning path with a band matrix")
        return outs[0]

    def bm_shape():
        o = bm_real()
        A = o.value
        if sorted(A.bands) != [-1, 0, 1]:
            return be.Verdict(be.REFUTED, "SMT", witness={}, detail=f"bands {sorted(A.bands)}, dimension {A.n}")
        if A.n is not n:
            vdim = be.prove_smt(tm.eq(A.n, n), [tm.ge(n, tm.const(2))] + list(o.pc), want={"n": n, "dimension": A.n})
            if vdim.status != be.PROVED:
                vdim.detail = f"the matrix dimension {A.n} is not len(kt_h2): " + vdim.detail
                return with_models(vdim, o)
        goals = [tm.implies(tm.land(*pc), cond) for cond, what, pc in o.wd if what.startswith("sparse.diags")]
        if not goals:
            return with_models(be.Verdict(be.PROVED, "SMT", detail="diagonal lengths n-1, n, n-1 by construction (slices of the argument)"), o)
        return with_models(be.prove_smt(tm.land(*goals), [tm.ge(n, tm.const(2))]), o)

    def bm_replay(w):
        import numpy as np
        f = real(BM)
        for kk in (np.array([0.3, 1.7, 0.9, 2.2, 0.4]), np.array([5.0, 0.1]), np.linspace(0.1, 3.0, 9), np.array([2e6, 3e7, 1.0, 4e9]), np.array([1e-9, 0.0, 1e-12])):
            A = f(kk).toarray()
            m = len(kk)
            W = np.zeros((m, m))
            for rr in range(m):
                W[rr, rr] = 1 + 2 * kk[rr] if rr < m - 1 else 1 + kk[rr]
                if rr > 0:
                    W[rr, rr - 1] = -kk[rr]
                if rr < m - 1:
                    W[rr, rr + 1] = -kk[rr]
            if A.shape != W.shape or not np.allclose(A, W, rtol=1e-14, atol=0):
                return {"reproduced": True, "input": {"kt_h2": kk.tolist()}, "observed": A.tolist(), "required": W.tolist()}
        return {"reproduced": False}

    obs.append(Obligation("build_matrix.shape", "_build_matrix(kt): three diagonals (offsets -1, 0, 1) of lengths n-1, n, n-1 as scipy.sparse.diags requires; n x n", bm_shape, [BM], "SMT", bm_replay))

    def bm_entries():
        o = bm_real()
        A = o.value
        spec = resv.bm_spec(n, lambda i: tm.app("kin", [i]))
        goals = []
        for off in (-1, 0, 1):
            hi = n if off == 0 else tm.sub(n, tm.const(1))
            goals.append(tm.implies(tm.land(tm.le(tm.const(0), r), tm.lt(r, hi)), tm.eq(A.bands[off]((r,)), spec.bands[off]((r,)))))
        return with_models(be.prove_smt(tm.land(*goals), [tm.ge(n, tm.const(2))], want={"r": r, "n": n}), o)

    obs.append(Obligation("build_matrix.entries", "_build_matrix(kt): main[r] = 1 + 2 kt[r] for r < n-1, main[n-1] = 1 + kt[n-1] (no-flow closure), lower[r] = -kt[r+1], upper[r] = -kt[r]", bm_entries, [BM], "SMT", bm_replay))

    def bm_props():
        spec = resv.bm_spec(n, lambda i: tm.app("kin", [i]))
        K = lambda i: tm.app("kin", [i])
        xone = lambda idx: ONE
        rowsum = spec.row_dot(r, xone)
        hyp = [tm.ge(n, tm.const(2)), resv.inr(r, n)] + [tm.implies(resv.inr(q, n), tm.ge(K(q), tm.rconst(0))) for q in (r, tm.add(r, tm.const(1)), tm.sub(r, tm.const(1)))]
        goal = tm.land(tm.implies(tm.ge(r, tm.const(1)), tm.eq(rowsum, ONE)), tm.implies(tm.eq(r, tm.const(0)), tm.eq(rowsum, tm.add(ONE, K(tm.const(0))))),
                       tm.ge(spec.bands[0]((r,)), ONE), tm.le(spec.bands[1]((r,)), tm.rconst(0)), tm.le(spec.bands[-1]((tm.sub(r, tm.const(1)),)), tm.rconst(0)) if True else tm.TRUE)
        return be.prove_smt(goal, hyp, want={"r": r, "n": n})

    obs.append(Obligation("build_matrix.mmatrix", "contract corollaries for kt >= 0: row sums 1 (rows >= 1) and 1 + kt[0] (row 0), diagonal >= 1, off-diagonals <= 0 (M-matrix)", bm_props, [BM], "SMT", bm_replay))

    # ---------------- _solve against its contract
    def solve_contract():
        def mk():
            A = resv.bm_spec(n, lambda i: tm.app("kin", [i]))
            b = ArrV((n,), lambda i: tm.app("rhs", i), "f8", name="rhs")
            return [A, b], {}
        outs = ctx.engine.run_paths(ctx.engine.func(SOLVE), mk, pc=[tm.ge(n, tm.const(2))])
        v = None
        for o in outs:
            if o.kind != "return":
                return be.Verdict(be.REFUTED, "SMT", witness={}, detail=f"_solve raises {o.value}")
            sol = o.heap["ghost"].get("solves", [])
            res = o.value
            exact = [s_ for s_ in sol if s_["kind"] == "exact"]
            used_names = {a.args[0] for a in tm.apps(res.get(j))} if isinstance(res, ArrV) else set()
            loose = [s_ for s_ in sol if s_["kind"] != "exact" and s_["name"] in used_names]
            if loose:
                s_ = loose[0]
                checked = any(s_.get("info") is not None and (tm.eq(s_["info"], tm.const(0)) in o.pc) for _ in [0])
                tol_ok = tm.is_const(s_["rtol"]) and tm.cval(s_["rtol"]) <= tm.Fraction(1, 10**10)
                if not (checked and tol_ok):
                    return with_models(be.Verdict(be.REFUTED, "SMT", witness={"n": 400}, detail=f"on the path {[str(c)[:60] for c in o.pc]} the returned vector comes from an iterative solver (rtol={s_['rtol']}, convergence flag {'checked' if checked else 'not checked'}): A x = b is not guaranteed"), o)
            if not exact and not loose:
                return be.Verdict(be.REFUTED, "SMT", witness={}, detail="the result is not produced by a linear solve")
            for s_ in exact:
                # the exact solve must be applied to the arguments themselves
                if s_["A"].row_dot(r, s_["x"]) is not resv.bm_spec(n, lambda i: tm.app("kin", [i])).row_dot(r, s_["x"]) or s_["b"]((r,)) is not tm.app("rhs", [r]):
                    return be.Verdict(be.REFUTED, "SMT", witness={}, detail="the solve is not applied to (A, b) as given")
            v = with_models(be.Verdict(be.PROVED, "SMT", detail="direct solve of the given system on every path"), *outs)
        return v

    def solve_replay(w):
        import numpy as np
        f, g = real(SOLVE), real(BM)
        for m in (3, 40, 257, 400):
            kk = np.linspace(0.5, 50.0, m) * (1 + 0.3 * np.sin(np.arange(m)))
            A = g(kk)
            b = 1.0 + 0.1 * np.cos(np.arange(m))
            b[0] *= 1 + kk[0]
            x = f(A, b)
            res = np.abs(A @ x - b).max() / np.abs(b).max()
            if not res <= 1e-10:
                return {"reproduced": True, "input": {"n": m, "kt_h2": "linspace(0.5, 50, n) * (1 + 0.3 sin j)"}, "observed": {"relative residual": float(res)}, "required": "<= 1e-10 (rounding level)"}
        return {"reproduced": False}

    obs.append(Obligation("solve.contract", "_solve(A, b) returns x with A x = b (direct solve) on every path; an iterative result is only returned after a checked convergence flag at rounding-level tolerance", solve_contract, [SOLVE], "SMT", solve_replay))

    # ---------------- the step, per class
    for cls in CLASSES:
        tag = "ideal" if cls == "IdealReservoir" else "single"
        fq = [resv.ISIM if cls == "IdealReservoir" else resv.SSIM, BM, SOLVE]

        def mkstep(cls=cls, schedule="array"):
            return resv.Step(ctx, cls, schedule if cls != "IdealReservoir" else "none")

        def uses(cls=cls, mkstep=mkstep):
            S = mkstep()
            s_, b_ = S.single()
            if s_["kind"] not in ("contract", "exact"):
                return be.Verdict(be.REFUTED, "STRUCT", witness={}, detail=f"the stored row comes from an iterative solver (rtol={s_.get('rtol')}) whose convergence flag is not checked: a loosely converged or failed solve would be stored")
            if getattr(s_["A"], "from_call", None) is not b_:
                return be.Verdict(be.REFUTED, "STRUCT", witness={}, detail="the matrix handed to _solve is not the result of _build_matrix")
            kt = S.L["locals"].get("kt_h2")
            nr = S.newrow((j,))
            want = tm.ite(resv.inr(j, S.n), s_["x"]((j,)), S.PP(tm.add(S.i, tm.const(1)), j))
            if nr is not want:
                return be.Verdict(be.REFUTED, "STRUCT", witness={}, detail=f"the stored row is not the solver's result: {nr}")
            if S.N is not tm.sub(resv.nt, tm.const(1)):
                return be.Verdict(be.REFUTED, "STRUCT", witness={}, detail=f"the loop runs over range({S.N}), not over every step of the time grid")
            fld = S.res.fields.get("pseudopressure")
            if not isinstance(fld, ArrV) or fld.dtype != "f8":
                return be.Verdict(be.REFUTED, "STRUCT", witness={}, detail=f"the field is stored with dtype {getattr(fld, 'dtype', None)}, not float64: every level is rounded to that precision before it feeds the next step, so the stored row is not the solver's result at rounding level")
            return with_models(be.Verdict(be.PROVED, "STRUCT", detail="pseudopressure[i+1] = _solve(_build_matrix(kt_h2), b) for i in range(len(time) - 1)"), S.o)

        obs.append(Obligation(f"{tag}.step.uses_contracts", f"{cls}.simulate: for every i in range(len(time)-1) the stored row i+1 is _solve(_build_matrix(kt_h2), b), kept in a float64 field", uses, fq, "STRUCT", lambda w: real_step_check()))

        def mesh(cls=cls, mkstep=mkstep):
            S = mkstep()
            s_, b_ = S.single()
            kj = b_["arg_fn"]((j,))
            ti, ti1 = tm.app("t", [S.i]), tm.app("t", [tm.add(S.i, tm.const(1))])
            # mesh constant: kt at unit time increment and unit diffusivity
            sub = {ti1: tm.rconst(1), ti: tm.rconst(0)}
            if cls != "IdealReservoir":
                for nd in tm.postorder(kj):
                    if nd.op == "app" and nd.args[0] == S.A.name:
                        sub[nd] = tm.rconst(1)
            inv_dx2 = tm.subst(kj, sub)
            bad = [v.args[0] for v in tm.free_vars(inv_dx2) if v.args[0] != "nx"] + [a.args[0] for a in tm.apps(inv_dx2)]
            if bad:
                return be.Verdict(be.REFUTED, "SMT", witness={}, detail=f"the mesh constant depends on {bad}: not one constant for the whole run")
            # the node count may be a fixed-width numpy integer (np.int16 / np.int32 scalars keep their width in integer
            # arithmetic and wrap around): every integer-valued sub-expression of the mesh constant has to stay inside
            # the type for every node count the type can hold
            for nd in tm.postorder(inv_dx2):
                if nd.sort == tm.I and nd.op in ("*", "ipow", "+", "neg") and any(v.args[0] == "nx" for v in tm.free_vars(nd)):
                    for bits in (16, 32):
                        top = tm.const(2 ** (bits - 1) - 1)
                        vv = be.prove_smt(tm.land(tm.le(tm.neg(top), nd), tm.le(nd, top)), [tm.le(tm.const(3), S.n), tm.le(S.n, top)], want={"nx": S.n, "value": nd})
                        if vv.status == be.REFUTED:
                            vv.detail = f"integer arithmetic on the node count overflows for a numpy int{bits} nx (the sub-expression {nd} leaves the type; numpy wraps around and the mesh constant changes sign or size): " + vv.detail
                            vv.witness = dict(vv.witness or {}, nx_type=f"int{bits}")
                            return with_models(vv, S.o)
            if cls == "IdealReservoir":
                spec = (ti1 - ti) * inv_dx2
                hyp = []
            else:
                prev = tm.ite(tm.eq(j, tm.const(0)), S.M.app(tm.app("pf_sched", [S.i])), S.PP(S.i, j))
                spec = (ti1 - ti) * inv_dx2 * S.A.app(prev) / S.A.app(S.m_i)
                hyp = [tm.le(S.PP(S.i, j), S.m_i)]  # C01 invariant: the clip is the identity
                hyp += resv.alpha_facts(S, [kj, spec])  # C09: 0 < min alpha <= alpha(q)
            v = be.prove_smt(tm.implies(resv.inr(j, S.n), tm.land(tm.eq(kj, spec), tm.gt(inv_dx2, tm.rconst(0)))), hyp + list(S.o.pc), want={"j": j, "dt": ti1 - ti, "nx": S.n})
            return with_models(v, S.o)

        def mesh_replay(w, cls=cls):
            import numpy as np
            nxw = w.get("nx") if isinstance(w, dict) else None
            cands = []
            if isinstance(nxw, (int, float)) and w.get("nx_type") in ("int16", "int32") and 3 <= int(nxw) <= 20000:
                cands.append(getattr(np, w["nx_type"])(int(nxw)))
            cands += [np.int16(200), np.int16(182), np.int32(300)]
            from ..rt import c01 as rt1
            flow = __import__("bluebonnet.flow", fromlist=["x"])
            for nxv in cands:
                t_ = np.linspace(0.0, 1.0, 6) ** 2
                if cls == "IdealReservoir":
                    a, b_ = flow.IdealReservoir(nxv, 1000.0, 8000.0, None), flow.IdealReservoir(int(nxv), 1000.0, 8000.0, None)
                else:
                    fl = rt1.make_fluid("gas")
                    a, b_ = flow.SinglePhaseReservoir(nxv, 1000.0, 8000.0, fl), flow.SinglePhaseReservoir(int(nxv), 1000.0, 8000.0, fl)
                with np.errstate(all="ignore"):
                    a.simulate(t_)
                    b_.simulate(t_)
                if not np.allclose(a.pseudopressure, b_.pseudopressure, rtol=1e-12, atol=0):
                    return {"reproduced": True, "input": {"class": cls, "nx": f"{type(nxv).__name__}({int(nxv)})", "time": t_.tolist()}, "observed": {"min": float(np.min(a.pseudopressure)), "max": float(np.max(a.pseudopressure))},
                            "required": "the field of the same run with nx = int(%d): min %.6g, max %.6g" % (int(nxv), float(np.min(b_.pseudopressure)), float(np.max(b_.pseudopressure)))}
            return real_step_check()

        obs.append(Obligation(f"{tag}.step.mesh_ratio", f"{cls}: kt_h2[j] == (t[i+1] - t[i]) * C(nx) * alpha_s(previous level at j) with one positive mesh constant C(nx) for the whole run (frac-face node: diffusivity at m_f[i]); C(nx) involves no integer arithmetic that a fixed-width numpy node count could overflow", mesh, fq, "SMT", mesh_replay))

        def dt_exact(cls=cls, mkstep=mkstep):
            """floating point: the time increment enters the mesh numbers as the difference of two STORED times (one exactly
            rounded subtraction).  Any sum in kt_h2 whose operands are computed quantities of opposite sign amplifies their
            rounding by |operand| / |sum|; if that ratio is unbounded over the admissible time grids (t >> dt), the step is
            solved with an increment that is not this step's increment at rounding level."""
            S = mkstep()
            s_, b_ = S.single()
            kj = b_["arg_fn"]((j,))
            ti, ti1 = tm.app("t", [S.i]), tm.app("t", [tm.add(S.i, tm.const(1))])
            hyp = list(S.o.pc) + [tm.lt(ti, ti1), tm.gt(ti, tm.rconst(0)), resv.inr(j, S.n)]
            if cls != "IdealReservoir":
                hyp += resv.alpha_facts(S, [kj])

            def exact(x):
                x = x.args[0] if x.op == "neg" else x
                if x.op == "*" and len(x.args) == 2 and any(tm.is_const(a_) for a_ in x.args):
                    x = [a_ for a_ in x.args if not tm.is_const(a_)][0]
                return tm.is_const(x) or (x.op == "app" and x.args[0] == "t") or x.op == "var"

            for nd in tm.postorder(kj):
                if nd.op != "+" or nd.sort != tm.R:
                    continue
                ops = list(tm.children(nd))
                if all(exact(o_) for o_ in ops):
                    continue
                if not any(a_.args[0] == "t" for a_ in tm.apps(nd)):
                    continue  # only sums that carry the time increment
                for o_ in ops:
                    if exact(o_):
                        continue
                    big = tm.gt(tm.absv(o_), tm.mul(tm.rconst(10 ** 6), tm.absv(nd)))
                    v = be.prove_smt(tm.lnot(big), hyp, timeout_ms=20000, want={"t_i": ti, "t_i+1": ti1, "operand": o_, "sum": nd})
                    if v.status == be.REFUTED:
                        v.detail = (f"catastrophic cancellation in the mesh number: the computed operand {o_} is subtracted from a computed operand of the same size (sum {nd}); its rounding error is amplified by |operand|/|sum|, unbounded for t >> dt: "
                                    "the time increment used is not the float difference of the two stored times. " + v.detail)
                        return with_models(v, S.o)
            return with_models(be.Verdict(be.PROVED, "SMT", detail="every sum carrying the time increment subtracts stored times directly, or has bounded amplification"), S.o)

        def dt_exact_replay(w, cls=cls):
            from ..rt import c04 as rt
            import types
            r_ = rt.run(types.SimpleNamespace(tier="quick", seed=0))
            vs = [v_ for v_ in r_["violations"] if (v_.get("input") or {}).get("grid", {}).get("kind") == "offset"] or r_["violations"]
            if vs:
                v_ = vs[0]
                return {"reproduced": True, "input": v_.get("input"), "observed": v_.get("observed"), "required": v_.get("required"), "clause": v_.get("clause")}
            return {"reproduced": False}

        obs.append(Obligation(f"{tag}.step.dt_exact", f"{cls} (floating point): the time increment enters kt_h2 as the float difference of two stored times; no sum of computed operands with unbounded cancellation (t >> dt) carries it", dt_exact, fq, "SMT", dt_exact_replay))

        def rows(cls=cls, mkstep=mkstep):
            S = mkstep()
            s_, b_ = S.single()
            K, X = b_["K"], s_["x"]
            one = tm.const(1)
            rowfact = tm.eq(s_["A"].row_dot(r, X), s_["b"]((r,)))   # contract of _solve at row r
            prev = lambda c: S.PP(S.i, c)
            hyp = list(S.o.pc) + [rowfact, tm.ge(S.n, tm.const(3))]
            if cls != "IdealReservoir":
                hyp.append(tm.le(prev(r), S.m_i))
            interior = tm.implies(tm.land(tm.le(one, r), tm.le(r, tm.sub(S.n, tm.const(2)))),
                                  tm.eq(tm.add(tm.mul(tm.neg(K(r)), X((tm.sub(r, one),))), tm.mul(tm.add(ONE, tm.mul(TWO, K(r))), X((r,))), tm.mul(tm.neg(K(r)), X((tm.add(r, one),)))), prev(r)))
            noflow = tm.implies(tm.eq(r, tm.sub(S.n, one)), tm.eq(tm.add(tm.mul(tm.add(ONE, K(r)), X((r,))), tm.mul(tm.neg(K(r)), X((tm.sub(r, one),)))), prev(r)))
            v = be.prove_smt(tm.land(interior, noflow), hyp, want={"r": r, "nx": S.n})
            return with_models(v, S.o)

        obs.append(Obligation(f"{tag}.step.rows", f"{cls}: the stored row x satisfies -k_r x[r-1] + (1 + 2 k_r) x[r] - k_r x[r+1] = pp[i, r] at interior nodes and (1 + k) x[n-1] - k x[n-2] = pp[i, n-1] at the no-flow node, k = kt_h2 of this step", rows, fq, "SMT", lambda w: real_step_check()))

    obs.append(resv.twophase_delegates(ctx))

    def canary():
        S = resv.Step(ctx, "IdealReservoir", "none")
        s_, b_ = S.single()
        K, X = b_["K"], s_["x"]
        rowfact = tm.eq(s_["A"].row_dot(r, X), s_["b"]((r,)))
        one = tm.const(1)
        dirichlet = tm.implies(tm.eq(r, tm.sub(S.n, one)), tm.eq(X((r,)), S.PP(S.i, r)))
        return be.prove_smt(dirichlet, list(S.o.pc) + [rowfact, tm.ge(S.n, tm.const(3))])

    obs.append(Obligation("canary.smt", "CANARY (must be refuted): the outer row is a Dirichlet row", canary, [resv.ISIM], "SMT", expect=be.REFUTED))
    return obs


def bounded(ctx):
    from ..rt import c04 as rt
    return rt.run(ctx)
