import sys, ast, math, importlib
sys.path.insert(0, "/verif")
import numpy as np
from pyvc import oblig, term as tm, symex as sx
from pyvc.symex import ArrV
ctx = oblig.Ctx("C01", "quick", 0)
n = tm.var("n", tm.I)
def A(name="a"): return ArrV((n,), lambda i: tm.app(name, i), "f8", name=name)
x, y = tm.var("x"), tm.var("y")
ARGS = {"q": lambda: tm.var("x"), "a": lambda: A("a"), "b": lambda: A("b"), "x": lambda: x, "y": lambda: y, "n": lambda: n, "d": lambda: {"a": x}, "xp": lambda: A("xp"), "fp": lambda: A("fp")}
CONC = {"q": 0.7, "a": np.array([1.5, 2.0, 0.25, 3.0]), "b": np.array([0.5, 4.0, 1.0, 2.0]), "x": 0.7, "y": 1.3, "n": 4, "xp": np.array([0.0, 1.0, 2.0, 5.0]), "fp": np.array([1.0, 3.0, 2.0, 7.0])}
CONC2 = {"q": 3.3, "a": np.array([-1.5, 2.0, -0.25, 3.0]), "b": np.array([-1.5, 2.0 + 1e-9, 1.0, 3.0]), "x": -0.7, "y": 2.3, "n": 4, "xp": CONC["xp"], "fp": CONC["fp"]}
real = importlib.import_module("bluebonnet.idioms")
src = open(sys.argv[1]).read()
funcs_for = lambda C: {k: (lambda j, k=k: float(C[k][int(j)])) for k in ("a", "b", "xp", "fp")}
skip_neg = {"i_power", "i_math", "i_assert"}
res = []
for node in ast.parse(src).body:
    if not (isinstance(node, ast.FunctionDef) and node.name.startswith("i_")): continue
    names = [a.arg for a in node.args.args]
    try:
        f = ctx.engine.func("bluebonnet.idioms:" + node.name)
        outs = ctx.engine.run_paths(f, lambda: ([ARGS[k]() for k in names], {}), pc=[tm.ge(n, tm.const(2))])
    except Exception as e:
        continue
    for C in (CONC, CONC2):
        if C is CONC2 and node.name in skip_neg: continue
        env = {"x": C["x"] if "q" not in names else C["q"], "y": C["y"], "n": C["n"]}
        fn = funcs_for(C)
        try:
            want = getattr(real, node.name)(*[({"a": C["x"]} if k == "d" else (C[k].copy() if isinstance(C[k], np.ndarray) else C[k])) for k in names])
            wexc = None
        except Exception as e:
            want, wexc = None, type(e).__name__
        sel = []
        for o in outs:
            try:
                if all(tm.feval(c, env, fn) for c in list(o.pc) ):
                    sel.append(o)
            except Exception as e:
                pass
        if len(sel) != 1:
            res.append((node.name, "paths selected", len(sel), [o.kind for o in outs])); continue
        o = sel[0]
        if o.kind != "return":
            ok = (wexc == o.value)
            res.append((node.name, "raise", o.value, wexc, "OK" if ok else "MISMATCH")); continue
        v = o.value
        v = v.arr if hasattr(v, "arr") else v
        try:
            if isinstance(v, ArrV):
                L = int(tm.feval(v.shape[0], env, fn))
                got = np.array([float(tm.feval(v.get(tm.const(j)), env, fn)) for j in range(L)])
            elif isinstance(v, tm.T):
                got = tm.feval(v, env, fn)
            else:
                got = v
            w = np.asarray(want, dtype=float) if not isinstance(want, (bool, np.bool_)) else bool(want)
            g = np.asarray(got, dtype=float) if not isinstance(got, (bool, np.bool_)) else bool(got)
            ok = (np.shape(w) == np.shape(g)) and np.allclose(g, w, rtol=1e-12, atol=1e-12)
            res.append((node.name, "OK" if ok else "MISMATCH", None if ok else (got, want)))
        except Exception as e:
            res.append((node.name, "EVAL-ERR", type(e).__name__, str(e)[:80]))
# ---- while loops: the last-iteration summary, instantiated at the real state before the last iteration, must reproduce the real result
def _while_check():
    f = ctx.engine.func("bluebonnet.idioms:i_while_newton")
    outs = [o for o in ctx.engine.run_paths(f, lambda: ([x], {}), pc=[]) if o.kind == "return"]
    if len(outs) != 1:
        res.append(("i_while_newton", "paths selected", len(outs))); return
    o = outs[0]
    W = o.heap["ghost"]["while_loops"][0]
    for xv in (0.7, -3.3):
        r_, err_, trace = 1.0, 1.0, []
        while abs(err_) > 1e-9:
            trace.append((r_, err_))
            err_ = r_ * r_ - xv * xv - 2.0
            r_ = r_ - err_ / (2 * r_)
        env = {"x": xv, W["havoc"]["r"].args[0]: trace[-1][0], W["havoc"]["err"].args[0]: trace[-1][1]}
        got = tm.feval(o.value, env, {})
        pc_ok = all(tm.feval(c, env, {}) for c in o.pc)
        want = real.i_while_newton(xv)
        # and at an EARLIER iteration the exit condition must be false (the summary may not claim the loop stops there)
        env0 = {"x": xv, W["havoc"]["r"].args[0]: trace[0][0], W["havoc"]["err"].args[0]: trace[0][1]}
        early = all(tm.feval(c, env0, {}) for c in o.pc)
        ok = pc_ok and abs(got - want) <= 1e-12 and not early
        res.append(("i_while_newton", "OK" if ok else "MISMATCH", None if ok else (got, want, pc_ok, early)))
try:
    _while_check()
except Exception as e:
    res.append(("i_while_newton", "EVAL-ERR", type(e).__name__, str(e)[:120]))
mism = [r for r in res if "MISMATCH" in r]
noeval = [r for r in res if "OK" not in r and "MISMATCH" not in r]
print(f"selftest: {len(res)} comparisons, {len(res) - len(mism) - len(noeval)} agree with CPython/numpy, {len(noeval)} not evaluable by this harness (uninterpreted sums / extrema / quantified flags), {len(mism)} MISMATCH")
for b in mism:
    print("   MISMATCH", b)
if "-v" in sys.argv:
    for b in noeval:
        print("   not evaluable", b[:4])
sys.exit(1 if mism else 0)
