"""C11 bounded clauses: array evaluation equals elementwise scalar evaluation for every dtype and memory layout,
evaluated at run time on the real oil / water correlations and the Fluid methods.

Scalar reference: the correlation called with `float(arr[j])`; for the Fluid methods the underlying correlation
(b_o_Standing, viscosity_beggs_robinson, b_water_McCain, viscosity_water_McCain, b_factor_DAK, viscosity_Sutton)
with the instance's attributes, because water_FVF / gas_FVF / gas_viscosity iterate over their argument and do
not accept a scalar at all.

Tolerances (relative to the scalar value): 1e-12 for float64 / int64 / int32 input, 1e-5 for float32 input
(measured on the clean code: <= 7e-15 resp. <= 3.7e-7).

Length-0 arrays: require no exception and an empty floating result, for every function of the family (an earlier
version of this harness excluded Fluid.oil_viscosity because np.vectorize without otypes raised ValueError on size-0
input: that was a genuine defect of the code, repaired by a fix: commit, not a reason to narrow the family)."""
from __future__ import annotations

import random
import warnings

import numpy as np

from .common import Bounded

TOL = {"float64": 1e-12, "int64": 1e-12, "int32": 1e-12, "float32": 1e-5}
DTYPES = ("float64", "float32", "int64", "int32")
UNSUPPORTED_EMPTY = set()
GAS_FUNCS = {"Fluid.gas_FVF", "Fluid.gas_viscosity"}
ABOVE_ONLY = {"oil_compressibility_undersat_Spivey"}
ZERO_OK = {"b_o_Standing", "solution_gor_Standing", "Fluid.oil_FVF"}   # finite at p = 0 in the scalar form (the clamp to 15 psia of the other lists does not apply)
FUNCS = ("b_o_Standing", "solution_gor_Standing", "oil_compressibility_undersat_Spivey", "b_water_McCain", "b_water_McCain_dp", "compressibility_water_McCain",
         "density_water_McCain", "viscosity_water_McCain", "Fluid.oil_FVF", "Fluid.oil_viscosity", "Fluid.water_FVF", "Fluid.water_viscosity", "Fluid.gas_FVF", "Fluid.gas_viscosity")


def bubble(P):
    from bluebonnet.fluids import oil

    return oil.pressure_bubblepoint_Standing(P["T"], P["api"], P["sg"], P["gor"])


def pseudocritical(P):
    from bluebonnet.fluids import gas

    tpc, ppc = gas.pseudocritical_point_Sutton(P["sg"], gas.make_nonhydrocarbon_properties(0.0, 0.0, 0.0), "dry gas")
    return float(tpc), float(ppc)


def callables(name, P):
    """(array form, scalar reference) for one function and one parameter set"""
    from bluebonnet.fluids import gas, oil, water
    from bluebonnet.fluids.fluid import Fluid

    T, api, sg, gor, sal = P["T"], P["api"], P["sg"], P["gor"], P["salinity"]
    if name in ("b_o_Standing", "solution_gor_Standing", "oil_compressibility_undersat_Spivey"):
        f = getattr(oil, name)
        return (lambda p: f(T, p, api, sg, gor),) * 2
    if name in ("b_water_McCain", "b_water_McCain_dp"):
        f = getattr(water, name)
        return (lambda p: f(T, p),) * 2
    if name in ("compressibility_water_McCain", "density_water_McCain", "viscosity_water_McCain"):
        f = getattr(water, name)
        return (lambda p: f(T, p, sal),) * 2
    fl = Fluid(T, api, sg, gor, salinity=sal)
    if name == "Fluid.oil_FVF":
        return fl.oil_FVF, lambda p: oil.b_o_Standing(T, p, api, sg, gor)
    if name == "Fluid.oil_viscosity":
        return fl.oil_viscosity, lambda p: oil.viscosity_beggs_robinson(T, p, api, sg, gor)
    if name == "Fluid.water_FVF":
        return fl.water_FVF, lambda p: water.b_water_McCain(T, p)
    if name == "Fluid.water_viscosity":
        return fl.water_viscosity, lambda p: water.viscosity_water_McCain(T, p, sal)
    tpc, ppc = pseudocritical(P)
    if name == "Fluid.gas_FVF":
        return (lambda p: fl.gas_FVF(p, tpc, ppc)), (lambda p: gas.b_factor_DAK(T, p, tpc, ppc))
    if name == "Fluid.gas_viscosity":
        return (lambda p: fl.gas_viscosity(p, tpc, ppc)), (lambda p: gas.viscosity_Sutton(T, p, tpc, ppc, sg))
    raise ValueError(name)


def build(cfg):
    base = np.array(cfg["values"], dtype=cfg["dtype"])
    view = {"full": base, "::2": base[::2], "::-1": base[::-1], "1::3": base[1::3]}[cfg["view"]]
    return base, view


def evaluate(cfg):
    """returns {clause: (ok, observed, required)}"""
    P = cfg["params"]
    arr_f, sc_f = callables(cfg["function"], P)
    base, arr = build(cfg)
    before = base.copy()
    tol = TOL[cfg["dtype"]]
    out = {}
    with warnings.catch_warnings(), np.errstate(all="ignore"):
        warnings.simplefilter("ignore")
        try:
            res = arr_f(arr)
        except Exception as e:  # noqa: BLE001
            obs = {"exception": "%s: %s" % (type(e).__name__, str(e)[:200])}
            return {("empty" if arr.size == 0 else "elementwise"): (False, obs, "no exception")}
        res_a = np.asarray(res)
        if arr.size == 0:
            ok = res_a.shape == arr.shape and np.issubdtype(res_a.dtype, np.floating)
            out["empty"] = (bool(ok), {"shape": list(res_a.shape), "dtype": str(res_a.dtype)}, "no exception, empty floating result")
        else:
            try:
                ref = np.array([float(sc_f(float(x))) for x in arr], dtype=float)
            except Exception as e:  # noqa: BLE001
                return {"elementwise": (False, {"scalar call raised": "%s: %s" % (type(e).__name__, str(e)[:200])}, "scalar reference computable")}
            if res_a.shape == ref.shape:
                rel = np.abs(res_a.astype(float) - ref) / np.maximum(np.abs(ref), 1e-300)
                j = int(np.argmax(rel))
                worst = float(rel[j])
                ok = bool(np.all(np.isfinite(res_a))) and worst <= tol
                obs = {"worst index": j, "pressure": float(arr[j]), "array value": float(res_a[j]), "scalar value": float(ref[j]), "relative difference": worst}
            else:
                ok, obs = False, {"result shape": list(res_a.shape), "expected": list(ref.shape)}
            out["elementwise"] = (ok, obs, "f(arr)[j] == f(float(arr[j])) within %g relative" % tol)
            out["dtype_float"] = (bool(np.issubdtype(res_a.dtype, np.floating)), {"dtype": str(res_a.dtype)}, "floating result dtype")
            out["shape"] = (res_a.shape == arr.shape and isinstance(res, np.ndarray), {"shape": list(res_a.shape), "type": type(res).__name__}, "ndarray of shape %s" % (list(arr.shape),))
        same = base.dtype == before.dtype and np.array_equal(base, before)
        out["frame"] = (bool(same), {"input after the call": base.tolist()[:12]}, "input array unchanged")
    return out


def param_sets(rng, k):
    out = [{"T": 200.0, "api": 35.0, "sg": 0.8, "gor": 650.0, "salinity": 0.0}, {"T": 180, "api": 30, "sg": 0.7, "gor": 500, "salinity": 3.0}]
    while len(out) < k:
        ints = rng.random() < 0.4
        T, gor = rng.uniform(100.0, 300.0), rng.uniform(100.0, 2000.0)
        out.append({"T": int(T) if ints else round(T, 2), "api": round(rng.uniform(20.0, 50.0), 2), "sg": round(rng.uniform(0.6, 1.1), 3),
                    "gor": int(gor) if ints else round(gor, 2), "salinity": round(rng.choice([0.0, rng.uniform(0.0, 20.0)]), 2)})
    return out[:k]


def value_lists(rng, name, P, dtype):
    """pressure value lists (python floats exactly representable in `dtype`): length 1 / n, both sides of and exactly at the bubble point"""
    pb = float(bubble(P))
    pmax = 9000.0 if name in GAS_FUNCS else 30000.0
    lo = 15.0
    is_int = dtype.startswith("int")

    def conv(xs):
        a = np.array(xs, dtype=float)
        a = np.clip(a, lo, pmax)
        a = np.round(a) if is_int else a
        return np.array(a, dtype=dtype)

    at = [pb] if dtype == "float64" else ([np.floor(pb), np.ceil(pb)] if is_int else [float(np.float32(pb))])
    near = [np.nextafter(pb, 0.0), np.nextafter(pb, 1e9)] if dtype == "float64" else (
        [float(np.nextafter(np.float32(pb), np.float32(0))), float(np.nextafter(np.float32(pb), np.float32(1e9)))] if dtype == "float32" else [np.floor(pb) - 1, np.ceil(pb) + 1])
    below = [rng.uniform(lo, max(lo + 1, min(pb, pmax))) for _ in range(4)]
    above = [rng.uniform(min(pb, pmax * 0.9), min(max(2.5 * pb, pb + 500), pmax)) for _ in range(4)]
    grid = list(np.arange(500, 5000, 500))
    if name in ABOVE_ONLY:
        pool = [x for x in at + near + above + grid if x >= pb]
        pool = [float(x) for x in conv(pool) if float(x) >= pb] or [float(conv([pb + 50.0])[0]) + (1.0 if is_int else 0.0)]
        singles = [[pool[0]], [pool[-1]]]
        n_list = pool[:]
    else:
        mix = below + at + near + above
        rng.shuffle(mix)
        n_list = [float(x) for x in conv(mix)]
        singles = [[float(conv([below[0]])[0])], [float(conv(at)[0])], [float(conv([above[0]])[0])]]
        if pb <= pmax and not is_int and name not in GAS_FUNCS:
            assert any(v == (pb if dtype == "float64" else float(np.float32(pb))) for v in n_list)
    lists = [("full", n_list), ("::2", n_list), ("::-1", n_list), ("1::3", n_list), ("full", [float(x) for x in conv(grid)] if name not in ABOVE_ONLY else n_list[::-1])]
    lists += [("full", s) for s in singles] + [("::-1", singles[0]), ("full", []), ("::2", [])]
    if name in ZERO_OK:
        # a table's pressure column starts at 0 psia: the scalar call is finite there, so must be the array element
        lists.append(("full", [0.0] + [float(x) for x in conv(grid)]))
    return lists


def _import_quietly():
    """bluebonnet's import registers a matplotlib scale and may emit (pending) deprecation warnings"""
    with warnings.catch_warnings():
        warnings.simplefilter("ignore")
        import bluebonnet.fluids  # noqa: F401
        import bluebonnet.forecast  # noqa: F401
        import bluebonnet.plotting  # noqa: F401


def run(ctx):
    _import_quietly()
    quick = ctx.tier == "quick"
    rng = random.Random(ctx.seed)
    nsets = 6 if quick else 60
    B = Bounded("%d functions (oil b_o_Standing, solution_gor_Standing, oil_compressibility_undersat_Spivey [pressures >= bubble point only], 5 water correlations, Fluid.oil_FVF/oil_viscosity/"
                "water_FVF/water_viscosity/gas_FVF/gas_viscosity) x %d fluid parameter sets (2 fixed + seeded T 100..300, API 20..50, gas gravity 0.6..1.1, GOR 100..2000, python int and float "
                "T/GOR, salinity 0..20) x dtypes float64/float32/int64/int32 x arrays {n = 11 mixed both sides of / next to / exactly at the bubble point (exact only for float64; float32(pb), floor/ceil(pb) "
                "otherwise), its views [::2], [::-1], [1::3], arange(500, 5000, 500), three length-1 arrays, length 0 and a length-0 view}; pressures 15..30000 psia (gas: <= 9000); tolerance 1e-12 relative "
                "(1e-5 for float32); length 0 excluded for: %s" % (len(FUNCS), nsets, ", ".join(sorted(UNSUPPORTED_EMPTY)) or "nothing"))
    for P in param_sets(rng, nsets):
        for name in FUNCS:
            for dtype in DTYPES:
                for view, values in value_lists(rng, name, P, dtype):
                    if not values and name in UNSUPPORTED_EMPTY:
                        continue
                    cfg = {"function": name, "params": P, "dtype": dtype, "view": view, "values": values}
                    key = (name, tuple(sorted(P.items())), dtype, view, tuple(values))
                    for clause, (ok, observed, required) in evaluate(cfg).items():
                        B.case(clause, key, ok, input={"clause": clause, **cfg}, observed=observed, required=required)
    return B.result()


def replay(case):
    _import_quietly()
    cfg = dict(case.get("input", case))
    clause = cfg.pop("clause", None) or case.get("clause")
    res = evaluate(cfg)
    failed = {k: v for k, v in res.items() if not v[0]}
    hit = failed.get(clause) or (next(iter(failed.values())) if failed else None)
    return {"reproduced": bool(failed), "call": "%s(%s array %s view %s) with %s" % (cfg["function"], cfg["dtype"], cfg["values"], cfg["view"], cfg["params"]),
            "observed": hit[1] if hit else None, "required": hit[2] if hit else None, "failed clauses": sorted(failed)}
