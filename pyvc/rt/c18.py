"""C18 bounded clauses: the pressure-history fit uses the library's forward model and honours its limits -
run-time contracts on the real bluebonnet.forecast.forecast_pressure (tests/data/pvt_gas.csv, 80-node model).

Forward model (recomputed here, independently of _obj_function, from the library's own classes):
    FlowProperties(pvt, p_i); SinglePhaseReservoir(80, p_i, p_i, fp).simulate(days / tau, schedule); M * recovery_factor()

Tolerances: objective at the generating parameters exactly 0 (array_equal); at other parameters within 1e-12 *
max|production| of the recomputation; limits: declared min / max equal to the stated values (==), fitted values
inside with slack 1e-9 * max(1, |bound|); filtering: len(residual) == number of kept rows and residual within
1e-12 * max|cumulative| of the recomputation at result.params; window_one: residual within 1e-9 * max|cumulative|,
parameters within 1e-9 relative, declared limits within 1e-12 relative of the filter_window_size=None fit.  Bit
equality is NOT demanded there: scipy.ndimage.uniform_filter1d(x, size=1) is a running-sum filter and returns x
only up to 1 ulp (1.1e-13 psi on 808.29 psi; 1000 of 1000 random arrays differ in the last bit), which moves the
residual by ~1e-16 relative; the observed record states whether the two fits were bit-identical."""
from __future__ import annotations

import random
import warnings

import numpy as np

from .common import Bounded

RENAME = {"P": "pressure", "Z-Factor": "z-factor", "Cg": "compressibility", "Viscosity": "viscosity", "Density": "density"}
NX = 80
_cache = {}


def pvt():
    if "pvt" not in _cache:
        import pandas as pd

        _cache["pvt"] = pd.read_csv("/repo/tests/data/pvt_gas.csv").rename(columns=RENAME)
    return _cache["pvt"]


def forward(days, tau, M, p_i, schedule):
    from bluebonnet.flow import FlowProperties, SinglePhaseReservoir

    fp = FlowProperties(pvt(), p_i)
    res = SinglePhaseReservoir(NX, p_i, p_i, fp)
    res.simulate(np.asarray(days) / tau, np.asarray(schedule))
    return M * res.recovery_factor()


def schedule_of(kind, n, p_i, seed):
    rs = np.random.RandomState(seed)
    if kind == "constant":
        return np.full(n, 0.15 * p_i)
    if kind == "ramp":
        return np.linspace(0.7 * p_i, 0.1 * p_i, n)
    if kind == "steps":
        s = np.full(n, 0.5 * p_i)
        s[n // 4: n // 2] *= 0.5
        s[n // 2:] *= 0.25
        return s
    if kind == "noisy":
        return np.clip(np.linspace(0.6 * p_i, 0.2 * p_i, n) + rs.normal(0.0, 0.03 * p_i, n), 50.0, 0.95 * p_i)
    raise ValueError(kind)


def make_params(tau, M, p_i):
    from lmfit import Parameters

    p = Parameters()
    p.add("tau", value=tau)
    p.add("M", value=M)
    p.add("p_initial", value=p_i)
    return p


def check_objective(cfg):
    from bluebonnet.forecast import forecast_pressure as fpm

    n, tau, M, p_i = cfg["n"], cfg["tau"], cfg["M"], cfg["p_i"]
    days = np.arange(n)
    sched = schedule_of(cfg["schedule"], n, p_i, cfg["seed"])
    production = forward(days, tau, M, p_i, sched)
    at_truth = np.asarray(fpm._obj_function(make_params(tau, M, p_i), days, production, pvt(), sched))
    ok = at_truth.shape == production.shape and np.array_equal(at_truth, np.zeros(n))
    obs = {"max|objective at truth|": float(np.max(np.abs(at_truth))), "recovery at the end": float(production[-1] / M)}
    scale = float(np.max(np.abs(production)))
    worst = 0.0
    for tau2, M2, p2 in cfg["others"]:
        got = np.asarray(fpm._obj_function(make_params(tau2, M2, p2), days, production, pvt(), sched))
        want = forward(days, tau2, M2, p2, sched) - production
        d = float(np.max(np.abs(got - want))) / scale
        worst = max(worst, d)
        ok = ok and got.shape == want.shape and d <= 1e-12 and float(np.max(np.abs(want))) > 1e-6 * scale
    obs["max scaled difference to the recomputation at other parameters"] = worst
    return bool(ok), obs, "objective exactly 0 at the generating parameters; elsewhere M*rf - production of the forward model (1e-12 of max|production|)"


def make_data(cfg):
    """synthetic production table: kept rows from the forward model, zero / negative-rate days and NaN pressures mixed in"""
    import pandas as pd

    rs = np.random.RandomState(cfg["seed"])
    nk, p_i = cfg["n_keep"], cfg["p_i"]
    sched = schedule_of(cfg["schedule"], nk + 1, p_i, cfg["seed"])
    cum = forward(np.arange(nk + 1), cfg["tau"], cfg["M"], p_i, sched)
    gas = np.maximum(np.diff(cum), 1e-6 * cfg["M"])
    gas = gas * (1.0 + 0.05 * rs.standard_normal(nk)).clip(0.5, 1.5)
    press = sched[1:].copy()
    rows = [(g, p) for g, p in zip(gas, press)]
    for _ in range(cfg["n_zero"]):
        k = rs.randint(1, len(rows))
        rows.insert(k, (rs.choice([0.0, 0.0, -1.0]), float(rs.uniform(0.2, 0.9) * p_i)))
    for _ in range(cfg["n_nan"]):
        k = rs.randint(1, len(rows))
        rows.insert(k, (float(gas.mean()), np.nan))
    g = np.array([r[0] for r in rows])
    p = np.array([r[1] for r in rows])
    # further columns as in a real export, with gaps of their own on days that do have gas and a pressure reading
    extra = np.ones(len(rows))
    extra[rs.rand(len(rows)) < 0.15] = np.nan
    return pd.DataFrame({"Days": np.arange(len(rows)), "Gas": g, "Pressure": p, "Extra": extra, "Comment": [None if i % 5 else "shut-in?" for i in range(len(rows))]})


def expected_inputs(data, cfg):
    """what the minimiser must be given: kept rows, re-indexed days, (smoothed) pressures, cumulative gas"""
    from scipy.ndimage import uniform_filter1d

    gas, press = data["Gas"].to_numpy(), data["Pressure"].to_numpy()
    keep = (gas > 0) & ~np.isnan(press) if cfg["filter"] else np.ones(len(gas), bool)
    p = press[keep]
    if cfg["window"] is not None:
        p = uniform_filter1d(p, size=cfg["window"])
    return np.arange(int(keep.sum())), p, np.cumsum(gas[keep])


def fit(data, cfg, window="cfg"):
    from bluebonnet.forecast import fit_production_pressure

    w = cfg["window"] if window == "cfg" else window
    return fit_production_pressure(data.copy(), pvt(), cfg["p_guess"], filter_window_size=w, pressure_imax=cfg["pressure_imax"], inplace_max=cfg["inplace_max"],
                                   filter_zero_prod_days=cfg["filter"], n_iter=cfg["n_iter"])


def check_fit(cfg):
    """limits and filtering on one fit"""
    data = make_data(cfg)
    before = data.copy()
    result = fit(data, cfg)
    days, p_f, cum = expected_inputs(data, cfg)
    par = result.params
    out = {}
    want = {"tau": (30.0, 2.0 * (len(days) - 1)), "M": (float(cum[-2]), float(cfg["inplace_max"])), "p_initial": (float(np.max(p_f)), float(cfg["pressure_imax"]))}
    got = {k: (float(par[k].min), float(par[k].max)) for k in want}
    vals = {k: float(par[k].value) for k in want}
    inside = all(want[k][0] - 1e-9 * max(1.0, abs(want[k][0])) <= vals[k] <= want[k][1] + 1e-9 * max(1.0, abs(want[k][1])) for k in want)
    out["limits"] = (got == want and inside and set(par.keys()) == set(want), {"declared": got, "fitted": vals}, {"declared": want, "fitted": "inside the declared limits"})
    res = np.asarray(result.residual)
    recomputed = forward(days, vals["tau"], vals["M"], vals["p_initial"], p_f) - cum
    same_len = res.shape == recomputed.shape
    d = float(np.max(np.abs(res - recomputed)) / np.max(np.abs(cum))) if same_len else float("inf")
    out["filtering"] = (bool(same_len and d <= 1e-12 and data.equals(before)),
                        {"len(residual)": int(res.size), "rows kept by the rule": int(len(days)), "rows in the table": int(len(data)), "max scaled difference to the recomputation": d, "table unchanged": bool(data.equals(before))},
                        "residual = M*rf(arange(kept)/tau; kept, smoothed pressures) - cumsum(kept Gas) at result.params (1e-12): rows with Gas <= 0 or NaN Pressure excluded iff filter_zero_prod_days")
    return out


def check_window_one(cfg):
    data = make_data(cfg)
    r_none = fit(data, cfg, window=None)
    r_one = fit(data, cfg, window=1)
    a, b = np.asarray(r_none.residual), np.asarray(r_one.residual)
    pa = [float(r_none.params[k].value) for k in ("tau", "M", "p_initial")]
    pb = [float(r_one.params[k].value) for k in ("tau", "M", "p_initial")]
    la = [(float(r_none.params[k].min), float(r_none.params[k].max)) for k in ("tau", "M", "p_initial")]
    lb = [(float(r_one.params[k].min), float(r_one.params[k].max)) for k in ("tau", "M", "p_initial")]
    _, _, cum = expected_inputs(data, cfg)
    scale = float(np.max(np.abs(cum)))

    def close(x, y, tol):
        return all(abs(u - v) <= tol * max(abs(u), abs(v), 1e-300) for u, v in zip(np.ravel(x), np.ravel(y)))

    d = float(np.max(np.abs(a - b))) / scale if a.shape == b.shape else float("inf")
    ok = a.shape == b.shape and d <= 1e-9 and close(pa, pb, 1e-9) and close(la, lb, 1e-12)
    return {"window_one": (bool(ok), {"params window=None": pa, "params window=1": pb, "limits window=None": la, "limits window=1": lb, "max|d residual| / max|cumulative|": d,
                                      "bit-identical": bool(a.shape == b.shape and np.array_equal(a, b) and pa == pb and la == lb)},
                           "filter_window_size=1 gives the residual (1e-9 of max|cumulative|), parameters (1e-9 relative) and limits (1e-12 relative) of filter_window_size=None")}


def evaluate(kind, cfg):
    with warnings.catch_warnings(), np.errstate(all="ignore"):
        warnings.simplefilter("ignore")
        try:
            if kind == "objective":
                ok, obs, req = check_objective(cfg)
                return {"objective_zero_at_truth": (ok, obs, req)}
            if kind == "fit":
                return check_fit(cfg)
            if kind == "window_one":
                return check_window_one(cfg)
        except Exception as e:  # noqa: BLE001
            import traceback

            name = {"objective": "objective_zero_at_truth", "fit": "limits", "window_one": "window_one"}[kind]
            return {name: (False, {"exception": "%s: %s" % (type(e).__name__, str(e)[:300]), "where": traceback.format_exc()[-400:]}, "no exception")}
    raise ValueError(kind)


def run(ctx):
    quick = ctx.tier == "quick"
    rng = random.Random(ctx.seed)
    n_obj, n_fit, n_w1 = (6, 12, 3) if quick else (30, 80, 12)
    B = Bounded("tests/data/pvt_gas.csv, 80-node forward model; objective: %d seeded (tau 40..800 d, M 1e3..5e4, p_i 3000..9000 psi, schedule constant/ramp/steps/noisy, 40..120 days), each at the truth and at "
                "2 other parameter triples; fits: %d synthetic tables (30..80 producing days, 0..8 zero/negative-rate days, 0..6 NaN pressures, extra column) with filter_zero_prod_days in {True, False} "
                "(False only without NaN pressures), filter_window_size in {None, 1, 3, 7}, n_iter 3..10, pressure_imax 9500..11500, inplace_max 1e5..1e6; window_one: %d tables fitted with None and 1"
                % (n_obj, n_fit, n_w1))

    def emit(kind, cfg):
        for clause, (ok, observed, required) in evaluate(kind, cfg).items():
            B.case(clause, repr(sorted(cfg.items())), ok, input={"kind": kind, **cfg}, observed=observed, required=required)

    kinds = ["constant", "ramp", "steps", "noisy"]
    for k in range(n_obj):
        tau, M, p_i = round(10 ** rng.uniform(1.6, 2.9), 3), round(10 ** rng.uniform(3.0, 4.7), 2), round(rng.uniform(3000.0, 9000.0), 1)
        others = [[round(tau * rng.uniform(0.4, 2.5), 3), round(M * rng.uniform(0.5, 2.0), 2), round(min(11000.0, p_i * rng.uniform(1.0, 1.3)), 1)],
                  [tau, round(M * 1.5, 2), p_i]]
        emit("objective", {"n": rng.randint(40, 120), "tau": tau, "M": M, "p_i": p_i, "schedule": kinds[k % 4], "seed": rng.randrange(10**6), "others": others})

    def fit_cfg(k):
        filt = k % 3 != 2
        return {"seed": rng.randrange(10**6), "n_keep": rng.randint(30, 80), "tau": round(10 ** rng.uniform(1.6, 2.6), 3), "M": round(10 ** rng.uniform(3.0, 4.7), 2),
                "p_i": round(rng.uniform(3000.0, 9000.0), 1), "schedule": kinds[(k + 1) % 4], "n_zero": rng.randint(0 if k else 3, 8), "n_nan": rng.randint(1, 6) if filt else 0,
                "filter": filt, "window": [None, 7, 1, 3][k % 4], "n_iter": rng.randint(3, 10), "pressure_imax": round(rng.uniform(9500.0, 11500.0), 1),
                "inplace_max": round(10 ** rng.uniform(5.0, 6.0), 1), "p_guess": None}

    for k in range(n_fit):
        cfg = fit_cfg(k)
        cfg["p_guess"] = round(min(cfg["pressure_imax"], cfg["p_i"] * rng.uniform(0.96, 1.2)), 1)
        emit("fit", cfg)
    for k in range(n_w1):
        cfg = fit_cfg(k)
        cfg["p_guess"] = round(min(cfg["pressure_imax"], cfg["p_i"] * rng.uniform(0.96, 1.2)), 1)
        cfg["window"] = None
        emit("window_one", cfg)
    return B.result()


def replay(case):
    cfg = dict(case.get("input", case))
    kind = cfg.pop("kind")
    cfg.pop("clause", None)
    res = evaluate(kind, cfg)
    failed = {k: v for k, v in res.items() if not v[0]}
    return {"reproduced": bool(failed), "call": "%s on %s" % (kind, cfg), "failed clauses": sorted(failed), "observed": {k: v[1] for k, v in failed.items()}, "required": {k: v[2] for k, v in failed.items()}}
