"""C12  Black-oil correlations are continuous and correctly ordered at the bubble point.

Box (property quantifier): T 80-350 F, API 12-55, gas gravity 0.56-1.3, initial GOR 20-2500 scf/bbl with p_b > 50 psia;
pressures 15 psia .. 2.5 p_b.
  rs.inverse.*          Rs_below(p_b(R)) == R  and  p_b(Rs_below(p)) == p
  *.continuous          solution GOR, oil FVF, oil density, oil viscosity: below-branch term at p = p_b == above-branch term at p = p_b
  rs.monotone / rs.above  dRs/dp > 0 below; Rs == R_si at and above
  bo.rising_below       d/dp B_ob(Rs(p)) > 0
  bo.falling_above      d/dp [c_o(p) (p_b - p)] < 0 for p_b <= p <= 2.5 p_b   (cut: pressure-independent part z0 of Spivey's z)
  mu.falling_below      d mu_live / dR < 0 on the ranges of Rs and mu_dead; with dRs/dp > 0 viscosity falls with pressure
  co.positive / mu.positive
  branch.same_side      every scalar oil correlation switches branch exactly on p >= p_b
"""
from __future__ import annotations

from .. import backends as be
from .. import term as tm
from .common import *  # noqa: F403

LEVEL = "proof"
EXPLANATION = ("continuity and inverse clauses are CAS identities on the branch terms extracted from the real oil.py; the ordering clauses are sign lemmas proved by outward-rounded interval branch-and-bound over the whole box, "
               "with automatically discovered cuts (a scalar sub-term through which the expression depends on the other inputs, replaced by a variable whose range is itself proved by INT)")
TRUSTED = ["chain rule / sign of a product (pyvc.term.diff applies the chain rule; the sign argument d mu/dp = (d mu_live/dR)(dRs/dp) is composed by hand from two INT lemmas)",
           "a strictly monotone exponent makes B_ob * exp(exponent) strictly monotone (exp increasing, B_ob > 0)", "sympy rewriting re-checked at 50 digits"]
ASSUMPTIONS = []

T, p, api, gg, R = sym_args(["T", "p", "api", "gg", "R"])
PB, pr, zeta = tm.var("PB"), tm.var("pr"), tm.var("zeta")
PBF = OIL + "pressure_bubblepoint_Standing"
RS = OIL + "solution_gor_Standing"
BO = OIL + "b_o_Standing"
RHO = OIL + "density_Standing"
MU = OIL + "viscosity_beggs_robinson"
SPV = OIL + "oil_compressibility_undersat_Spivey"
OB = dict(OIL_BOX)
OBP = dict(OIL_BOX, p=(15.0, 30000.0))
ARGS = [T, p, api, gg, R]


def pb_term(ctx):
    return one_path(ctx, PBF, [T, api, gg, R]).value


def branches(ctx, q, args=None):
    pb = pb_term(ctx)
    c = tm.ge(p, pb)
    outs = paths(ctx, q, args or ARGS)
    if len(outs) == 1 and outs[0].kind == "return" and isinstance(outs[0].value, tm.T) and c in tm.postorder(outs[0].value):
        # nested calls were merged into one term ite(p >= p_b, …): its two specialisations are the branches
        import copy
        o = outs[0]
        lo_, hi_ = copy.copy(o), copy.copy(o)
        lo_.value, hi_.value = tm.subst(o.value, {c: tm.FALSE}), tm.subst(o.value, {c: tm.TRUE})
        lo_.pc, hi_.pc = o.pc + [tm.lnot(c)], o.pc + [c]
        if c in tm.postorder(lo_.value) or c in tm.postorder(hi_.value):
            raise sx.OutOfSubset("branch condition survives specialisation")
        return pb, c, lo_, hi_
    lo = [o for o in outs if has_cond(o, c, False)]
    hi = [o for o in outs if has_cond(o, c, True)]
    if len(outs) != 2 or len(lo) != 1 or len(hi) != 1 or any(o.kind != "return" for o in outs):
        raise sx.OutOfSubset(f"{q.split(':')[1]} does not branch exactly on p >= p_b ({len(outs)} paths)")
    return pb, c, lo[0], hi[0]


def at_pb(t, pb):
    return tm.subst(t, {p: pb})


def real_oil(pt):
    return (pt["T"], pt["api"], pt["gg"], pt["R"])


def real_pb(pt):
    return real(PBF)(*real_oil(pt))


def admissible(pt):
    return real_pb(pt) > 50


def cont_replay(q):
    """continuity of the real function at the real bubble point: values one ulp below / at / above agree to 1e-9"""
    def rp_(w):
        import numpy as np
        f = real(q)
        cands = []
        if all(isinstance(w.get(k), (int, float)) for k in ("T", "api", "gg", "R")):
            cands.append({k: float(w[k]) for k in ("T", "api", "gg", "R")})
        cands += [dict(T=200.0, api=35.0, gg=0.8, R=650.0), dict(T=150.0, api=30.0, gg=0.9, R=400.0), dict(T=300.0, api=50.0, gg=0.6, R=2000.0), dict(T=100.0, api=15.0, gg=1.2, R=60.0)]
        for c_ in cands:
            if not admissible(c_):
                continue
            pb = real_pb(c_)
            a = (c_["api"], c_["gg"], c_["R"])
            vals = [float(f(c_["T"], x, *a)) for x in (pb * (1 - 1e-9), np.nextafter(pb, 0), pb, np.nextafter(pb, 1e9), pb * (1 + 1e-9))]
            if max(vals) - min(vals) > 1e-6 * max(1.0, abs(vals[2])):
                return {"reproduced": True, "input": {**c_, "p_b": float(pb)}, "observed": vals, "required": "equal to 1e-6 across the bubble point"}
        return {"reproduced": False}
    return rp_


def sweep_replay(q, check, what):
    """bounded search on the real function along pressure sweeps for a sign/ordering violation"""
    def rp_(w):
        import numpy as np
        f = real(q)
        for c_ in (dict(T=200.0, api=35.0, gg=0.8, R=650.0), dict(T=150.0, api=30.0, gg=0.9, R=400.0), dict(T=300.0, api=50.0, gg=0.6, R=2000.0), dict(T=100.0, api=15.0, gg=1.2, R=60.0), dict(T=350.0, api=12.0, gg=1.3, R=2500.0)):
            if not admissible(c_):
                continue
            pb = real_pb(c_)
            ps = np.unique(np.concatenate([np.linspace(15.0, pb, 60, endpoint=False), np.linspace(pb, 2.5 * pb, 60)]))
            v = np.array([float(f(c_["T"], x, c_["api"], c_["gg"], c_["R"])) for x in ps])
            bad = check(ps, v, pb)
            if bad is not None:
                return {"reproduced": True, "input": {**c_, "p_b": float(pb), "pressures": [float(ps[bad]), float(ps[min(bad + 1, len(ps) - 1)])]}, "observed": [float(v[bad]), float(v[min(bad + 1, len(v) - 1)])], "required": what}
        return {"reproduced": False}
    return rp_


def first_bad(mask):
    import numpy as np
    return int(np.argmax(mask)) if mask.any() else None


def auto_cut(E, keep):
    """largest exp-free additive sub-term through which E depends on every variable outside `keep`"""
    cands = [n for n in tm.postorder(E) if n.op == "+" and any(v.args[0] in keep for v in tm.free_vars(n)) and any(v.args[0] not in keep for v in tm.free_vars(n))
             and not any(k.op == "exp" for k in tm.postorder(n))]
    cands.sort(key=tm.size, reverse=True)
    for n in cands:
        fv = {v.args[0] for v in tm.free_vars(tm.subst(E, {n: zeta}))}
        if fv <= set(keep) | {"zeta"}:
            return n
    return None


def build(ctx):
    obs = []

    # ---------------- inverse pair
    def inv1():
        pb, c, lo, hi = branches(ctx, RS)
        return at_pb(lo.value, pb), R, None, lo

    def inv1_real(pt):
        import numpy as np
        pb = real_pb(pt)
        return real(RS)(pt["T"], float(np.nextafter(pb, 0)), pt["api"], pt["gg"], pt["R"]), pt["R"]

    obs.append(cas_ob(ctx, "rs.inverse.forward", "Rs_below(p_b(R)) == R (the GOR correlation below the bubble point inverts the bubble-point correlation; also continuity of Rs at p_b)", inv1, OB, [RS, PBF], inv1_real, tol=1e-9, hyp_real=admissible))

    def inv2():
        pb, c, lo, hi = branches(ctx, RS)
        back = one_path(ctx, PBF, [T, api, gg, lo.value]).value
        return back, p, None, lo

    def inv2_real(pt):
        a = (pt["T"], pt["p"], pt["api"], pt["gg"], pt["R"])
        return real(PBF)(pt["T"], pt["api"], pt["gg"], real(RS)(*a)), pt["p"]

    obs.append(cas_ob(ctx, "rs.inverse.backward", "p_b(Rs_below(p)) == p for p below the bubble point", inv2, OBP, [RS, PBF], inv2_real, tol=1e-9, hyp_real=lambda pt: admissible(pt) and pt["p"] < real_pb(pt)))

    def rs_above():
        pb, c, lo, hi = branches(ctx, RS)
        if hi.value is not R:
            return be.Verdict(be.REFUTED, "STRUCT", witness={}, detail=f"above the bubble point solution GOR is {hi.value}, not the initial GOR")
        return with_models(be.Verdict(be.PROVED, "STRUCT", detail="Rs == R_si on the path p >= p_b"), hi)

    obs.append(Obligation("rs.above", "solution_gor_Standing == initial GOR at and above the bubble point", rs_above, [RS], "STRUCT",
                          sweep_replay(RS, lambda ps, v, pb: first_bad((ps >= pb) & (v != v[-1])), "constant initial GOR at and above p_b")))

    # ---------------- continuity
    def continuity(q):
        def terms():
            pb, c, lo, hi = branches(ctx, q)
            return at_pb(lo.value, pb), at_pb(hi.value, pb), None, lo, hi
        return terms

    for name, q in (("bo", BO), ("rho", RHO), ("mu", MU)):
        obs.append(cas_ob(ctx, f"{name}.continuous", f"{q.split(':')[1]}: below-branch term at p = p_b == above-branch term at p = p_b", continuity(q), OB, [q, PBF], None, npoints=8))
        obs[-1].replay = cont_replay(q)

    # ---------------- ordering: sign lemmas
    def rs_monotone():
        pb, c, lo, hi = branches(ctx, RS)
        return with_models(be.prove_int(tm.diff(lo.value, p), OBP, mode=">0"), lo)

    obs.append(Obligation("rs.monotone", "d Rs_below / dp > 0 on the whole box (with rs.above and continuity: Rs non-decreasing in pressure)", rs_monotone, [RS], "INT",
                          sweep_replay(RS, lambda ps, v, pb: first_bad(__import__("numpy").diff(v) < -1e-9), "non-decreasing in pressure")))

    def bo_rising():
        pb, c, lo, hi = branches(ctx, BO)
        return with_models(be.prove_int(tm.diff(lo.value, p), OBP, mode=">0"), lo)

    obs.append(Obligation("bo.rising_below", "d/dp b_o_Standing > 0 on the below-bubble-point branch (whole box)", bo_rising, [BO], "INT",
                          sweep_replay(BO, lambda ps, v, pb: first_bad((__import__("numpy").diff(v) <= 0) & (ps[1:] < pb)), "rising with pressure below p_b")))

    def spivey_reduced():
        """c_o as a function of (zeta, pr, PB): Spivey executed with p = pr * PB and the bubble point an opaque symbol"""
        saved = dict(ctx.engine.opaque)
        ctx.engine.opaque[PBF] = lambda ex, a, kw: PB
        try:
            co = one_path(ctx, SPV, [T, pr * PB, api, gg, R])
        finally:
            ctx.engine.opaque.clear()
            ctx.engine.opaque.update(saved)
        E = tm.mul(co.value, tm.sub(PB, pr * PB))
        node = auto_cut(E, ("pr", "PB"))
        if node is None:
            raise sx.OutOfSubset("no scalar cut found in Spivey's correlation")
        z0 = tm.subst(node, {pr: tm.rconst(1)})
        delta = be.cas_rewrite(tm.sub(node, z0), positive=["pr", "PB", "api", "gg", "R", "T"], check_box=dict(OB, pr=(1.0, 2.5), PB=(50.0, 20000.0)), seed=ctx.seed)
        if any(v.args[0] != "pr" for v in tm.free_vars(delta)):
            raise sx.OutOfSubset("the cut does not split into a pressure-independent part plus a function of p/p_b")
        return co, E, node, z0, delta

    ZR = (-12.0, 12.0)

    def z0_range():
        co, E, node, z0, delta = spivey_reduced()
        pbt = pb_term(ctx)
        z0f = tm.subst(z0, {PB: pbt})
        hyp = tm.gt(pbt, tm.rconst(50))
        v1 = be.prove_int(tm.sub(z0f, tm.rconst(ZR[1])), OB, mode="<0", hyp=hyp)
        if v1.status != be.PROVED:
            return with_models(v1, co)
        v2 = be.prove_int(tm.sub(z0f, tm.rconst(ZR[0])), OB, mode=">0", hyp=hyp)
        v2.stats = {"boxes": v1.stats.get("boxes", 0) + v2.stats.get("boxes", 0)}
        return with_models(v2, co)

    obs.append(Obligation("spivey.cut_range", f"the pressure-independent part z0 of Spivey's z lies in [{ZR[0]}, {ZR[1]}] on the whole oil box with p_b > 50 (range lemma for the cut)", z0_range, [SPV, PBF], "INT"))

    def bo_falling():
        co, E, node, z0, delta = spivey_reduced()
        h = be.cas_rewrite(tm.div(tm.subst(E, {node: tm.add(zeta, delta)}), PB), positive=["pr", "PB"], how="together", check_box={"pr": (1.0, 2.5), "PB": (50.0, 20000.0), "zeta": ZR}, seed=ctx.seed)
        if any(v.args[0] not in ("pr", "zeta") for v in tm.free_vars(h)):
            raise sx.OutOfSubset("exponent / p_b still depends on p_b")
        return with_models(be.prove_int(tm.diff(h, pr), {"zeta": ZR, "pr": (1.0, 2.5)}, mode="<0", max_boxes=200000, presplit={"zeta": 16}, pool=_pool()), co)

    obs.append(Obligation("bo.falling_above", "d/d(p/p_b) [c_o(p)(p_b - p)/p_b] < 0 for z0 in the proved range and 1 <= p/p_b <= 2.5: the exponent of the undersaturated FVF decreases, so B_o falls above the bubble point", bo_falling, [SPV, BO], "INT",
                          sweep_replay(BO, lambda ps, v, pb: first_bad((__import__("numpy").diff(v) >= 0) & (ps[:-1] >= pb)), "falling with pressure above p_b")))

    def bo_above_form():
        pb, c, lo, hi = branches(ctx, BO)
        bob = one_path(ctx, OIL + "b_o_bubblepoint_Standing", [T, api, gg, R]).value
        co = one_path(ctx, SPV, ARGS).value
        return hi.value, bob * tm.exp(co * (pb - p)), None, hi

    obs.append(cas_ob(ctx, "bo.above_form", "above the bubble point b_o_Standing == B_ob(R_si) * exp(c_o(p) (p_b - p)) with c_o = oil_compressibility_undersat_Spivey", bo_above_form, OBP, [BO, SPV], None, npoints=6))

    def co_positive():
        co, E, node, z0, delta = spivey_reduced()
        cz = tm.subst(co.value, {node: tm.add(zeta, delta)})
        return with_models(be.prove_int(cz, {"zeta": ZR, "pr": (1.0, 2.5), "PB": (50.0, 30000.0)}, mode=">0", max_boxes=200000, presplit={"zeta": 16}, pool=_pool()), co)

    obs.append(Obligation("co.positive", "oil_compressibility_undersat_Spivey > 0 for p_b <= p <= 2.5 p_b (z0 in the proved range)", co_positive, [SPV], "INT",
                          sweep_replay(SPV, lambda ps, v, pb: first_bad((v <= 0) & (ps >= pb)), "positive for p_b <= p <= 2.5 p_b")))

    # ---------------- viscosity
    def mu_parts():
        md, Rv = tm.var("mu_dead"), tm.var("Rv")
        live = one_path(ctx, OIL + "_mu_dead_to_live_br", [md, Rv])
        captured = {}
        saved = dict(ctx.engine.opaque)

        def spy(ex, a, kw):
            captured["args"] = a
            return tm.app("mu_live", a)

        ctx.engine.opaque[OIL + "_mu_dead_to_live_br"] = spy
        try:
            pb, c, lo, hi = branches(ctx, MU)
        finally:
            ctx.engine.opaque.clear()
            ctx.engine.opaque.update(saved)
        lo_app = [a for a in tm.apps(lo.value) if a.args[0] == "mu_live"]
        hi_app = [a for a in tm.apps(hi.value) if a.args[0] == "mu_live"]
        if len(lo_app) != 1 or len(hi_app) != 1:
            raise sx.OutOfSubset("viscosity does not go through the dead-to-live correlation once per branch")
        return md, Rv, live, pb, lo, hi, lo_app[0], hi_app[0]

    MDR = (0.2, 6000.0)

    def mu_dead_range():
        md, Rv, live, pb, lo, hi, la, ha = mu_parts()
        mud = la.args[1]
        if ha.args[1] is not mud:
            return be.Verdict(be.REFUTED, "INT", witness={}, detail="the two branches use different dead-oil viscosities")
        bx = {"T": OB["T"], "api": OB["api"]}
        v1 = be.prove_int(tm.sub(mud, tm.rconst(MDR[0])), bx, mode=">0")
        if v1.status != be.PROVED:
            return with_models(v1, lo)
        return with_models(be.prove_int(tm.sub(mud, tm.rconst(MDR[1])), bx, mode="<0"), lo)

    obs.append(Obligation("mu.dead_range", f"dead-oil viscosity lies in [{MDR[0]}, {MDR[1]}] cp on the (T, API) box (range lemma for the cut)", mu_dead_range, [MU], "INT"))

    def mu_falling():
        md, Rv, live, pb, lo, hi, la, ha = mu_parts()
        # below the bubble point the live viscosity is evaluated at Rs(p): the second argument must be the GOR below the bubble point
        rs_lo = branches(ctx, RS)[2].value
        if la.args[2] is not rs_lo:
            v = be.prove_equal_cas(la.args[2], rs_lo, OBP, seed=ctx.seed)
            if v.status != be.PROVED:
                v.detail = "below the bubble point the live-oil viscosity is not evaluated at the solution GOR Rs(p): " + v.detail
                return with_models(v, lo)
        if lo.value is not la:
            return be.Verdict(be.REFUTED, "INT", witness={}, detail="below the bubble point viscosity is not the live-oil correlation itself")
        d = tm.diff(live.value, Rv)
        return with_models(be.prove_int(d, {"mu_dead": MDR, "Rv": (0.5, 2500.0)}, mode="<0", max_boxes=200000), lo, live)

    obs.append(Obligation("mu.falling_below", "d mu_live / dR < 0 for mu_dead in its proved range and 0.5 <= R <= 2500; with dRs/dp > 0 (rs.monotone) viscosity falls with pressure below the bubble point", mu_falling,
                          [MU, OIL + "_mu_dead_to_live_br", RS], "INT", sweep_replay(MU, lambda ps, v, pb: first_bad((__import__("numpy").diff(v) >= 0) & (ps[1:] < pb)), "falling with pressure below p_b")))

    def rs_range():
        pb, c, lo, hi = branches(ctx, RS)
        return with_models(be.prove_int(tm.sub(lo.value, tm.rconst("0.5")), dict(OB, p=(15.0, 30000.0)), mode=">0"), lo)

    obs.append(Obligation("rs.range", "Rs_below(p) > 0.5 scf/bbl for p >= 15 psia (range lemma for mu.falling_below; Rs <= R_si <= 2500 by monotonicity and rs.inverse)", rs_range, [RS], "INT"))

    def mu_positive():
        md, Rv, live, pb, lo, hi, la, ha = mu_parts()
        v = be.prove_int(live.value, {"mu_dead": MDR, "Rv": (0.5, 2500.0)}, mode=">0")
        if v.status != be.PROVED:
            return with_models(v, live)
        # above: mu_live(R_si) * (p/p_b)^m: positive factor
        fac = tm.subst(hi.value, {ha: tm.rconst(1)})
        pbv = tm.var("pbv")
        fac2 = tm.subst(fac, {pb: pbv})
        if any(v_.args[0] not in ("p", "pbv") for v_ in tm.free_vars(fac2)):
            raise sx.OutOfSubset("undersaturated viscosity factor depends on more than p and p_b")
        hyp = tm.land(tm.le(pbv, p), tm.le(p, tm.rconst("2.5") * pbv))
        return with_models(be.prove_int(fac2, {"p": (50.0, 75000.0), "pbv": (50.0, 30000.0)}, mode=">0", hyp=hyp), live, hi)

    obs.append(Obligation("mu.positive", "oil viscosity > 0 on both branches (live-oil correlation positive; undersaturated factor (p/p_b)^m positive)", mu_positive, [MU, OIL + "_mu_dead_to_live_br"], "INT",
                          sweep_replay(MU, lambda ps, v, pb: first_bad(v <= 0), "positive")))

    # ---------------- branch selection
    def same_side():
        pb = pb_term(ctx)
        c = tm.ge(p, pb)
        pbv = tm.var("pbv")
        v = None
        for q in (RS, BO, MU, OIL + "dgor_dpressure_Standing"):
            outs = paths(ctx, q, ARGS)
            if len(outs) == 1:
                # one merged term (a conditional expression): its two specialisations on p >= p_b are the sides
                _, _, lo_, hi_ = branches(ctx, q)
                outs = [lo_, hi_]
            if len(outs) != 2:
                raise sx.OutOfSubset(f"{q.split(':')[1]} has {len(outs)} paths instead of the two sides of the bubble point")
            v = paths_split_on(outs, c, {pb: pbv})
            if v.status != be.PROVED:
                v.detail = f"{q.split(':')[1]}: " + v.detail
                return v
        return v

    def same_side_replay(w):
        import numpy as np
        for q in (RS, BO, MU, OIL + "dgor_dpressure_Standing"):
            r = cont_replay(q)(w) if q != OIL + "dgor_dpressure_Standing" else {"reproduced": False}
            if r.get("reproduced"):
                r["function"] = q
                return r
        c_ = dict(T=200.0, api=35.0, gg=0.8, R=650.0)
        pb = real_pb(c_)
        d = real(OIL + "dgor_dpressure_Standing")(c_["T"], pb, c_["api"], c_["gg"], c_["R"])
        if d != 0:
            return {"reproduced": True, "input": {**c_, "p": float(pb)}, "observed": float(d), "required": 0.0, "function": "dgor_dpressure_Standing at p == p_b"}
        return {"reproduced": False}

    obs.append(Obligation("branch.same_side", "solution GOR, FVF, viscosity and dRs/dp all switch branch exactly on p >= p_b (the same side at p == p_b)", same_side, [RS, BO, MU, OIL + "dgor_dpressure_Standing"], "SMT", same_side_replay))

    # ---------------- the array forms inherit all of the above: element j of the array result is the scalar result
    from . import c11
    c11obs = {o.id: o for o in c11.build(ctx)}
    for fn in ("oil.b_o_Standing", "oil.solution_gor_Standing"):
        for dt in ("float64", "int64"):
            src = c11obs[f"{fn}.elementwise[{dt}]"]
            obs.append(Obligation(f"array.{fn.split('.')[1]}[{dt}]", "array evaluation: " + src.statement + " (so continuity, ordering and branch selection hold element-wise for arrays in any order)", src.run, src.functions, src.backend, src.replay))

    from ..xcheck import array_xcheck, scalar_xcheck
    for q_ in (BO, MU, SPV, PBF):
        an = ["T", "api", "gg", "R"] if q_ == PBF else ["T", "p", "api", "gg", "R"]
        obs.append(scalar_xcheck(ctx, q_, an, OB if q_ == PBF else OBP, hyp_real=(lambda pt, q_=q_: admissible(pt) and (q_ != SPV or pt["p"] >= real_pb(pt)))))
    cases = []
    for dt in ("f8", "f4", "i8", "i4"):
        cases.append((dict(T=200.0, api=35.0, gg=0.8, R=650.0), [500, 1500, 2500, 3500, 6000], dt))
        cases.append((dict(T=150, api=30, gg=0.9, R=400), [4000, 300, 2000], dt))
    for q_ in (BO, RS):
        obs.append(array_xcheck(ctx, q_, ["T", "p", "api", "gg", "R"], "p", cases))

    def canary():
        pb, c, lo, hi = branches(ctx, RS)
        return be.prove_int(tm.sub(tm.diff(lo.value, p), tm.rconst("0.5")), OBP, mode=">0", max_boxes=5000)

    obs.append(Obligation("canary.int", "CANARY (must be refuted): dRs/dp > 0.5 scf/bbl/psi on the whole box", canary, [RS], "INT", expect=be.REFUTED))
    return obs


_POOL = [None]


def _pool():
    return None  # obligations already run in parallel worker processes (daemonic workers cannot fork again)


def bounded(ctx):
    """pandas containers (label alignment) are outside the array model of the executor: bounded family 'container independence'"""
    from ..rt import containers
    return containers.run(['series'])
