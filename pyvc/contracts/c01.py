"""C01  Simulated pseudopressure obeys the maximum principle and the frac-face value.

Induction over the time loop (summarised as a recurrence, C04) with the contracts of _build_matrix / _solve:
  *.inv.init                row 0 lies in [m_f[0], m_i] (ideal: [0, 1]; equal to 1)
  single.step.rhs_consistent   b[0] == m_f[i] (1 + k_0) with k_0 the SAME coefficient the matrix row 0 uses
  *.step.k_nonneg           k_j >= 0 for a non-decreasing time grid and positive diffusivity (C09)
  *.inv.preserve.upper/lower   arg-max / arg-min of the new row: min(L_i, m_f[i]) <= x_j <= m_i
  *.mono_x.preserve         constant schedule: the new row is non-decreasing away from the fracture if the old one is
  *.steady                  a row that reproduces itself under a positive step is the constant m_f (ideal: 0)
  ideal.concave.init/.preserve, ideal.mono_t.step   IdealReservoir: every level is discretely concave ((L u)_j >= 0 for the
                            stencil L of the step matrix I + k L), hence x_j <= u_i[j] at every node, every non-decreasing time grid
SinglePhaseReservoir: non-increasing in time beyond node 0 and (both classes) convergence to the steady state: BOUNDED
run-time contracts (no inductive invariant: the boundary row's right-hand side is indefinite and the diffusivity differs
from row to row, so the matrix does not commute with the stencil); known finding F3 lives there.
"""
from __future__ import annotations

from .. import backends as be
from .. import term as tm
from . import resv
from .common import *  # noqa: F403

LEVEL = "proof"
EXPLANATION = ("the discrete maximum principle, the frac-face consistency of the boundary row, spatial monotonicity and the uniqueness of the steady state are proved by induction over the exact recurrence of the time loop; "
               "each induction step is a quantifier-free SMT obligation after explicit instantiation at a Skolem arg-max / arg-min index. For the ideal reservoir monotonicity in time is proved too (invariant: discrete concavity of every level). Monotonicity in time of the single-phase class and convergence to the steady state are bounded run-time clauses")
TRUSTED = ["a finite non-empty index range has an arg-max / arg-min (used as a Skolem constant J with forall j: x_j <= x_J)", "induction on the step index (base + step => forall i)",
           "contracts of _build_matrix and _solve (C04), FlowProperties.valid() (C09): 0 < min alpha <= alpha(q); m_scaled_func non-decreasing"]
ASSUMPTIONS = ["exact linear solve (C04 carries the solver); time grid non-decreasing; p_f[i] <= p_i inside the table"]

j, J = tm.var("j", tm.I), tm.var("J", tm.I)
ZERO, ONE = tm.rconst(0), tm.rconst(1)
one = tm.const(1)


def bounded_check(clauses):
    def rp_(w):
        import types
        from ..rt import c01 as rt
        r0 = resv.int_grid_replay(w)
        if r0.get("reproduced"):
            return r0
        r_ = rt.run(types.SimpleNamespace(tier="quick", seed=0))
        for v in r_["violations"]:
            if v.get("clause") in clauses and v.get("key") != "mono.time:random-grid:single":
                return {"reproduced": True, "input": v.get("input"), "observed": v.get("observed"), "required": v.get("required"), "clause": v.get("clause")}
        return {"reproduced": False}
    return rp_


def ideal_time_replay(w):
    """real IdealReservoir on time grids whose step size jumps (alternating tiny / large steps, log-normal random steps, a
    geometric grid): beyond the frac-face node no value may rise from one level to the next (the property's clause; the
    obligation also covers node 0).  Falls back on the bounded family's mono.time clause."""
    import warnings
    import numpy as np
    warnings.simplefilter("ignore")
    flow = __import__("bluebonnet.flow", fromlist=["x"])
    grids = {"alternating 1e-6 / 5e-2": np.concatenate([[0.0], np.cumsum(np.tile([1e-6, 5e-2], 30))]), "geometric": np.concatenate([[0.0], np.geomspace(1e-7, 5.0, 60)])}
    for sd in range(4):
        grids[f"lognormal(sigma=3) steps, seed {sd}"] = np.concatenate([[0.0], np.cumsum(np.random.default_rng(sd).lognormal(-6.0, 3.0, 60))])
    for nx_ in (3, 5, 12, 40):
        for name, t in grids.items():
            r = flow.IdealReservoir(nx_, 1000.0, 8000.0)
            r.simulate(t)
            pp = np.asarray(r.pseudopressure, dtype=float)
            d = pp[1:, 1:] - pp[:-1, 1:]
            if not np.isfinite(pp).all() or d.max() > 1e-12:
                a, b_ = np.unravel_index(int(np.nanargmax(d)), d.shape)
                return {"reproduced": True, "input": {"reservoir": "IdealReservoir", "nx": nx_, "time grid": name, "time": [float(x) for x in t]}, "observed": {"pp[i+1, j] - pp[i, j]": float(d[a, b_]), "i": int(a), "j": int(b_) + 1},
                        "required": "pp[i+1, j] <= pp[i, j] + 1e-12 for j >= 1", "clause": "mono.time"}
    return bounded_check(("mono.time",))(w)


def step_facts(S, idxs):
    """instances of the callee contracts at the given row indices: row equation of _solve, definition of K from kt_h2"""
    s_, b_ = S.single()
    K, X = b_["K"], s_["x"]
    out = []
    for q in idxs:
        out.append(tm.implies(resv.inr(q, S.n), tm.eq(s_["A"].row_dot(q, X), s_["b"]((q,)))))
        out.append(tm.implies(resv.inr(q, S.n), tm.eq(K(q), b_["arg_fn"]((q,)))))
    return out, K, X, s_["b"]


def build(ctx):
    obs = []
    for cls in ("SinglePhaseReservoir", "IdealReservoir"):
        tag = "single" if cls == "SinglePhaseReservoir" else "ideal"
        ideal = cls == "IdealReservoir"
        fq = [resv.ISIM if ideal else resv.SSIM, resv.BM, RES + "_solve"]

        def mk(schedule="array", cls=cls, ideal=ideal):
            return resv.Step(ctx, cls, "none" if ideal else schedule)

        def pre(S, ideal=ideal):
            """preconditions: non-decreasing time, p_f[i] <= p_i, hence m_f[i] <= m_i"""
            ti, ti1 = tm.app("t", [S.i]), tm.app("t", [tm.add(S.i, one)])
            h = list(S.o.pc) + [tm.le(ti, ti1), tm.ge(S.n, tm.const(3))]
            return h

        def mf(S, i_):
            return S.M.app(tm.app("pf_sched", [i_]))

        def init(mk=mk, ideal=ideal):
            v = init1(mk, ideal, "array")
            if v.status != be.PROVED or ideal:
                return v
            for sch, intgrid in (("none", False), ("none", True)):
                if intgrid:
                    with resv.int_time():
                        v2 = init1(mk, ideal, sch)
                else:
                    v2 = init1(mk, ideal, sch)
                if v2.status != be.PROVED:
                    v2.detail = f"[scalar frac-face setting{', integer-typed time grid' if intgrid else ''}] " + v2.detail
                    return v2
            return v

        def init1(mk, ideal, sch):
            S = mk(sch) if not ideal else mk()
            row0 = S.pre((tm.const(0), j))
            if ideal:
                goal = tm.implies(resv.inr(j, S.n), tm.eq(row0, ONE))
                return with_models(be.prove_smt(goal, pre(S)), S.o)
            pf0 = tm.app("pf_sched", [tm.const(0)]) if sch == "array" else tm.var("p_f")
            m0 = S.M.app(pf0)
            hyp = pre(S) + resv.mono_facts(S, [pf0, tm.var("p_i")]) + [tm.le(pf0, tm.var("p_i"))]
            goal = tm.implies(resv.inr(j, S.n), tm.land(tm.le(m0, row0), tm.le(row0, S.m_i), tm.implies(tm.eq(j, tm.const(0)), tm.eq(row0, m0))))
            return with_models(be.prove_smt(goal, hyp, want={"j": j}), S.o)

        obs.append(Obligation(f"{tag}.inv.init", f"{cls}: time level 0 lies within [m_f[0], m_i] (frac-face node at m_f[0])" if not ideal else f"{cls}: time level 0 is identically 1", init, fq, "SMT", bounded_check(("bounds.lower", "bounds.upper"))))

        def k_nonneg(mk=mk, ideal=ideal):
            S = mk()
            s_, b_ = S.single()
            kj = b_["arg_fn"]((j,))
            hyp = pre(S) + ([] if ideal else resv.alpha_facts(S, [kj]))
            return with_models(be.prove_smt(tm.implies(resv.inr(j, S.n), tm.ge(kj, ZERO)), hyp, want={"j": j}), S.o)

        obs.append(Obligation(f"{tag}.step.k_nonneg", f"{cls}: kt_h2[j] >= 0 for a non-decreasing time grid (positive scaled diffusivity by C09)", k_nonneg, fq, "SMT", bounded_check(("bounds.lower", "bounds.upper", "finite"))))

        if not ideal:
            def rhs_consistent(mk=mk):
                S = mk()
                facts, K, X, B = step_facts(S, [tm.const(0)])
                m_f = mf(S, S.i)
                goal = tm.eq(B((tm.const(0),)), tm.mul(m_f, tm.add(ONE, K(tm.const(0)))))
                hyp = pre(S) + facts + resv.alpha_facts(S, facts + [goal])
                return with_models(be.prove_smt(goal, hyp, want={"K0": K(tm.const(0)), "b0": B((tm.const(0),)), "m_f": m_f}), S.o)

            obs.append(Obligation("single.step.rhs_consistent", "SinglePhaseReservoir: right-hand side of the frac-face row b[0] == m_f[i] (1 + k_0) with k_0 the coefficient the matrix row 0 itself uses", rhs_consistent, fq, "SMT",
                                  bounded_check(("bounds.lower", "steady"))))

        def preserve(which, mk=mk, ideal=ideal):
            def run():
                S = mk()
                idx = [J, tm.sub(J, one), tm.add(J, one), tm.const(0)]
                facts, K, X, B = step_facts(S, idx)
                n_ = S.n
                prev = lambda c: S.PP(S.i, c)
                hyp = pre(S) + facts + [resv.inr(J, n_)]
                # K >= 0 (lemma k_nonneg) at the rows used
                hyp += [tm.implies(resv.inr(q, n_), tm.ge(K(q), ZERO)) for q in idx]
                if ideal:
                    lo, hi = ZERO, ONE
                    hyp += [tm.implies(resv.inr(q, n_), tm.land(tm.le(lo, prev(q)), tm.le(prev(q), hi))) for q in idx]  # induction hypothesis on row i
                else:
                    m_f = mf(S, S.i)
                    Lprev = tm.var("L_prev")  # lowest frac-face value applied so far (before this step)
                    lo, hi = tm.minimum(Lprev, m_f), S.m_i
                    hyp += [tm.implies(resv.inr(q, n_), tm.land(tm.le(Lprev, prev(q)), tm.le(prev(q), S.m_i))) for q in idx]
                    hyp += [tm.le(m_f, S.m_i), tm.le(Lprev, S.m_i)]
                    hyp += [tm.eq(B((tm.const(0),)), tm.mul(m_f, tm.add(ONE, K(tm.const(0)))))]  # lemma rhs_consistent
                if which == "upper":
                    hyp += [tm.implies(resv.inr(q, n_), tm.le(X((q,)), X((J,)))) for q in (tm.sub(J, one), tm.add(J, one))]  # J is an arg-max
                    goal = tm.le(X((J,)), hi)
                else:
                    hyp += [tm.implies(resv.inr(q, n_), tm.ge(X((q,)), X((J,)))) for q in (tm.sub(J, one), tm.add(J, one))]  # J is an arg-min
                    goal = tm.ge(X((J,)), lo)
                v = be.prove_smt(goal, hyp, timeout_ms=30000, want={"J": J, "n": n_, "x_J": X((J,))})
                return with_models(v, S.o)
            return run

        for which in ("upper", "lower"):
            obs.append(Obligation(f"{tag}.inv.preserve.{which}", f"{cls}: if row i lies within the bounds, the {'largest' if which == 'upper' else 'smallest'} entry of row i+1 does too ({'x_J <= m_i' if which == 'upper' else 'x_J >= min(lowest m_f so far, m_f[i])'}" + (" / [0, 1] for the ideal reservoir)" if ideal else ")"),
                                  preserve(which), fq, "SMT", bounded_check(("bounds." + which,))))

        def mono_x(mk=mk, ideal=ideal):
            S = mk("none") if not ideal else mk()
            m = tm.var("m", tm.I)  # arg-min of the differences d_q = x[q+1] - x[q], 0 <= m <= n-2
            idx = [m, tm.add(m, one), tm.sub(m, one), tm.add(m, tm.const(2)), tm.const(0)]
            facts, K, X, B = step_facts(S, idx)
            n_ = S.n
            prev = lambda c: S.PP(S.i, c)
            d = lambda q: tm.sub(X((tm.add(q, one),)), X((q,)))
            hyp = pre(S) + facts + [tm.le(tm.const(0), m), tm.le(m, tm.sub(n_, tm.const(2)))]
            hyp += [tm.implies(resv.inr(q, n_), tm.ge(K(q), ZERO)) for q in idx]
            # induction hypothesis: row i non-decreasing in j (from node 1 on; node 0 enters through the boundary row)
            hyp += [tm.implies(tm.land(tm.le(tm.const(1), q), tm.lt(tm.add(q, one), n_)), tm.le(prev(q), prev(tm.add(q, one)))) for q in (m, tm.sub(m, one), tm.add(m, one))]
            if ideal:
                hyp += [tm.implies(resv.inr(q, n_), tm.ge(prev(q), ZERO)) for q in idx]
                hyp += [tm.implies(tm.land(tm.le(tm.const(0), q), tm.lt(tm.add(q, one), n_)), tm.le(prev(q), prev(tm.add(q, one)))) for q in (m, tm.const(0))]
                # lower bound of the new row (lemma preserve.lower): needed at the first pair
                hyp += [tm.ge(X((tm.const(0),)), ZERO)]
            else:
                m_f = S.M.app(tm.var("p_f"))
                hyp += [tm.eq(B((tm.const(0),)), tm.mul(m_f, tm.add(ONE, K(tm.const(0)))))]
                hyp += [tm.implies(tm.land(tm.le(tm.const(1), q), tm.lt(q, n_)), tm.land(tm.ge(prev(q), m_f), tm.le(prev(q), S.m_i))) for q in idx]  # bounds on row i (constant schedule: L = m_f)
                hyp += [tm.le(m_f, S.m_i)]
            hyp += [tm.implies(tm.land(tm.le(tm.const(0), q), tm.le(q, tm.sub(n_, tm.const(2)))), tm.ge(d(q), d(m))) for q in (tm.sub(m, one), tm.add(m, one))]  # m is an arg-min of d
            v = be.prove_smt(tm.ge(d(m), ZERO), hyp, timeout_ms=60000, want={"m": m, "n": n_})
            return with_models(v, S.o)

        obs.append(Obligation(f"{tag}.mono_x.preserve", f"{cls}, constant drawdown: if row i is non-decreasing away from the fracture (and within bounds), so is row i+1 (arg-min of the differences; cases first pair / interior / last pair)", mono_x, fq, "SMT", bounded_check(("mono.space",))))

        if ideal:
            # ---- non-increasing in time, all nodes, every non-decreasing time grid (ideal reservoir: constant diffusivity, so the
            # matrix is I + k L with one k for all rows and commutes with the stencil L).  Invariant: every level is discretely
            # concave, (L u)_j >= 0 with L the rows (2,-1) / (-1,2,-1) / (-1,1).  v = L x satisfies (I + k L) v = L prev >= 0, so
            # its arg-min is non-negative (same arg-min argument as the lower bound); then prev_j - x_j = k v_j >= 0.
            def lap(f, q, n_):
                last = tm.sub(n_, one)
                two = tm.rconst(2)
                return tm.ite(tm.eq(q, tm.const(0)), tm.sub(tm.mul(two, f(q)), f(tm.add(q, one))),
                              tm.ite(tm.eq(q, last), tm.sub(f(q), f(tm.sub(q, one))),
                                     tm.sub(tm.sub(tm.mul(two, f(q)), f(tm.sub(q, one))), f(tm.add(q, one)))))

            def concave_init(mk=mk):
                S = mk()
                row0 = lambda q: S.pre((tm.const(0), q))
                goal = tm.implies(resv.inr(j, S.n), tm.ge(lap(row0, j, S.n), ZERO))
                return with_models(be.prove_smt(goal, pre(S), want={"j": j}), S.o)

            obs.append(Obligation("ideal.concave.init", "IdealReservoir: time level 0 is discretely concave: (L u)_j >= 0 at every node for the stencil rows (2,-1) / (-1,2,-1) / (-1,1) of the step matrix I + k L", concave_init, fq, "SMT", ideal_time_replay))

            def concave_preserve(mk=mk, canary=False):
                S = mk()
                idx = [J, tm.sub(J, one), tm.add(J, one), tm.sub(J, tm.const(2)), tm.add(J, tm.const(2))]
                facts, K, X, B = step_facts(S, idx)
                n_ = S.n
                prev = lambda c: S.PP(S.i, c)
                V = lambda q: lap(lambda c: X((c,)), q, n_)
                hyp = pre(S) + facts + [resv.inr(J, n_)]
                hyp += [tm.implies(resv.inr(q, n_), tm.ge(K(q), ZERO)) for q in idx]          # lemma k_nonneg
                if not canary:
                    hyp += [tm.ge(lap(prev, J, n_), ZERO)]                                       # induction hypothesis, needed at row J only
                hyp += [tm.implies(resv.inr(q, n_), tm.ge(V(q), V(J))) for q in (tm.sub(J, one), tm.add(J, one))]  # J is an arg-min of v = L x
                v = be.prove_smt(tm.ge(V(J), ZERO), hyp, timeout_ms=60000, want={"J": J, "n": n_})
                return with_models(v, S.o)

            obs.append(Obligation("ideal.concave.preserve", "IdealReservoir: if level i is discretely concave, so is level i+1 (v = L x solves (I + k L) v = L u_i >= 0 because one mesh number serves all rows; the smallest v_J is >= 0), for every step size", concave_preserve, fq, "SMT", ideal_time_replay))
            obs.append(Obligation("canary.concave", "CANARY (must be refuted): concavity of level i+1 without the induction hypothesis", lambda: concave_preserve(canary=True), fq, "SMT", expect=be.REFUTED))

            def mono_t(mk=mk):
                S = mk()
                facts, K, X, B = step_facts(S, [j])
                n_ = S.n
                V = lambda q: lap(lambda c: X((c,)), q, n_)
                hyp = pre(S) + facts + [resv.inr(j, n_), tm.ge(K(j), ZERO), tm.ge(V(j), ZERO)]  # lemmas k_nonneg, concave.preserve
                v = be.prove_smt(tm.le(X((j,)), S.PP(S.i, j)), hyp, timeout_ms=30000, want={"j": j, "n": n_})
                return with_models(v, S.o)

            obs.append(Obligation("ideal.mono_t.step", "IdealReservoir: x_j <= u_i[j] at EVERY node (row equation: u_i[j] - x_j = k (L x)_j with k >= 0 and level i+1 concave): the field is non-increasing in time on every non-decreasing time grid", mono_t, fq, "SMT", ideal_time_replay))

        def steady(mk=mk, ideal=ideal):
            S = mk("none") if not ideal else mk()
            r_ = tm.var("r", tm.I)
            idx = [r_, tm.sub(r_, one), tm.add(r_, one), tm.const(0)]
            facts, K, X, B = step_facts(S, idx)
            n_ = S.n
            prev = lambda c: S.PP(S.i, c)
            hyp = pre(S) + facts + [resv.inr(r_, n_), tm.ge(n_, tm.const(3))]
            hyp += [tm.implies(resv.inr(q, n_), tm.gt(K(q), ZERO)) for q in idx]          # a positive step
            hyp += [tm.implies(resv.inr(q, n_), tm.eq(X((q,)), prev(q))) for q in idx]     # the row reproduces itself
            if not ideal:
                m_f = S.M.app(tm.var("p_f"))
                hyp += [tm.eq(B((tm.const(0),)), tm.mul(m_f, tm.add(ONE, K(tm.const(0)))))]
                hyp += [tm.implies(resv.inr(q, n_), tm.le(prev(q), S.m_i)) for q in idx]  # bounds on row i
                target = m_f
            else:
                target = ZERO
            # step of the downward induction: x[r+1] == x[r] (or r is the last node) => x[r] == x[r-1]; at r == 0: x[0] == target
            flat_above = tm.implies(tm.lt(tm.add(r_, one), n_), tm.eq(X((tm.add(r_, one),)), X((r_,))))
            goal = tm.land(tm.implies(tm.ge(r_, one), tm.eq(X((r_,)), X((tm.sub(r_, one),)))), tm.implies(tm.eq(r_, tm.const(0)), tm.eq(X((r_,)), target)))
            v = be.prove_smt(goal, hyp + [flat_above], timeout_ms=60000, want={"r": r_, "n": n_})
            return with_models(v, S.o)

        obs.append(Obligation(f"{tag}.steady", f"{cls}: a level that reproduces itself under a positive step is flat (downward induction from the no-flow row) and equals " + ("0" if ideal else "m_f") + " (frac-face row): the only steady state, whatever the step size", steady, fq, "SMT", bounded_check(("steady",))))

    obs += resv.dependency_obligations(ctx)

    def canary():
        S = resv.Step(ctx, "SinglePhaseReservoir", "array")
        idx = [J, tm.sub(J, one), tm.add(J, one), tm.const(0)]
        facts, K, X, B = step_facts(S, idx)
        hyp = list(S.o.pc) + facts + [resv.inr(J, S.n), tm.ge(S.n, tm.const(3))] + [tm.implies(resv.inr(q, S.n), tm.ge(K(q), ZERO)) for q in idx]
        hyp += [tm.implies(resv.inr(q, S.n), tm.le(S.PP(S.i, q), S.m_i)) for q in idx]
        hyp += [tm.implies(resv.inr(q, S.n), tm.le(X((q,)), X((J,)))) for q in (tm.sub(J, one), tm.add(J, one))]
        return be.prove_smt(tm.le(X((J,)), S.m_i), hyp, timeout_ms=20000)  # without m_f <= m_i and the consistent boundary row this must fail

    obs.append(Obligation("canary.smt", "CANARY (must be refuted): the upper bound without the frac-face lemma and m_f <= m_i", canary, [resv.SSIM], "SMT", expect=be.REFUTED))
    if ctx.tier == "thorough":
        obs.append(lean_obligation(ctx, ['pyvc_exists_argmax', 'pyvc_exists_argmin', 'pyvc_interior_row']))
    return obs


def bounded(ctx):
    from ..rt import c01 as rt
    return rt.run(ctx)
