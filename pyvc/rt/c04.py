"""C04 bounded clauses: every stored level is the backward-Euler update of the previous one, checked at run time on
the REAL `simulate` methods, step by step, against a system rebuilt here from scratch (plain numpy on the three
bands; the library's `_build_matrix` / `_solve` are not called).

Rebuilt step i -> i+1 (x = pseudopressure[i+1], dt = time[i+1] - time[i]):
  b   = pseudopressure[i]              (SinglePhaseReservoir: b_0 = m_f[i], the value the frac-face node is reset to;
                                        no clip to m_i: under C01's bound it is the identity)
  k_j = dt / DX2 * reservoir.alpha_scaled(b)_j
  DX2 = (1/(nx-1))**2 for IdealReservoir (x = linspace(0, 1, nx)),  (1/nx)**2 for SinglePhaseReservoir
  interior rows 1..n-2:  -k_j x_{j-1} + (1 + 2 k_j) x_j - k_j x_{j+1} = b_j
  no-flow row n-1:       (1 + k_{n-1}) x_{n-1} - k_{n-1} x_{n-2}      = b_{n-1}

Clauses
  step.interior       |(A x - b)_j| <= tol_j for j = 1..n-2, every step
  step.noflow         |(A x - b)_{n-1}| <= tol_{n-1}, every step
      tol_j = 1e-10 * max(1, ||b||_inf) + 16 eps (|b_j| + (1 + 4 k_j) max(|x_{j-1}|, |x_j|, |x_{j+1}|));
      the second term is the rounding error of evaluating the row in double precision (it is what a correctly
      rounded exact solution would show); it matters only for mesh numbers k > 1e4.  Since ||A^-1||_inf <= 1 the
      residual bounds the error the solve adds to the level.
  step.mesh_constant  one per run: the mesh constant recovered from each step by least squares,
      DX2_i = dt_i * <g, g> / <x - b, g>,  g_j = alpha_scaled(b)_j * (second difference of x, mirror at the last node),
      equals the documented DX2 for every informative step (dt_i > 0, max|x - b| >= 1e-3 (m_i - min m_f), c_i <= 1e-7):
      |DX2_i / DX2 - 1| <= 1e-8 + 10 c_i,  c_i = eps (1 + 4 max k) max|x| / max|x - b|  (error propagation of the estimate)

Family: node counts {3, 10, 80, 400}; non-uniform grids {quadratic, geometric, seeded random} and the 20 x 50 grid;
both reservoir classes; constant, stepwise decreasing and seeded random schedules (quick: 2 tables, 2 pressure ratios,
40 steps; thorough: 4 tables, 4 ratios, 200 steps).
"""
from __future__ import annotations

import itertools

import numpy as np

from .c01 import P_INITIAL, build_run, feed, row_order_runs, table_params
from .common import Bounded

EPS = float(np.finfo(float).eps)
EPS_REL = 1e-10
NXS = (3, 10, 80, 400)


def nominal_dx2(reservoir, nx):
    return (1.0 / (nx - 1)) ** 2 if reservoir == "ideal" else (1.0 / nx) ** 2


def step_residuals(inp, dx2=None):
    """-> dict with per-step arrays: worst interior excess / no-flow excess (residual / tolerance), estimates of DX2."""
    res, m_f, m_i, t = build_run(inp)
    pp = np.asarray(res.pseudopressure, dtype=float)
    t = np.asarray(res.time, dtype=float)  # the grid the object carries
    nx = int(inp["nx"])
    ideal = inp["reservoir"] == "ideal"
    dx2 = nominal_dx2(inp["reservoir"], nx) if dx2 is None else dx2
    prev = pp[:-1].copy()
    new = pp[1:]
    if not ideal:
        prev[:, 0] = m_f[:-1]
    alpha = np.asarray(res.alpha_scaled(prev), dtype=float)
    dt = np.diff(t)
    k = (dt / dx2)[:, None] * alpha
    bnorm = np.maximum(1.0, np.abs(prev).max(axis=1))
    # interior rows 1..n-2 (none when nx == 2)
    ki = k[:, 1:-1]
    r_int = -ki * new[:, :-2] + (1.0 + 2.0 * ki) * new[:, 1:-1] - ki * new[:, 2:] - prev[:, 1:-1]
    xmax = np.maximum(np.maximum(np.abs(new[:, :-2]), np.abs(new[:, 1:-1])), np.abs(new[:, 2:]))
    tol_int = EPS_REL * bnorm[:, None] + 16 * EPS * (np.abs(prev[:, 1:-1]) + (1.0 + 4.0 * ki) * xmax)
    kn = k[:, -1]
    r_nf = (1.0 + kn) * new[:, -1] - kn * new[:, -2] - prev[:, -1]
    tol_nf = EPS_REL * bnorm + 16 * EPS * (np.abs(prev[:, -1]) + (1.0 + 4.0 * kn) * np.maximum(np.abs(new[:, -1]), np.abs(new[:, -2])))
    # least-squares estimate of the mesh constant, step by step
    y = (new - prev)[:, 1:]
    d2 = np.empty_like(y)
    d2[:, :-1] = new[:, :-2] - 2.0 * new[:, 1:-1] + new[:, 2:]
    d2[:, -1] = new[:, -2] - new[:, -1]
    g = alpha[:, 1:] * d2
    draw = m_i - float(m_f.min())
    with np.errstate(all="ignore"):
        est = dt * (g * g).sum(axis=1) / (y * g).sum(axis=1)
        cond = EPS * (1.0 + 4.0 * k.max(axis=1)) * np.abs(new).max(axis=1) / np.abs(y).max(axis=1)
    usable = (dt > 0) & (np.abs(y).max(axis=1) >= 1e-3 * draw) & np.isfinite(est) & (cond <= 1e-7)
    return {"r_int": r_int, "tol_int": tol_int, "r_nf": r_nf, "tol_nf": tol_nf, "est": est, "cond": cond, "usable": usable, "dx2": dx2, "k": k, "dt": dt, "bnorm": bnorm}


def evaluate(inp):
    """-> list of (clause, step or None, ok, observed, required)."""
    out = []
    try:
        s = step_residuals(inp)
    except Exception as e:
        return [("step.interior", None, False, "simulate / rebuild raised %s: %s" % (type(e).__name__, e), "a result")]
    nsteps = len(s["dt"])
    finite = np.isfinite(s["r_nf"]) & (np.isfinite(s["r_int"]).all(axis=1) if s["r_int"].shape[1] else True)
    for i in range(nsteps):
        if s["r_int"].shape[1]:
            ratio = np.abs(s["r_int"][i]) / s["tol_int"][i]
            j = int(np.argmax(ratio))
            ok = bool(finite[i] and ratio[j] <= 1.0)
            out.append(("step.interior", i, ok, {"row": j + 1, "residual": float(s["r_int"][i, j]), "tolerance": float(s["tol_int"][i, j]), "k_row": float(s["k"][i, j + 1]), "dt": float(s["dt"][i])},
                        "|(A x - b)_j| <= 1e-10*max(1,||b||_inf) + 16 eps (|b_j| + (1+4k_j) max|x|), rows 1..n-2"))
        ok = bool(finite[i] and abs(s["r_nf"][i]) <= s["tol_nf"][i])
        out.append(("step.noflow", i, ok, {"residual": float(s["r_nf"][i]), "tolerance": float(s["tol_nf"][i]), "k_row": float(s["k"][i, -1]), "dt": float(s["dt"][i])},
                    "|(1+k) x[n-1] - k x[n-2] - b[n-1]| <= 1e-10*max(1,||b||_inf) + 16 eps (|b| + (1+4k) max|x|)"))
    u = np.nonzero(s["usable"])[0]
    if len(u):
        dev = np.abs(s["est"][u] / s["dx2"] - 1.0)
        lim = 1e-8 + 10.0 * s["cond"][u]
        w = int(np.argmax(dev / lim))
        out.append(("step.mesh_constant", None, bool((dev <= lim).all()),
                    {"informative_steps": int(len(u)), "worst_step": int(u[w]), "DX2_estimated": float(s["est"][u[w]]), "DX2_documented": float(s["dx2"]), "relative_deviation": float(dev[w]), "limit": float(lim[w]),
                     "spread_of_estimates": float(s["est"][u].max() / s["est"][u].min() - 1.0)},
                    "the documented DX2 (ideal (1/(nx-1))^2, single-phase (1/nx)^2) reproduces every informative step: |DX2_i/DX2 - 1| <= 1e-8 + 10 c_i"))
    return out


def family(tier, seed):
    quick = tier == "quick"
    tables = ("gas", "syn_kinked") if quick else ("gas", "haynesville", "syn_rising", "syn_kinked")
    ratios = (0.5, 0.9875) if quick else (0.0125, 0.5, 0.9875, 0.999)
    grids = ("quadratic", "geometric", "random", "big50")
    nt = 40 if quick else 200
    runs = []
    for n, (table, ratio, nx, grid, sched) in enumerate(itertools.product(tables, ratios, NXS, grids, ("constant", "stepdown", "random"))):
        if quick and grid == "big50" and sched != "constant":
            continue
        p_i = P_INITIAL[table]
        runs.append({"reservoir": "single", "table": table, "table_params": table_params(table), "p_i": p_i, "p_f": ratio * p_i, "ratio": ratio, "nx": nx,
                     "grid": {"kind": grid, "nt": nt, "t_end": 5.0, "seed": seed * 100003 + n}, "schedule": {"kind": sched, "seed": seed * 100019 + n, "levels": 4, "hold": 3}})
    for res_, tab_ in (("ideal", "ideal"), ("single", "gas")):
        runs.append({"reservoir": res_, "table": tab_, "table_params": (None if tab_ == "ideal" else table_params(tab_)), "p_i": 8000.0, "p_f": 4000.0, "ratio": 0.5, "nx": 10,
                     "grid": {"kind": "tinysteps"}, "schedule": {"kind": "constant"}})
    runs += row_order_runs(seed)
    for res_, tab_, sched in (("ideal", "ideal", "constant"), ("single", "gas", "constant"), ("single", "syn_kinked", "stepdown")):
        runs.append({"reservoir": res_, "table": tab_, "table_params": (None if tab_ == "ideal" else table_params(tab_)), "p_i": 8000.0, "p_f": 4000.0, "ratio": 0.5, "nx": 30,
                     "grid": {"kind": "offset"}, "schedule": {"kind": sched, "seed": seed, "levels": 4, "hold": 3}})
    for n, (nx, grid) in enumerate(itertools.product(NXS, grids)):
        runs.append({"reservoir": "ideal", "table": "ideal", "table_params": None, "p_i": 8000.0, "p_f": 4000.0, "ratio": 0.5, "nx": nx,
                     "grid": {"kind": grid, "nt": nt, "t_end": 5.0, "seed": seed * 100043 + n}, "schedule": {"kind": "constant"}})
    return runs


def run(ctx):
    runs = family(ctx.tier, ctx.seed)
    B = Bounded("every step of %d real simulate() runs (both reservoir classes; nx in %s; grids quadratic / geometric / seeded random / 20x50; schedules constant / stepwise decreasing / seeded random); "
                "system rebuilt independently with numpy; residual tolerance 1e-10*max(1,||b||_inf) + 16 eps * row magnitude; mesh constant per step within 1e-8 + 10 c_i" % (len(runs), list(NXS)))
    records = []
    for inp in runs:
        rk = (inp["table"], inp["ratio"], inp["nx"], inp["grid"]["kind"], inp["schedule"]["kind"])
        for clause, step, ok, observed, required in evaluate(inp):
            records.append((clause, rk + (step,), ok, {"input": dict(inp, clause=clause, step=step), "observed": observed, "required": required}))
    feed(B, records, priority=("step.mesh_constant", "step.noflow", "step.interior"))
    r = B.result()
    r["runs"] = len(runs)
    r["steps"] = sum(1 for x in records if x[0] == "step.noflow")
    r["failed_per_clause"] = {c: sum(1 for x in records if x[0] == c and not x[2]) for c in sorted({x[0] for x in records if not x[2]})}
    r["tolerances"] = {"residual": "1e-10*max(1,||b||_inf) + 16*eps*(|b_j| + (1+4k_j)*max|x|)", "mesh_constant": "1e-8 + 10*eps*(1+4 max k)*max|x|/max|x-b| on steps with max|x-b| >= 1e-3 drawdown"}
    return r


def replay(case):
    inp = case.get("input", case)
    clause = inp.get("clause") or case.get("clause")
    step = inp.get("step")
    hits = [(c, s, ok, obs, req) for c, s, ok, obs, req in evaluate(inp) if c == clause and (step is None or s == step or s is None)]
    if not hits:
        return {"reproduced": False, "reason": "clause %r / step %r not produced by this run" % (clause, step)}
    c, s, ok, obs, req = hits[0]
    return {"reproduced": not ok, "clause": c, "step": s, "observed": obs, "required": req}
