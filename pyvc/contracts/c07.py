"""C07  Density, formation volume factor and compressibility are mutually consistent.

Lemmas over the transparent definitions of gas.py / oil.py / water.py with Z an opaque symbol
(z_factor_DAK is a method; its postcondition is C06):
  gas.density_form    density_DAK == p M / (Z R (T + 459.67)),  M = 28.964 gamma
  gas.rho_bg_const    density_DAK * b_factor_DAK has no dependence on p or Z (standard-condition mass content)
  cg.published        compressibility_DAK == d ln(rho)/dp by implicit differentiation of the published DAK equation
  cg.implicit         compressibility_DAK == d ln(rho)/dp for the equation z_factor_DAK actually solves  (known finding F2)
  gas.viscosity_*     viscosity positive, increasing in density (hence in pressure by C06's monotonicity lemma)
  oil.rho_bo.*        density_Standing * b_o_Standing == 62.37 gamma_o + 0.0136 gamma_g Rs(p)   (both sides of p_b)
  water.rho_bw        density_water_McCain * b_water_McCain == 62.368 + 0.438603 S + 1.60074e-3 S^2
"""
from __future__ import annotations

from .. import backends as be
from .. import term as tm
from . import c06
from .common import *  # noqa: F403

LEVEL = "other"
EXPLANATION = ("all clauses are identities / sign conditions over terms extracted from the real source, proved by CAS and INT for the whole box; "
               "cg.implicit (compressibility is the log-derivative of the density the library itself returns) fails in the first density coefficient: known finding F2, same root cause as F1, "
               "not counted as discharged; every other term of the derivative is proved against the published equation (cg.published), so another defect is not masked")
TRUSTED = ["sympy normal forms and pyvc.term.diff (re-checked numerically at 50 digits each run)",
           "Z within (0.05, 5) and rho_r strictly increasing in p_r: postconditions of z_factor_DAK proved under C06 (dak.bracket.*, dak.strictly_increasing)"]
ASSUMPTIONS = ["z_factor_DAK is an opaque function symbol here; only its C06 postconditions are used"]

T, p, Tpc, Ppc, g, Tstd, pstd, api, gg, R, S, u = sym_args(["T", "p", "Tpc", "Ppc", "g", "Tstd", "pstd", "api", "gg", "R", "S", "u"])
ZAPP = tm.app("Z_DAK", [T, p, Tpc, Ppc])
GASB = dict(GAS_BOX, Tstd=(59.0, 61.0), pstd=(14.6, 14.8))
r459 = tm.rconst("459.67")


def setup(ctx):
    ctx.engine.opaque[GAS + "z_factor_DAK"] = lambda ex, a, kw: tm.app("Z_DAK", a)


def zreal(pt):
    return real(GAS + "z_factor_DAK")(pt["T"], pt["p"], pt["Tpc"], pt["Ppc"])


def gas_hyp(pt):
    tr_ = (pt["T"] + 459.67) / (pt["Tpc"] + 459.67)
    return 1.05 <= tr_ <= 3.0 and 0 < pt["p"] / pt["Ppc"] <= 30


def build(ctx):
    setup(ctx)
    obs = []

    # ---------------- gas density / FVF
    def density_form():
        o = one_path(ctx, GAS + "density_DAK", [T, p, Tpc, Ppc, g])
        spec = p * (tm.rconst("28.964") * g) / (ZAPP * tm.rconst("10.73159") * (T + r459))
        return o.value, spec, None, o

    def density_real(pt):
        return real(GAS + "density_DAK")(pt["T"], pt["p"], pt["Tpc"], pt["Ppc"], pt["g"]), pt["p"] * 28.964 * pt["g"] / (zreal(pt) * 10.73159 * (pt["T"] + 459.67))

    obs.append(cas_ob(ctx, "gas.density_form", "density_DAK == p * 28.964 * gamma / (Z * 10.73159 * (T + 459.67)) with Z = z_factor_DAK(T, p, T_pc, p_pc)", density_form, GASB,
                      [GAS + "density_DAK"], density_real, tol=1e-10, hyp_real=gas_hyp))

    def rho_bg():
        d = one_path(ctx, GAS + "density_DAK", [T, p, Tpc, Ppc, g])
        b = one_path(ctx, GAS + "b_factor_DAK", [T, p, Tpc, Ppc, Tstd, pstd])
        spec = tm.rconst("28.964") * g * pstd / (tm.rconst("10.73159") * (Tstd + r459) * tm.rconst("5.615"))
        return d.value * b.value, spec, None, d, b

    def rho_bg_real(pt):
        d = real(GAS + "density_DAK")(pt["T"], pt["p"], pt["Tpc"], pt["Ppc"], pt["g"])
        b = real(GAS + "b_factor_DAK")(pt["T"], pt["p"], pt["Tpc"], pt["Ppc"], pt["Tstd"], pt["pstd"])
        return d * b, 28.964 * pt["g"] * pt["pstd"] / (10.73159 * (pt["Tstd"] + 459.67) * 5.615)

    def bg_defaults():
        a = one_path(ctx, GAS + "b_factor_DAK", [T, p, Tpc, Ppc])
        b = one_path(ctx, GAS + "b_factor_DAK", [T, p, Tpc, Ppc, tm.rconst(60), tm.rconst("14.7")])
        return a.value, b.value, None, a, b

    def bg_defaults_real(pt):
        f = real(GAS + "b_factor_DAK")
        return f(pt["T"], pt["p"], pt["Tpc"], pt["Ppc"]), f(pt["T"], pt["p"], pt["Tpc"], pt["Ppc"], 60.0, 14.7)

    obs.append(cas_ob(ctx, "gas.bg_defaults", "b_factor_DAK with the standard conditions omitted is b_factor_DAK at the library's standard conditions 60 F / 14.7 psia (the conditions every default in gas.py and oil.py names)", bg_defaults,
                      {k_: v_ for k_, v_ in GASB.items() if k_ not in ("Tstd", "pstd")}, [GAS + "b_factor_DAK"], bg_defaults_real, tol=1e-13, hyp_real=gas_hyp))

    obs.append(cas_ob(ctx, "gas.rho_bg_const", "density_DAK * b_factor_DAK == 28.964 gamma p_std / (10.73159 (T_std + 459.67) 5.615): independent of p and Z (same Z in both)", rho_bg, GASB,
                      [GAS + "density_DAK", GAS + "b_factor_DAK"], rho_bg_real, tol=1e-10, hyp_real=gas_hyp))

    def same_z():
        outs = [one_path(ctx, GAS + "density_DAK", [T, p, Tpc, Ppc, g]), one_path(ctx, GAS + "b_factor_DAK", [T, p, Tpc, Ppc, Tstd, pstd]),
                one_path(ctx, GAS + "compressibility_DAK", [T, p, Tpc, Ppc]), one_path(ctx, GAS + "viscosity_Sutton", [T, p, Tpc, Ppc, g])]
        for o in outs:
            zs = [a for a in tm.apps(o.value) if a.args[0] == "Z_DAK"]
            if not zs or any(a is not ZAPP for a in zs):
                return be.Verdict(be.REFUTED, "STRUCT", witness={}, detail=f"a gas correlation evaluates the Z-factor at other arguments than its own (T, p, T_pc, p_pc): {[str(a) for a in zs]}")
        return with_models(be.Verdict(be.PROVED, "STRUCT", detail="every Z occurrence is Z_DAK(T, p, Tpc, Ppc)"), *outs)

    obs.append(Obligation("gas.same_z", "density, FVF, compressibility and viscosity all use z_factor_DAK at exactly their own (T, p, T_pc, p_pc)", same_z,
                          [GAS + "density_DAK", GAS + "b_factor_DAK", GAS + "compressibility_DAK", GAS + "viscosity_Sutton"], "STRUCT"))

    def pure():
        ctx.engine.opaque.pop(GAS + "z_factor_DAK", None)
        try:
            bad = []
            for q, a in ((GAS + "density_DAK", [T, p, Tpc, Ppc, g]), (GAS + "b_factor_DAK", [T, p, Tpc, Ppc]), (GAS + "viscosity_Sutton", [T, p, Tpc, Ppc, g]), (GAS + "compressibility_DAK", [T, p, Tpc, Ppc])):
                for o in paths(ctx, q, a):
                    bad += [(q, w) for w in o.heap["ghost"].get("global_writes", [])]
        finally:
            setup(ctx)
        if bad:
            return be.Verdict(be.REFUTED, "FRAME", witness={}, detail=f"writes to module-level state: {sorted(set(bad))}; results are not functions of the arguments alone")
        return be.Verdict(be.PROVED, "FRAME", detail="no store into objects that outlive the call")

    def pure_replay(w):
        import importlib
        gas = importlib.import_module("bluebonnet.fluids.gas")
        gases = [(-102.2, 648.5, 0.60), (-50.0, 640.0, 0.95)]
        pts = [(180.0, 250.0), (180.0, 2500.0), (180.0, 6500.0)]
        seq = [(T_, p_, a, b, c) for (a, b, c) in gases for (T_, p_) in pts]
        first = [gas.density_DAK(*s) for s in seq]
        gas2 = importlib.reload(gas)
        second = [gas2.density_DAK(*s) for s in reversed(seq)][::-1]
        bad = [(seq[i], first[i], second[i]) for i in range(len(seq)) if abs(first[i] - second[i]) > 1e-12 * abs(second[i])]
        return {"reproduced": bool(bad), "input": {"sequence": seq}, "observed": bad[:3], "required": "the same density whatever was evaluated before"}

    obs.append(Obligation("gas.pure", "the gas correlations read and write no state that outlives the call", pure, [GAS + "density_DAK", GAS + "b_factor_DAK", GAS + "viscosity_Sutton", GAS + "compressibility_DAK"], "FRAME", pure_replay))

    # ---------------- gas compressibility (in reduced variables; cg.reduced ties them to the arguments)
    trv, prv, rhov = c06.tr, c06.pr, c06.rho
    zv = tm.var("z")
    rho_t = tm.rconst("0.27") * prv / (trv * zv)
    RB = {"tr": (1.05, 3.0), "pr": (0.01, 30.0), "z": (0.05, 5.0)}

    def cg_reduced_term():
        ctx.engine.opaque[GAS + "z_factor_DAK"] = lambda ex, a, kw: zv
        try:
            return one_path(ctx, GAS + "compressibility_DAK", [trv * r459 - r459, prv, tm.rconst(0), tm.rconst(1)])
        finally:
            setup(ctx)

    def spec_c(zeos):
        """d ln(rho)/dp_r from rho_r = 0.27 p_r/(T_r Z), Z = zeos(rho_r, T_r): (1/p_r) / (1 + rho_r zeos'(rho_r)/Z)"""
        dz = tm.subst(tm.diff(zeos, rhov), {rhov: rho_t})
        return (1 / prv) / (1 + rho_t * dz / zv)

    def cg_real(pt):
        # d ln(density)/dp of the library's own density by differences, at the reduced point of the witness
        import math
        Tpc_, Ppc_ = -72.0, 650.0
        T_ = pt["tr"] * (Tpc_ + 459.67) - 459.67
        p_ = pt["pr"] * Ppc_
        d = real(GAS + "density_DAK")
        f = lambda x: math.log(d(T_, x, Tpc_, Ppc_, 0.7))
        return real(GAS + "compressibility_DAK")(T_, p_, Tpc_, Ppc_), num_deriv(f, p_, rel=1e-4)

    def cg_reduced():
        o = one_path(ctx, GAS + "compressibility_DAK", [T, p, Tpc, Ppc])
        red = cg_reduced_term()
        back = tm.subst(red.value, {trv: (T + r459) / (Tpc + r459), prv: p / Ppc, zv: ZAPP})
        return o.value, back / Ppc, None, o, red

    CGB = {k: GAS_BOX[k] for k in ("T", "p", "Tpc", "Ppc")}
    obs.append(cas_ob(ctx, "cg.reduced", "compressibility_DAK(T, p, T_pc, p_pc) == c_r(T_r, p_r, Z) / p_pc: depends on its arguments only through T_r, p_r and the library's own Z", cg_reduced, CGB,
                      [GAS + "compressibility_DAK"], None, npoints=6))

    def cg_published():
        red = cg_reduced_term()
        return red.value, spec_c(c06.z_published(rhov, trv)), None, red

    def cg_published_real(pt):
        # the real function against the contract's right-hand side evaluated at the library's own Z
        Tpc_, Ppc_ = -72.0, 650.0
        T_ = pt["tr"] * (Tpc_ + 459.67) - 459.67
        p_ = pt["pr"] * Ppc_
        z_ = real(GAS + "z_factor_DAK")(T_, p_, Tpc_, Ppc_)
        spec = tm.feval(spec_c(c06.z_published(rhov, trv)), {"tr": pt["tr"], "pr": pt["pr"], "z": float(z_)})
        return real(GAS + "compressibility_DAK")(T_, p_, Tpc_, Ppc_) * Ppc_, spec

    obs.append(cas_ob(ctx, "cg.published", "reduced compressibility == (1/p_r)/(1 + rho_r Z_eos'(rho_r)/Z) for the published DAK equation (implicit differentiation of rho_r = 0.27 p_r/(T_r Z))",
                      cg_published, RB, [GAS + "compressibility_DAK"], cg_published_real, tol=1e-9, npoints=8))

    def cg_implicit():
        red = cg_reduced_term()
        ctx.engine.opaque.pop(GAS + "z_factor_DAK", None)
        try:
            ret, root, F, Fs, Zs, zval = c06.code_eos(ctx)
        finally:
            setup(ctx)
        return red.value, spec_c(Zs), None, red

    obs.append(cas_ob(ctx, "cg.implicit", "compressibility_DAK == d ln(density_DAK)/dp for the equation of state z_factor_DAK actually solves", cg_implicit, RB,
                      [GAS + "compressibility_DAK", GAS + "z_factor_DAK", GAS + "density_DAK"], cg_real, tol=1e-5, npoints=8))

    # ---------------- gas viscosity
    VB = {"T": GAS_BOX["T"], "Tpc": GAS_BOX["Tpc"], "Ppc": GAS_BOX["Ppc"], "g": GAS_BOX["g"], "u": (10.0 / 5.0, 14000.0 / 0.05)}

    def visc_in_u(ctx):
        o = one_path(ctx, GAS + "viscosity_Sutton", [T, p, Tpc, Ppc, g])
        t = tm.subst(o.value, {ZAPP: tm.div(p, u)})  # Z := p/u, i.e. u = p/Z (proportional to density)
        t = be.cas_rewrite(t, positive=["T", "p", "g", "Ppc", "u"], how="together", check_box=dict(VB, p=(10.0, 14000.0)), seed=ctx.seed) if False else t
        return o, t

    def visc_pos():
        o, t = visc_in_u(ctx)
        # p cancels: the viscosity depends on p and Z only through u = p/Z
        t2 = tm.subst(t, {p: tm.rconst(1000)})
        v = be.prove_equal_cas(t, t2, dict(VB, p=(10.0, 14000.0)), seed=ctx.seed)
        if v.status != be.PROVED:
            v.detail = "viscosity depends on p and Z other than through p/Z: " + v.detail
            return with_models(v, o)
        hyp = tm.land(tm.le(tm.rconst("1.05"), (T + r459) / (Tpc + r459)), tm.le((T + r459) / (Tpc + r459), tm.rconst(3)))
        return with_models(be.prove_int(t2, VB, mode=">0", hyp=hyp, max_boxes=200000), o)

    def visc_replay(w):
        import numpy as np
        f = real(GAS + "viscosity_Sutton")
        for T_, g_ in ((100.0, 0.7), (250.0, 0.7), (400.0, 0.7), (100.0, 0.56), (400.0, 1.0), (200.0, 0.85)):
          # the whole table range, the dilute end resolved (10 .. 200 psia in 5-psi steps) as well as the dense end
          for ps in (np.linspace(50, 14000, 60), np.arange(10.0, 205.0, 5.0), np.linspace(9000, 14000, 26)):
            mu = np.array([f(T_, x, -72.0, 650.0, g_) for x in ps])
            if not (np.all(mu > 0) and np.all(np.diff(mu) > 0)):
                k = int(np.argmax(~(np.diff(mu) > 0))) if np.all(mu > 0) else int(np.argmax(~(mu > 0)))
                return {"reproduced": True, "input": {"T": T_, "p": [float(ps[k]), float(ps[k + 1 if k + 1 < len(ps) else k])], "Tpc": -72.0, "Ppc": 650.0, "g": g_}, "observed": [float(mu[k]), float(mu[min(k + 1, len(mu) - 1)])], "required": "positive and increasing in p"}
        return {"reproduced": False}

    obs.append(Obligation("gas.viscosity_pos", "viscosity_Sutton > 0 on the box (T_r in [1.05, 3]); it depends on p and Z only through p/Z", visc_pos, [GAS + "viscosity_Sutton", GAS + "density_DAK"], "CAS+INT", visc_replay))

    def visc_inc():
        o, t = visc_in_u(ctx)
        t2 = tm.subst(t, {p: tm.rconst(1000)})
        d = tm.diff(t2, u)
        hyp = tm.land(tm.le(tm.rconst("1.05"), (T + r459) / (Tpc + r459)), tm.le((T + r459) / (Tpc + r459), tm.rconst(3)))
        return with_models(be.prove_int(d, VB, mode=">0", hyp=hyp, max_boxes=200000), o)

    obs.append(Obligation("gas.viscosity_increasing", "d viscosity / d(p/Z) > 0 on the box; p/Z is proportional to rho_r, which is strictly increasing in p (C06 dak.strictly_increasing)", visc_inc,
                          [GAS + "viscosity_Sutton", GAS + "density_DAK"], "INT", visc_replay))

    # ---------------- oil
    OB = dict(OIL_BOX, p=(15.0, 15000.0))
    fso = [OIL + "density_Standing", OIL + "b_o_Standing", OIL + "solution_gor_Standing", OIL + "pressure_bubblepoint_Standing"]

    def rho_bo(above):
        def terms():
            pb = one_path(ctx, OIL + "pressure_bubblepoint_Standing", [T, api, gg, R]).value
            c = tm.ge(p, pb)
            sub = {c: tm.TRUE if above else tm.FALSE}
            d = one_path(ctx, OIL + "density_Standing", [T, p, api, gg, R])
            # b_o and Rs on the corresponding side (their merged forms specialised to the side)
            bo = paths(ctx, OIL + "b_o_Standing", [T, p, api, gg, R])
            bo = [o for o in bo if has_cond(o, c, above)]
            rs = [o for o in paths(ctx, OIL + "solution_gor_Standing", [T, p, api, gg, R]) if has_cond(o, c, above)]
            if len(bo) != 1 or len(rs) != 1:
                raise sx.OutOfSubset("b_o_Standing / solution_gor_Standing do not branch on p >= p_b")
            lhs = tm.mul(tm.subst(d.value, sub), tm.subst(bo[0].value, sub))
            go = tm.rconst("141.5") / (tm.rconst("131.5") + api)
            spec = tm.rconst("62.37") * go + tm.rconst("0.0136") * gg * tm.subst(tm.toreal(rs[0].value), sub)
            return lhs, spec, (c if above else tm.lnot(c)), d, bo[0], rs[0]
        return terms

    def rho_bo_real(pt):
        a = (pt["T"], pt["p"], pt["api"], pt["gg"], pt["R"])
        d = real(OIL + "density_Standing")(*a) * real(OIL + "b_o_Standing")(*a)
        return d, 62.37 * 141.5 / (131.5 + pt["api"]) + 0.0136 * pt["gg"] * real(OIL + "solution_gor_Standing")(*a)

    def side(above):
        def h(pt):
            pb = real(OIL + "pressure_bubblepoint_Standing")(pt["T"], pt["api"], pt["gg"], pt["R"])
            return pb > 50 and (pt["p"] >= pb if above else pt["p"] < pb)
        return h

    obs.append(cas_ob(ctx, "oil.rho_bo.below", "p < p_b: density_Standing * b_o_Standing == 62.37 gamma_o + 0.0136 gamma_g Rs(p) (stock-tank oil plus gas still dissolved)", rho_bo(False), OB, fso, rho_bo_real, tol=1e-10, hyp_real=side(False)))
    obs.append(cas_ob(ctx, "oil.rho_bo.above", "p >= p_b: density_Standing * b_o_Standing == 62.37 gamma_o + 0.0136 gamma_g R_si", rho_bo(True), OB, fso, rho_bo_real, tol=1e-10, hyp_real=side(True)))

    # ---------------- water
    def rho_bw():
        d = one_path(ctx, WATER + "density_water_McCain", [T, p, S])
        b = one_path(ctx, WATER + "b_water_McCain", [T, p])
        return d.value * b.value, tm.rconst("62.368") + tm.rconst("0.438603") * S + tm.rconst("1.60074e-3") * S**2, None, d, b

    def rho_bw_real(pt):
        return real(WATER + "density_water_McCain")(pt["T"], pt["p"], pt["S"]) * real(WATER + "b_water_McCain")(pt["T"], pt["p"]), 62.368 + 0.438603 * pt["S"] + 1.60074e-3 * pt["S"] ** 2

    obs.append(cas_ob(ctx, "water.rho_bw", "density_water_McCain * b_water_McCain == 62.368 + 0.438603 S + 1.60074e-3 S^2 (brine density at standard conditions)", rho_bw, WATER_BOX,
                      [WATER + "density_water_McCain", WATER + "b_water_McCain"], rho_bw_real, tol=1e-12))

    def bw_pos():
        b = one_path(ctx, WATER + "b_water_McCain", [T, p])
        return with_models(be.prove_int(b.value, {"T": WATER_BOX["T"], "p": WATER_BOX["p"]}, mode=">0"), b)

    obs.append(Obligation("water.bw_positive", "b_water_McCain > 0 on the box (the density quotient is well defined)", bw_pos, [WATER + "b_water_McCain"], "INT"))

    from ..xcheck import scalar_xcheck
    gok = lambda pt: gas_hyp(pt)
    for q_, an in ((GAS + "density_DAK", ["T", "p", "Tpc", "Ppc", "g"]), (GAS + "b_factor_DAK", ["T", "p", "Tpc", "Ppc"]), (GAS + "compressibility_DAK", ["T", "p", "Tpc", "Ppc"]), (GAS + "viscosity_Sutton", ["T", "p", "Tpc", "Ppc", "g"])):
        obs.append(scalar_xcheck(ctx, q_, an, {k_: GAS_BOX[k_] for k_ in an}, hyp_real=gok, opaque_z=True))
    for q_, an, bx in ((OIL + "density_Standing", ["T", "p", "api", "gg", "R"], OB), (WATER + "density_water_McCain", ["T", "p", "S"], WATER_BOX), (WATER + "viscosity_water_McCain", ["T", "p", "S"], WATER_BOX), (WATER + "compressibility_water_McCain", ["T", "p", "S"], WATER_BOX)):
        obs.append(scalar_xcheck(ctx, q_, an, bx, hyp_real=(side(True) if "R" in an else None) and (lambda pt: real(OIL + "pressure_bubblepoint_Standing")(pt["T"], pt["api"], pt["gg"], pt["R"]) > 50) if "R" in an else None))

    def canary():
        d = one_path(ctx, GAS + "density_DAK", [T, p, Tpc, Ppc, g])
        spec = p * (tm.rconst("28.97") * g) / (ZAPP * tm.rconst("10.73159") * (T + r459))
        return d.value, spec

    obs.append(cas_ob(ctx, "canary.cas", "CANARY (must be refuted): density_DAK with molecular weight of air 28.97", canary, GASB, [GAS + "density_DAK"], expect=be.REFUTED))
    # the density / compressibility identities treat Z as THE root of the equation of state (opaque symbol Z_DAK): that
    # every returning path of z_factor_DAK delivers the bracketed root is C06's contract, re-verified here on its own engine
    from ..oblig import Ctx
    ctx06 = Ctx("C07", ctx.tier, ctx.seed)
    c06obs = {o.id: o for o in c06.build(ctx06)}
    src = c06obs["dak.every_return_is_a_root"]
    obs.append(Obligation("dep." + src.id, "[contract relied upon, C06] " + src.statement, src.run, src.functions, src.backend, src.replay))
    # 'at every pressure' includes a whole column of pressures handed over as an array: the oil identities above are proved for a
    # scalar pressure; C11's contract (array call == scalar call element by element, floating result, caller's array not written) for
    # density_Standing and the two functions it composes carries them to arrays.  Re-verified here on an engine of its own.
    from . import c11
    ctx11 = Ctx("C07", ctx.tier, ctx.seed)
    c11obs = {o.id: o for o in c11.build(ctx11)}

    def rho_bo_array_replay(w):
        import numpy as np
        dens, bo, rs, pbf = real(OIL + "density_Standing"), real(OIL + "b_o_Standing"), real(OIL + "solution_gor_Standing"), real(OIL + "pressure_bubblepoint_Standing")
        for (T_, api_, gg_, R_) in ((200.0, 35.0, 0.8, 650.0), (150.0, 30.0, 0.9, 300.0), (250.0, 42.0, 0.75, 1100.0)):
            pb = float(pbf(T_, api_, gg_, R_))
            grid = np.array([0.2 * pb, 0.6 * pb, 0.99 * pb, 1.02 * pb, 1.5 * pb, 2.4 * pb], dtype=float)
            for arr in (grid.copy(), grid[::-1].copy()):
                keep = arr.copy()
                d = np.asarray(dens(T_, arr, api_, gg_, R_), dtype=float)
                if not np.array_equal(arr, keep):
                    return {"reproduced": True, "input": {"T": T_, "api": api_, "gg": gg_, "R": R_, "pressure": keep.tolist()}, "observed": {"caller's pressure array after density_Standing": arr.tolist()}, "required": "unchanged"}
                for k_, p_ in enumerate(keep):
                    want = 62.37 * 141.5 / (131.5 + api_) + 0.0136 * gg_ * float(rs(T_, float(p_), api_, gg_, R_))
                    got = d[k_] * float(bo(T_, float(p_), api_, gg_, R_))
                    if not abs(got - want) <= 1e-9 * want:
                        return {"reproduced": True, "input": {"T": T_, "api": api_, "gg": gg_, "R": R_, "pressure": keep.tolist(), "element": k_}, "observed": {"density_Standing(array)[k] * Bo(p_k)": float(got)}, "required": {"62.37 gamma_o + 0.0136 gamma_g Rs(p_k)": want}}
        return {"reproduced": False}

    for oid in ("oil.density_Standing.elementwise[float64]", "oil.density_Standing.result", "oil.b_o_Standing.elementwise[float64]", "oil.solution_gor_Standing.elementwise[float64]", "oil.solution_gor_Standing.result"):
        src = c11obs[oid]

        def both(w, a=src.replay):
            r1 = rho_bo_array_replay(w)
            if r1.get("reproduced"):
                return r1
            return a(w) if a else r1
        obs.append(Obligation("dep." + src.id, "[contract relied upon, C11: carries the oil identities from a scalar pressure to an array of pressures] " + src.statement, src.run, src.functions, src.backend, both))
    return obs
