"""Shared helpers for the contract modules: input boxes taken from the property quantifiers,
obligation builders over the back ends, and replay helpers that run the real code."""
from __future__ import annotations

import math
import random

from .. import backends as be
from .. import symex as sx
from .. import term as tm
from ..oblig import Obligation

V = tm.var

# ---- boxes (from the quantifier text of the properties) ---------------------------------------
OIL_BOX = {"T": (80.0, 350.0), "api": (12.0, 55.0), "gg": (0.56, 1.3), "R": (20.0, 2500.0)}
WATER_BOX = {"T": (60.0, 400.0), "p": (14.7, 20000.0), "S": (0.0, 25.0)}
GAS_BOX = {"T": (80.0, 400.0), "p": (10.0, 14000.0), "Tpc": (-120.0, 60.0), "Ppc": (550.0, 800.0), "g": (0.55, 1.2)}

OIL = "bluebonnet.fluids.oil:"
GAS = "bluebonnet.fluids.gas:"
WATER = "bluebonnet.fluids.water:"
FLUID = "bluebonnet.fluids.fluid:"
RES = "bluebonnet.flow.reservoir:"
FP = "bluebonnet.flow.flowproperties:"
FC = "bluebonnet.forecast.forecast:"
FCP = "bluebonnet.forecast.forecast_pressure:"
PLOT = "bluebonnet.plotting:"


def with_models(v, *outs):
    ms = set(getattr(v, "models", []) or [])
    for o in outs:
        ms.update(o.heap.get("ghost", {}).get("models", ()))
    v.models = sorted(ms)
    return v


def paths(ctx, q, args, kwargs=None, **kw):
    return ctx.engine.run_paths(ctx.engine.func(q), args, kwargs, **kw)


def one_path(ctx, q, args, kwargs=None, where=None, kind="return"):
    """the unique path of q(args) (optionally: the unique one whose decisions satisfy `where`)"""
    outs = paths(ctx, q, args, kwargs)
    sel = [o for o in outs if (where is None or where(o))]
    if len(sel) != 1:
        raise sx.OutOfSubset(f"{q}: expected exactly one {'selected ' if where else ''}path, found {len(sel)} of {len(outs)}")
    o = sel[0]
    if o.kind != kind:
        raise sx.OutOfSubset(f"{q}: path ends in {o.kind} {o.value}, expected {kind}")
    return o


def has_cond(o, c, positive=True):
    want = c if positive else tm.lnot(c)
    return any(p is want for p in o.pc)


def path_hyp(o):
    return tm.land(*o.pc) if o.pc else None


# ---- real-code helpers (replay) ----------------------------------------------------------------


def real(q):
    import importlib

    modname, path = q.split(":")
    obj = importlib.import_module(modname)
    for part in path.split("."):
        obj = getattr(obj, part)
    return obj


def num_deriv(f, x, rel=1e-4):
    """derivative of the real function by Richardson-extrapolated central differences"""
    h = rel * max(1.0, abs(x))
    d1 = (f(x + h) - f(x - h)) / (2 * h)
    d2 = (f(x + h / 2) - f(x - h / 2)) / h
    return (4 * d2 - d1) / 3


def close(a, b, tol):
    import numpy as np

    a, b = np.asarray(a, dtype=float), np.asarray(b, dtype=float)
    if a.shape != b.shape:
        return False
    if not (np.all(np.isfinite(a)) and np.all(np.isfinite(b))):
        return False
    return bool(np.all(np.abs(a - b) <= tol * np.maximum(1.0, np.maximum(np.abs(a), np.abs(b)))))


def replay_pair(real_pair, tol, box=None, hyp_real=None, extra_points=400, seed=0, names=None, representations=False):
    """replay of an equality: real_pair(point) -> (observed, required) computed with the real code.
    The prover's witness is tried first; if the real floats happen to agree there, a bounded number of
    further points of the box is tried (still a concrete failing input when one is found)."""

    def rp(w):
        # the prover's witness is used only if it is a complete point (an undecided obligation has none: {})
        pts = [dict(w)] if (w and (not box or all(k_ in w for k_ in box))) else []
        rng = random.Random(seed)
        if box:
            pts += be.boundary_points(box, random.Random(seed + 1))
            for _ in range(extra_points):
                pts.append(be.sample_point(box, rng))
        first = None
        for k, pt in enumerate(pts):
            try:
                if hyp_real is not None and not hyp_real(pt):
                    continue
                a, b = real_pair(pt)
            except Exception as e:  # noqa: BLE001
                rec = {"reproduced": True, "input": pt, "observed": f"{type(e).__name__}: {e}", "required": "a value satisfying the contract", "witness_index": k}
                return rec
            rec = {"reproduced": not close(a, b, tol), "input": pt, "observed": a, "required": b, "tolerance": tol, "witness_index": k}
            if first is None:
                first = rec
            if rec["reproduced"]:
                return rec
        # the same numbers in other REPRESENTATIONS: whole-number coordinates handed over as python int, numpy integer scalars
        # (an element of np.arange is no `int`), np.float64.  The value under contract may not depend on the representation.
        import numpy as _np
        done = 0 if representations else 10**9   # opt-in: real_pair must hand the point's values to the code as they are
        conv_names = {k_ for k_, (lo_, hi_) in (box or {}).items() if hi_ >= 50 and not k_.startswith("_")}
        is_conv = lambda k_, v_: isinstance(v_, float) and (k_ in conv_names if box else abs(v_) >= 50)
        nb = len(be.boundary_points(box, random.Random(seed + 1))) if box else 0
        for pt in pts[nb + 1:] + pts[:nb + 1]:   # random interior points first, corners afterwards
            if done >= 8:
                break
            try:
                whole = {k_: (float(max(round(v_), 1)) if is_conv(k_, v_) else v_) for k_, v_ in pt.items()}
                if not any(is_conv(k_, v_) for k_, v_ in pt.items()):
                    break
                if hyp_real is not None and not hyp_real(whole):
                    continue
                a0, _b0 = real_pair(whole)
            except Exception:  # noqa: BLE001 - only points that evaluate as floats are re-presented
                continue
            done += 1
            shown = lambda rname: {k_: (f"{rname}({int(v_)})" if is_conv(k_, v_) else v_) for k_, v_ in whole.items()}
            for rname, conv in (("python int", int), ("numpy.int64", _np.int64), ("numpy.int32", _np.int32), ("numpy.float64", _np.float64)):
                alt = {k_: (conv(v_) if is_conv(k_, v_) else v_) for k_, v_ in whole.items()}
                try:
                    a1, _b1 = real_pair(alt)
                except Exception as e:  # noqa: BLE001
                    return {"reproduced": True, "input": shown(rname), "observed": f"{type(e).__name__}: {e}", "required": f"the value for the same numbers as floats ({a0})", "representation": rname}
                if not close(a1, a0, max(tol, 1e-9)):
                    return {"reproduced": True, "input": shown(rname), "observed": _np.asarray(a1, dtype=float).tolist(), "required": _np.asarray(a0, dtype=float).tolist(), "representation": rname,
                            "note": "same numbers, other representation of the whole-number arguments"}
        return first or {"reproduced": False, "note": "no admissible point"}

    return rp


# ---- obligation builders -------------------------------------------------------------------------


def cas_ob(ctx, oid, statement, terms, box, functions, real_pair=None, tol=1e-6, hyp_real=None, ints=(), assumptions=(), npoints=12, expect=be.PROVED, representations=False):
    """terms() -> (lhs, rhs) or (lhs, rhs, hyp[, outcomes…]); proved by CAS normal form, refuted by a separating point"""

    def run():
        r = terms()
        lhs, rhs = r[0], r[1]
        hyp = r[2] if len(r) > 2 else None
        v = be.prove_equal_cas(lhs, rhs, box, hyp=hyp, seed=ctx.seed, npoints=npoints, ints=ints)
        v.models = sorted(set().union(*[o.heap.get("ghost", {}).get("models", set()) for o in r[3:]])) if len(r) > 3 else []
        return v

    rp = replay_pair(real_pair, tol, box=box, hyp_real=hyp_real, seed=ctx.seed, representations=representations) if real_pair else None
    return Obligation(oid, statement, run, functions, "CAS", rp, assumptions, expect)


def smt_ob(ctx, oid, statement, formula, functions, replay=None, assumptions=(), timeout_ms=10000, expect=be.PROVED):
    """formula() -> (goal, hyps[, want[, outcomes…]])"""

    def run():
        r = formula()
        goal, hyps = r[0], r[1]
        want = r[2] if len(r) > 2 else None
        v = be.prove_smt(goal, hyps, timeout_ms=timeout_ms, want=want)
        v.models = sorted(set().union(*[o.heap.get("ghost", {}).get("models", set()) for o in r[3:]])) if len(r) > 3 else []
        return v

    return Obligation(oid, statement, run, functions, "SMT", replay, assumptions, expect)


def int_ob(ctx, oid, statement, build, box, functions, mode=">0", replay=None, assumptions=(), max_boxes=400000, presplit=None, expect=be.PROVED):
    """build() -> term or (term, hyp, cuts)"""

    def run():
        r = build()
        if isinstance(r, tuple):
            t, hyp, cuts = (list(r) + [None, None])[:3]
        else:
            t, hyp, cuts = r, None, None
        return be.prove_int(t, box, mode=mode, hyp=hyp, cuts=cuts, max_boxes=max_boxes, presplit=presplit)

    return Obligation(oid, statement, run, functions, "INT", replay, assumptions, expect)


def wd_conditions(o):
    """well-definedness conditions of an outcome as implications  pc => cond"""
    out = []
    for cond, what, pc in o.wd:
        out.append((tm.implies(tm.land(*pc), cond) if pc else cond, what))
    return out


def sym_args(names, sorts=None):
    return [V(n, (sorts or {}).get(n, tm.R)) for n in names]


def abstract_nonlinear(ts):
    """replace maximal non-polynomial sub-terms (exp/log/rpow/sqrt/apps/division by non-constants) of boolean
    conditions by fresh variables, consistently across the list (for feasibility checks of branch conditions)"""
    amap = {}

    def ab(t):
        if t.sort == tm.B:
            if t.op in ("bool",):
                return t
            return tm.rebuild(t, tuple(ab(k) for k in tm.children(t))) if t.op != "var" else t
        if t.op in ("const", "var"):
            return t
        if t.op in ("+", "neg", "toreal"):
            return tm.rebuild(t, tuple(ab(k) for k in tm.children(t)))
        if t.op == "*" and sum(1 for k in t.args if k.op != "const") <= 1:
            return tm.rebuild(t, tuple(ab(k) for k in tm.children(t)))
        if t not in amap:
            amap[t] = tm.var(f"_nl{len(amap)}", t.sort)
        return amap[t]

    return [ab(t) for t in ts], amap


def equal_by_cases(lhs, rhs, box, seed, hyp=None, ints=(), npoints=8, max_conds=4, facts=()):
    """lhs == rhs for all inputs: split on every ite condition occurring in either side.  For each combination of
    truth values: identical terms -> done; a point of the box satisfying the combination exists -> CAS (separating
    point / normal form); no such point found (e.g. the measure-zero case p == p_b) -> the combination must be
    infeasible (SMT with non-polynomial sub-terms abstracted) or the equality must follow from the normal form."""
    conds = []
    for t in (lhs, rhs):
        for nd in tm.postorder(t):
            if nd.op == "ite":
                c = nd.args[0]
                for base in (c.args if c.op in ("and", "or") else (c,)):
                    base = base.args[0] if base.op == "not" else base
                    if base not in conds:
                        conds.append(base)
    if len(conds) > max_conds:
        raise sx.OutOfSubset(f"too many case-split conditions ({len(conds)})")
    last = None
    for mask in range(2 ** len(conds)):
        sub = {c: (tm.TRUE if (mask >> k) & 1 else tm.FALSE) for k, c in enumerate(conds)}
        lits = [(c if (mask >> k) & 1 else tm.lnot(c)) for k, c in enumerate(conds)]
        h = tm.land(*lits)
        if hyp is not None:
            h = tm.land(h, hyp)
        l2, r2 = tm.subst(lhs, sub), tm.subst(rhs, sub)
        if l2 is r2:
            last = last or be.Verdict(be.PROVED, "CAS", detail="identical terms")
            continue
        v = be.prove_equal_cas(l2, r2, box, hyp=(h if (conds or hyp is not None) else None), seed=seed, npoints=npoints, ints=ints)
        if v.status == be.UNKNOWN and "no evaluable point" in v.detail:
            ab, amap = abstract_nonlinear(lits + ([hyp] if hyp is not None else []) + list(facts))
            sat, model = be.check_sat(ab)
            if sat is False:
                continue  # this combination of conditions cannot occur
            # feasible but of measure zero in the box (an equality case): needs a symbolic proof
            v2 = be.prove_equal_cas(l2, r2, box, hyp=None, seed=seed, npoints=npoints, ints=ints)
            if v2.status == be.PROVED:
                last = v2
                continue
            # the two sides may differ only syntactically, through min / max that the case's own literals decide
            # (p < p_b makes min(p, p_b) the same as p): resolve those under the literals and try again
            l3, r3 = resolve_extrema(l2, lits), resolve_extrema(r2, lits)
            if l3 is r3:
                last = be.Verdict(be.PROVED, "CAS+SMT", detail="identical terms after resolving min/max under the case literals")
                continue
            if l3 is not l2 or r3 is not r2:
                v3 = be.prove_equal_cas(l3, r3, box, hyp=None, seed=seed, npoints=npoints, ints=ints)
                if v3.status == be.PROVED:
                    last = v3
                    continue
            wit = dict(model or {})
            wit["boundary_case"] = [str(x) for x in lits]
            # no numeric point separates the sides here (the case has measure zero in the box) and no symbolic proof was found:
            # that is 'not established', not a refutation - the replay evaluates the real code AT the boundary and decides
            return be.Verdict(be.UNKNOWN, "CAS+SMT", witness=wit, detail=f"in the boundary case {' and '.join(str(x)[:80] for x in lits)} the two sides are different terms and no proof of their equality was found: {str(l2)[:120]}  vs  {str(r2)[:120]}")
        if v.status != be.PROVED:
            return v
        last = v
    return last or be.Verdict(be.UNKNOWN, "CAS", detail="no case could be evaluated")


def resolve_extrema(t, lits):
    """replace min(a, b) / max(a, b) by the argument the literals select (decided by SMT over the literals with nonlinear
    sub-terms abstracted: a sound weakening); anything undecided is left as it is"""
    nodes = [nd for nd in tm.postorder(t) if nd.op in ("min", "max") and len(nd.args) == 2 and all(a.sort != tm.B for a in nd.args)]
    if not nodes:
        return t
    sub = {}
    for nd in nodes[:8]:
        a, b = nd.args
        for first, second, pick in ((a, b, a if nd.op == "min" else b), (b, a, b if nd.op == "min" else a)):
            ab, amap = abstract_nonlinear(list(lits) + [tm.lnot(tm.le(first, second))])
            sat, _ = be.check_sat(ab, timeout_ms=2000)
            if sat is False:      # lits |= first <= second
                sub[nd] = pick
                break
    return tm.subst(t, sub) if sub else t


def paths_split_on(outs, c, abstract=None):
    """each path condition must be equivalent (for ALL inputs) to c or to its negation: two validity checks per path.
    returns a Verdict (PROVED / REFUTED with the model of the failed equivalence)"""
    sub = abstract or {}
    last = None
    for o in outs:
        pc = tm.land(*o.pc)
        v1 = be.prove_smt(tm.subst(tm.iff(pc, c), sub), [])
        if v1.status == be.PROVED:
            last = v1
            continue
        v2 = be.prove_smt(tm.subst(tm.iff(pc, tm.lnot(c)), sub), [])
        if v2.status == be.PROVED:
            last = v2
            continue
        bad = v1 if v1.status == be.REFUTED else v2
        bad.detail = f"a path condition {str(pc)[:120]} is neither equivalent to the reference branch condition nor to its negation: " + (bad.detail or "")
        return bad
    return last or be.Verdict(be.UNKNOWN, "SMT", detail="no paths")


def lean_obligation(ctx, schemas):
    """thorough tier: the Lean/Mathlib library of meta-lemmas behind the trusted schemas is re-checked"""
    import os
    import subprocess
    root = os.path.dirname(os.path.dirname(os.path.dirname(os.path.abspath(__file__))))

    def run():
        p = subprocess.run([os.path.join(root, "bin", "lean_check")], capture_output=True, text=True, timeout=1700)
        if p.returncode == 0:
            return be.Verdict(be.PROVED, "LEAN", detail=p.stdout.strip().splitlines()[-1] + "; schemas used here: " + ", ".join(schemas))
        return be.Verdict("ERROR", "LEAN", detail="lean_check failed: " + (p.stdout + p.stderr)[-400:])

    return Obligation("lean.meta_lemmas", "Lean 4 / Mathlib re-check of the meta-lemmas behind the trusted schemas (" + ", ".join(schemas) + "): /verif/lean/Lemmas.lean compiles without sorry", run, [], "LEAN")
