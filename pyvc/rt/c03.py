"""C03 bounded clauses: the two recovery factors of the REAL code (cumulative frac-face flux, fluid remaining in
place) describe the same quantity, evaluated at run time over a finite, stated family.

Tables
  syn_gas_a / syn_gas_b  exactly consistent synthetic gas: z = 1 - a p + b p^2 > 0, mu = mu0 + mu1 p + mu2 p^2,
        density = 0.05 p/z, compressibility = 1/p - z'/z, pseudopressure = int_0^p 2q/(mu z) dq by 12-point
        Gauss-Legendre on every table interval (2000 rows, 10 .. 10000 psi)
  gas / haynesville      shipped tables (both carry a density column), with their measured inconsistency delta:
        in the continuum both recoveries are integrals over x of a state function of pressure,
          flux mode      G(p) = int_p^{p_i} (c mu)/(c mu)_i dm_scaled     (what the m-scaled and alpha columns say is released)
          in-place mode  D(p) = 1 - rho(p)/rho(p_i)                       (what the density column says)
        so delta = max over [min p_f, p_i] of |G - D| (trapezoid on the table rows) is exactly the gap an inconsistent
        table forces; it is added to the tolerance and nothing more.  Observed: synthetic 1e-7..2e-6, shipped gas
        1.84e-3 * ceiling (a constant factor), Haynesville 5e-3..6e-3 * ceiling.

Runs: SinglePhaseReservoir, p_f/p_i in {0.1, 0.5, 0.9, 0.9875} (quick: shipped table at 0.1 and 0.9875 only); ladder nx in {20, 40, 80} (thorough: + 160) with
nt = nx^2/4 steps on the quadratic grid linspace(0, sqrt(2), nt+1)^2; schedules constant / stepwise decreasing
(4 levels) / seeded random (8 levels below p_i, functions of physical time so that every rung sees the same history).
ceiling = 1 - rho(min p_f)/rho(p_i) is the natural unit of recovery.

Clauses
  rf.start_zero     |recovery_factor()[0]| <= 1e-12 and |recovery_factor(density=True)[0]| <= 1e-12
  rf.modes_agree    gap(nx) = max_t |rf_flux - rf_density| <= C3 * ceiling / nx + delta,  C3 = 7.5
                    (3 x the largest nx*gap/ceiling seen on the repaired code: 2.6, random schedule, p_f/p_i = 0.1)
                    and gap(2nx) <= 0.8 gap(nx) + delta along the ladder
  rf.monotone       while p_f has not risen: both recoveries non-decreasing, step decrease <= 1e-9
  rf.ceiling        recovery_factor(density=True)[i] <= 1 - rho(min_{s<=i} p_f[s]) / rho(p_i) + 1e-9, rho taken from the
                    fluid's own m-scaled -> density map (the one the method interpolates)
  rf.ideal_plateau  IdealReservoir on linspace(0, 20, 401): nx = 1000: |rf[-1] - (1 - p_f/p_i)| <= 1e-3 and
                    |rf[-1] - rf(t = 10)| <= 1e-6; ladder nx in {20, 40, 80}: |rf[-1]/(1 - p_f/p_i) - 1| <= 1.5/nx
                    (the discrete plateau on a uniform grid is exactly (nx - 1/2)/(nx - 1), i.e. 0.5/(nx - 1) high)
"""
from __future__ import annotations

import warnings

import numpy as np

from .c01 import _ByBase, feed, load_table, reorder, table_params as shipped_params
from .common import Bounded

RATIOS = (0.1, 0.5, 0.9, 0.9875)
T_END = 2.0
C3 = 7.5
SHRINK = 0.8
SYN = {
    "syn_gas_a": {"n": 2000, "p_lo": 10.0, "p_hi": 10000.0, "a": 6e-5, "b": 6e-9, "mu0": 0.012, "mu1": 1.2e-6, "mu2": 4e-11, "rho_factor": 0.05, "p_i": 6000.0},
    "syn_gas_b": {"n": 2000, "p_lo": 10.0, "p_hi": 10000.0, "a": 4e-5, "b": 2e-9, "mu0": 0.02, "mu1": 5e-7, "mu2": 1e-10, "rho_factor": 0.05, "p_i": 9000.0},
}
P_INITIAL = _ByBase({"syn_gas_a": 6000.0, "syn_gas_b": 9000.0, "gas": 8000.0, "haynesville": 12000.0})
_cache = {}


# ---------------------------------------------------------------------------------------------------- tables
def synthetic_gas(par):
    import pandas as pd

    p = np.linspace(par["p_lo"], par["p_hi"], par["n"])
    z = lambda q: 1.0 - par["a"] * q + par["b"] * q * q  # noqa: E731
    dz = lambda q: -par["a"] + 2.0 * par["b"] * q  # noqa: E731
    mu = lambda q: par["mu0"] + par["mu1"] * q + par["mu2"] * q * q  # noqa: E731
    xg, wg = np.polynomial.legendre.leggauss(12)
    edges = np.concatenate([[0.0], p])
    mid, half = (edges[:-1] + edges[1:]) / 2, (edges[1:] - edges[:-1]) / 2
    q = mid[:, None] + half[:, None] * xg[None, :]
    m = np.cumsum((2.0 * q / (mu(q) * z(q)) * wg[None, :]).sum(axis=1) * half)
    assert z(p).min() > 0 and mu(p).min() > 0
    return pd.DataFrame({"pressure": p, "pseudopressure": m, "compressibility": 1.0 / p - dz(p) / z(p), "viscosity": mu(p), "z-factor": z(p), "density": par["rho_factor"] * p / z(p)})


def params_of(table):
    if ":" in table:
        return dict(params_of(table.split(":")[0]), row_order=table.split(":")[1])
    return dict(SYN[table], formula="z = 1 - a p + b p^2; mu = mu0 + mu1 p + mu2 p^2; density = rho_factor p/z; compressibility = 1/p - z'/z; pseudopressure = int_0^p 2q/(mu z) dq") if table in SYN else shipped_params(table)


def get_table(table):
    if table not in _cache:
        if ":" in table:
            _cache[table] = reorder(get_table(table.split(":")[0]), table.split(":")[1])
        else:
            _cache[table] = synthetic_gas(SYN[table]) if table in SYN else load_table(table)
    return _cache[table]


def get_fluid(table, p_i):
    from bluebonnet.flow import FlowProperties

    key = ("fluid", table, p_i)
    if key not in _cache:
        with warnings.catch_warnings(), np.errstate(all="ignore"):
            warnings.simplefilter("ignore")
            _cache[key] = FlowProperties(get_table(table), p_i)
    return _cache[key]


def inconsistency(table, p_i, p_low):
    """delta of the module docstring, from the raw columns only."""
    tab = get_table(table.split(":")[0])
    p, c, mu, z, m, rho = (np.asarray(tab[k], dtype=float) for k in ("pressure", "compressibility", "viscosity", "z-factor", "pseudopressure", "density"))
    ok = p > 0
    factor = np.interp(p_i, p[ok], 0.5 * c[ok] * mu[ok] * z[ok] / p[ok])
    q = np.unique(np.concatenate([[p_low, p_i], p[(p > p_low) & (p < p_i)]]))
    mq = np.interp(q, p, m) * factor
    w = np.interp(q, p, c * mu) / np.interp(p_i, p, c * mu)
    up = np.concatenate([[0.0], np.cumsum(0.5 * (w[1:] + w[:-1]) * np.diff(mq))])
    G = up[-1] - up
    D = 1.0 - np.interp(q, p, rho) / np.interp(p_i, p, rho)
    return float(np.abs(G - D).max())


# ------------------------------------------------------------------------------------------------------ runs
def schedule_fn(desc, p_f, p_i):
    kind = desc["kind"]
    if kind == "constant":
        return None
    if kind == "stepdown":
        lv = p_i - (p_i - p_f) * np.arange(1, 5) / 4.0
        return lambda t: lv[np.minimum((t / T_END * 4).astype(int), 3)]
    nseg = int(desc.get("nseg", 8))
    rng = np.random.default_rng(desc["seed"])
    lv = rng.uniform(p_f, p_i, nseg)
    lv[int(rng.integers(0, nseg))] = p_f
    return lambda t: lv[np.minimum((t / T_END * nseg).astype(int), nseg - 1)]


def sched_label(desc):
    return desc["kind"] if desc["kind"] != "random" else "random:%d" % desc["seed"]


def one_run(inp):
    from bluebonnet.flow import SinglePhaseReservoir

    fluid = get_fluid(inp["table"], inp["p_i"])
    nx, nt = int(inp["nx"]), int(inp["nt"])
    t = np.linspace(0.0, np.sqrt(T_END), nt + 1) ** 2
    f = schedule_fn(inp["schedule"], inp["p_f"], inp["p_i"])
    p_sched = np.full(len(t), float(inp["p_f"])) if f is None else np.asarray(f(t), dtype=float)
    with warnings.catch_warnings(), np.errstate(all="ignore"):
        warnings.simplefilter("ignore")
        res = SinglePhaseReservoir(nx, inp["p_f"], inp["p_i"], fluid)
        if f is None:
            res.simulate(t)
        else:
            res.simulate(t, p_sched.copy())
        rf_flux = np.array(res.recovery_factor(), dtype=float)
        rf_dens = np.array(res.recovery_factor(density=True), dtype=float)
    ms = np.asarray(fluid.pvt_props["m-scaled"], dtype=float)
    rho = np.asarray(fluid.pvt_props["density"], dtype=float)
    good = np.isfinite(ms) & np.isfinite(rho)
    order = np.argsort(ms[good], kind="stable")
    ms, rho, good = ms[good][order], rho[good][order], slice(None)
    rho_of_m = lambda m: np.interp(m, ms[good], rho[good])  # noqa: E731
    m_f = np.asarray(fluid.m_scaled_func(p_sched), dtype=float)
    low = np.minimum.accumulate(m_f)
    ceiling_i = 1.0 - rho_of_m(low) / rho_of_m(float(fluid.m_i))
    return {"t": t, "p_sched": p_sched, "rf_flux": rf_flux, "rf_dens": rf_dens, "ceiling_i": ceiling_i, "ceiling": float(ceiling_i[-1])}


def run_checks(inp, r):
    """per-run clauses -> list of (clause, key, ok, info)"""
    out = []
    rk = (inp["table"], inp["ratio"], sched_label(inp["schedule"]), inp["nx"])

    def add(clause, sub, ok, observed, required):
        out.append((clause, rk + (sub,), bool(ok), {"input": dict(inp, clause=clause, sub=sub), "observed": observed, "required": required}))

    a, b = r["rf_flux"], r["rf_dens"]
    add("rf.start_zero", "flux", np.isfinite(a).all() and abs(a[0]) <= 1e-12, {"recovery_factor()[0]": float(a[0]), "finite": bool(np.isfinite(a).all())}, "|rf[0]| <= 1e-12")
    add("rf.start_zero", "density", np.isfinite(b).all() and abs(b[0]) <= 1e-12, {"recovery_factor(density=True)[0]": float(b[0]), "finite": bool(np.isfinite(b).all())}, "|rf[0]| <= 1e-12")
    rises = np.nonzero(np.diff(r["p_sched"]) > 0)[0]
    # p_sched[i] drives the step i -> i+1; the first rise at index s+1 first acts on level s+2
    last = len(a) if len(rises) == 0 else int(rises[0]) + 2
    for sub, rf in (("flux", a), ("density", b)):
        d = np.diff(rf[:last])
        if len(d):
            i = int(np.argmin(d))
            add("rf.monotone", sub, d[i] >= -1e-9, {"largest_decrease": float(-d[i]), "at_level": i + 1, "levels_checked": int(last)}, "rf[i+1] >= rf[i] - 1e-9 while p_f has not risen")
    ex = b - r["ceiling_i"]
    i = int(np.argmax(ex))
    add("rf.ceiling", "density", ex[i] <= 1e-9, {"excess": float(ex[i]), "at_level": i, "recovery": float(b[i]), "ceiling": float(r["ceiling_i"][i])},
        "rf_density[i] <= 1 - rho(min_{s<=i} p_f[s])/rho(p_i) + 1e-9")
    return out


def ladder_checks(cfg, rungs, gaps, ceiling, delta):
    out = []
    for n, (nx, nt) in enumerate(rungs):
        inp = dict(cfg, nx=nx, nt=nt, ladder=[list(x) for x in rungs], clause="rf.modes_agree")
        key = (cfg["table"], cfg["ratio"], sched_label(cfg["schedule"]), nx)
        obs = {"gap": gaps[n], "nx*gap/ceiling": nx * gaps[n] / ceiling, "ceiling": ceiling, "table_inconsistency_delta": delta, "ladder_gaps": gaps}
        out.append(("rf.modes_agree", key + ("bound",), bool(np.isfinite(gaps[n]) and gaps[n] <= C3 * ceiling / nx + delta),
                    {"input": dict(inp, sub="bound"), "observed": obs, "required": "max_t |rf_flux - rf_density| <= %g*ceiling/nx + delta" % C3}))
        if n:
            out.append(("rf.modes_agree", key + ("shrink",), bool(np.isfinite(gaps[n]) and gaps[n] <= SHRINK * gaps[n - 1] + delta),
                        {"input": dict(inp, sub="shrink"), "observed": dict(obs, previous=gaps[n - 1]), "required": "gap(%d) <= %g*gap(%d) + delta" % (nx, SHRINK, rungs[n - 1][0])}))
    return out


def evaluate_config(cfg, rungs):
    records, gaps, ceiling = [], [], None
    for nx, nt in rungs:
        inp = dict(cfg, nx=nx, nt=nt)
        try:
            r = one_run(inp)
        except Exception as e:
            records.append(("rf.start_zero", (cfg["table"], cfg["ratio"], sched_label(cfg["schedule"]), nx, "raised"), False,
                            {"input": dict(inp, clause="rf.start_zero", sub="raised"), "observed": "%s: %s" % (type(e).__name__, e), "required": "a result"}))
            gaps.append(float("inf"))
            continue
        records.extend(run_checks(inp, r))
        gaps.append(float(np.abs(r["rf_flux"] - r["rf_dens"]).max()))
        ceiling = r["ceiling"]
    if ceiling is not None:
        low = cfg["p_f"]  # every schedule attains the nominal p_f as its minimum
        delta = inconsistency(cfg["table"], cfg["p_i"], low)
        records.extend(ladder_checks(cfg, rungs, gaps, ceiling, delta))
    return records, {"table": cfg["table"], "ratio": cfg["ratio"], "schedule": cfg["schedule"]["kind"], "gaps": gaps, "ceiling": ceiling,
                     "nx*gap/ceiling": [nx * g / ceiling for (nx, _), g in zip(rungs, gaps)] if ceiling else None}


def ideal_checks(tier):
    from bluebonnet.flow import IdealReservoir

    out = []
    t = np.linspace(0.0, 20.0, 401)
    for nx in (20, 40, 80, 1000):
        p_i = 8000.0
        res = IdealReservoir(nx, RATIOS[0] * p_i, p_i, None)
        res.simulate(t)  # the field does not depend on the pressures; recovery_factor() / fvf_scale() are re-run per pressure pair
        for ratio in RATIOS:
            inp = {"reservoir": "ideal", "nx": nx, "p_i": p_i, "p_f": ratio * p_i, "ratio": ratio, "grid": "uniform: linspace(0, 20, 401)", "clause": "rf.ideal_plateau"}
            res.pressure_fracface = ratio * p_i
            rf = np.array(res.recovery_factor(), dtype=float)
            target = 1.0 - ratio
            if nx == 1000:
                ok = abs(rf[-1] - target) <= 1e-3 and abs(rf[-1] - rf[200]) <= 1e-6
                req = "|rf[-1] - (1 - p_f/p_i)| <= 1e-3 and |rf[-1] - rf(t=10)| <= 1e-6"
            else:
                ok = abs(rf[-1] / target - 1.0) <= 1.5 / nx and abs(rf[-1] - rf[200]) <= 1e-6
                req = "|rf[-1]/(1 - p_f/p_i) - 1| <= 1.5/nx and |rf[-1] - rf(t=10)| <= 1e-6"
            out.append(("rf.ideal_plateau", ("ideal", ratio, nx), bool(ok and np.isfinite(rf).all()),
                        {"input": inp, "observed": {"rf[-1]": float(rf[-1]), "target": target, "rf[-1]/target - 1": float(rf[-1] / target - 1.0), "rf[-1] - rf(t=10)": float(rf[-1] - rf[200]), "rf[0]": float(rf[0])}, "required": req}))
            out.append(("rf.start_zero", ("ideal", ratio, nx, "flux"), bool(abs(rf[0]) <= 1e-12), {"input": dict(inp, clause="rf.start_zero"), "observed": {"recovery_factor()[0]": float(rf[0])}, "required": "|rf[0]| <= 1e-12"}))
    return out


def configs(tier, seed):
    tables = ("syn_gas_a", "gas") if tier == "quick" else ("syn_gas_a", "syn_gas_b", "gas", "haynesville")
    seeds = (0,) if tier == "quick" else (0, 1)
    out = []
    for table in tables:
        p_i = P_INITIAL[table]
        for ratio in RATIOS:
            if tier == "quick" and table == "gas" and ratio not in (0.1, 0.9875):
                continue  # quick: the shipped table at the two extreme ratios only
            base = {"reservoir": "single", "table": table, "table_params": params_of(table), "p_i": p_i, "p_f": ratio * p_i, "ratio": ratio,
                    "grid": {"kind": "quadratic", "t_end": T_END, "rule": "linspace(0, sqrt(t_end), nt+1)**2, nt = nx**2/4"}}
            out.append(dict(base, schedule={"kind": "constant"}))
            out.append(dict(base, schedule={"kind": "stepdown", "levels": 4}))
            for s in seeds:
                out.append(dict(base, schedule={"kind": "random", "seed": seed * 7919 + 31 * s + int(ratio * 1e4), "nseg": 8}))
    # the same table with its rows in descending / shuffled order (row order is not part of the precondition)
    for table, ratio in (("syn_gas_a:desc", 0.5), ("syn_gas_a:shuf", 0.1)):
        p_i = P_INITIAL[table]
        out.append({"reservoir": "single", "table": table, "table_params": params_of(table), "p_i": p_i, "p_f": ratio * p_i, "ratio": ratio,
                    "grid": {"kind": "quadratic", "t_end": T_END, "rule": "linspace(0, sqrt(t_end), nt+1)**2, nt = nx**2/4"}, "schedule": {"kind": "constant"}})
    return out


def rungs_of(tier):
    nxs = (20, 40, 80) if tier == "quick" else (20, 40, 80, 160)
    return [(nx, nx * nx // 4) for nx in nxs]


def run(ctx):
    rungs = rungs_of(ctx.tier)
    cfgs = configs(ctx.tier, ctx.seed)
    B = Bounded("SinglePhaseReservoir over %s, p_f/p_i in %s, ladder (nx, nt) = %s on the quadratic grid to t = %g, schedules constant / stepwise decreasing / seeded random; "
                "both recovery modes; C3 = %g (in units of the ceiling 1 - rho(min p_f)/rho(p_i)), shrink %g, shipped tables with their measured inconsistency delta added; "
                "IdealReservoir plateau on linspace(0,20,401), nx in {20,40,80,1000}" % (sorted({c["table"] for c in cfgs}), list(RATIOS), [list(x) for x in rungs], T_END, C3, SHRINK))
    records, ladders = [], []
    for cfg in cfgs:
        recs, summary = evaluate_config(cfg, rungs)
        records.extend(recs)
        ladders.append(summary)
    records.extend(ideal_checks(ctx.tier))
    feed(B, records, priority=("rf.start_zero", "rf.ceiling", "rf.modes_agree", "rf.monotone", "rf.ideal_plateau"))
    r = B.result()
    r["constants"] = {"C3": C3, "shrink": SHRINK, "start_zero": 1e-12, "monotone": 1e-9, "ceiling": 1e-9, "ideal_plateau": "1e-3 at nx=1000; 1.5/nx on the ladder"}
    r["ladders"] = ladders
    r["table_inconsistency"] = {"%s@%g" % (c["table"], c["ratio"]): inconsistency(c["table"], c["p_i"], c["p_f"]) for c in cfgs if c["schedule"]["kind"] == "constant"}
    r["failed_per_clause"] = {c: sum(1 for x in records if x[0] == c and not x[2]) for c in sorted({x[0] for x in records if not x[2]})}
    return r


def replay(case):
    inp = case.get("input", case)
    clause = inp.get("clause") or case.get("clause")
    sub = inp.get("sub")
    if inp.get("reservoir") == "ideal":
        for c, key, ok, info in ideal_checks("quick"):
            if c == clause and info["input"]["nx"] == inp["nx"] and info["input"]["ratio"] == inp["ratio"]:
                return {"reproduced": not ok, "clause": c, "observed": info["observed"], "required": info["required"]}
        return {"reproduced": False, "reason": "no such ideal case"}
    cfg = {k: inp[k] for k in ("reservoir", "table", "table_params", "p_i", "p_f", "ratio", "grid", "schedule")}
    if clause == "rf.modes_agree":
        rungs = [tuple(x) for x in inp["ladder"]]
        recs, _ = evaluate_config(cfg, rungs)
    else:
        run_inp = dict(cfg, nx=inp["nx"], nt=inp["nt"])
        recs = run_checks(run_inp, one_run(run_inp))
    for c, key, ok, info in recs:
        if c == clause and info["input"]["nx"] == inp["nx"] and info["input"].get("sub") == sub:
            return {"reproduced": not ok, "clause": c, "observed": info["observed"], "required": info["required"]}
    return {"reproduced": False, "reason": "clause %r / sub %r not produced" % (clause, sub)}
