"""Bounded family "container independence" (added in round 7): the value a table wrapper or a correlation returns may not
depend on HOW the caller holds the same numbers.  The symbolic executor models a table as named columns of arrays and a
pressure argument as an array; pandas label alignment (a Series keeps its row labels; `frame[col] = series` and
`series[int_array]` go by label, not by position) is outside that model, so these clauses are decided at run time only.

Tables   every table is presented as
           dict of arrays                                   (reference)
           DataFrame with the default RangeIndex
           DataFrame cut out of a longer table without reset_index   (labels 7 .. n+6)
           DataFrame indexed by its own pressure column              (float labels)
           DataFrame whose rows were read in shuffled order and then sort_values("pressure")   (increasing pressure, permuted labels)
         and the wrapper built from each must agree with the reference: m_i, the m-scaled and alpha columns, m_scaled_func and
         alpha on a query grid (rtol 1e-12).
Series   every array-capable oil correlation is called with the pressures as an ndarray (reference) and as pandas Series with
         the default index / labels 7.. / permuted labels (sort_values), ascending and descending; values must agree (rtol 1e-12).
"""
from __future__ import annotations

import warnings

import numpy as np

from .common import Bounded


def table_variants(cols):
    """cols: dict name -> 1-D array (increasing pressure).  Returns [(label, table)] with the reference first."""
    import pandas as pd
    n = len(next(iter(cols.values())))
    df = pd.DataFrame({k: np.array(v, dtype=float) for k, v in cols.items()})
    out = [("dict of arrays", {k: np.array(v, dtype=float) for k, v in cols.items()}), ("DataFrame, default index", df.copy())]
    out.append(("DataFrame cut from a longer table (labels 7..n+6, no reset_index)", df.set_axis(np.arange(7, n + 7), axis=0)))
    if "pressure" in df:
        out.append(("DataFrame indexed by its pressure column", df.set_axis(df["pressure"].to_numpy(), axis=0)))
        shuffled = df.sample(frac=1.0, random_state=0).reset_index(drop=True)
        out.append(("DataFrame read in shuffled order, then sort_values('pressure') (permuted labels)", shuffled.sort_values("pressure")))
    return out


def _cmp(B, clause, key, got, want, inp, what, rtol=1e-12):
    try:
        g, w = np.asarray(got, dtype=float), np.asarray(want, dtype=float)
        ok = g.shape == w.shape and bool(np.allclose(g, w, rtol=rtol, atol=0, equal_nan=False))
        obs = {"what": what, "max relative difference": (float(np.nanmax(np.abs(g - w) / np.maximum(np.abs(w), 1e-300))) if g.shape == w.shape and g.size else "shapes differ / empty"), "first values": g.ravel()[:3].tolist()}
    except Exception as e:  # noqa: BLE001
        ok, obs = False, {"what": what, "error": f"{type(e).__name__}: {e}"}
    B.case(clause, key + (what,), ok, input=inp, observed=obs, required={"the value for the same numbers held as a dict of arrays / an ndarray": np.asarray(want, dtype=float).ravel()[:3].tolist()})


def single_phase_tables():
    P = np.linspace(500.0, 8000.0, 31)
    z = 1 - 2e-5 * P + 4e-9 * P**2
    mu = 0.012 + 2e-6 * P
    c = 1 / P
    y = 2 * P / (mu * z)
    m = np.concatenate([[0.0], np.cumsum(np.diff(P) * (y[1:] + y[:-1]) / 2)]) + 1e5
    long_ = {"pressure": P, "pseudopressure": m, "compressibility": c, "viscosity": mu, "z-factor": z}
    step = np.where(P < 3000, 800.0, 9e4) + 30 * np.sin(P)
    return [("synthetic-long", long_), ("synthetic-user-alpha", {"pressure": P, "pseudopressure": m, "alpha": step})]


def run_flowproperties(B):
    """C09: FlowProperties(table, p_i) for every presentation of the table"""
    mod = __import__("bluebonnet.flow.flowproperties", fromlist=["x"])
    for name, cols in single_phase_tables():
        P = cols["pressure"]
        for p_i in (float(P[12]), float(0.5 * (P[20] + P[21]))):
            ref = None
            for label, tb in table_variants(cols):
                inp = {"table": name, "held as": label, "p_i": p_i}
                key = (name, label, p_i)
                try:
                    with warnings.catch_warnings():
                        warnings.simplefilter("ignore")
                        fp = mod.FlowProperties(tb, p_i)
                        q = np.linspace(P[0], P[-1], 41)
                        ms = np.asarray(fp.pvt_props["m-scaled"], dtype=float)
                        rec = {"m_i": float(fp.m_i), "m-scaled column": ms, "alpha column": np.asarray(fp.pvt_props["alpha"], dtype=float), "m_scaled_func(grid)": np.asarray(fp.m_scaled_func(q), dtype=float),
                               "alpha(grid)": np.asarray(fp.alpha(np.linspace(ms.min(), ms.max(), 41)), dtype=float)}
                except Exception as e:  # noqa: BLE001
                    B.case("container.flowproperties", key + ("construct",), False, input=inp, observed=f"{type(e).__name__}: {e}", required="the wrapper of the same numbers held as a dict of arrays")
                    continue
                if ref is None:
                    ref = rec
                    continue
                for what in rec:
                    _cmp(B, "container.flowproperties", key, rec[what], ref[what], inp, what)


def two_phase_inputs():
    from ..contracts import c16
    pv = c16.synth_tables(0.02, n=60)
    so = np.linspace(0, 1, 30)
    kr_t = {"So": so, "Sg": 1 - so, "Sw": 0 * so, "kro": so**2, "krg": 0.8 * (1 - so) ** 1.5, "krw": 0.05 + 0 * so}
    return {k: np.asarray(v, dtype=float) for k, v in pv.items()}, kr_t, dict(c16.RHO_REAL)


def run_from_table(B):
    """C15 / C16: FlowPropertiesTwoPhase.from_table for every presentation of the PVT table (and of the rel-perm table)"""
    mod = __import__("bluebonnet.flow.flowproperties", fromlist=["x"])
    pv, kr_t, rho = two_phase_inputs()
    P = pv["pressure"]
    krs = table_variants(kr_t)
    for p_i in (float(P[44]), 6000.0):
        ref = None
        for label, tb in table_variants(pv):
            for klabel, ktb in (krs[1], krs[2]) if label != "dict of arrays" else (krs[1],):
                inp = {"PVT table": "synthetic linear 1/B, 60 rows", "held as": label, "rel-perm table held as": klabel, "p_i": p_i}
                key = (label, klabel, p_i)
                try:
                    with warnings.catch_warnings(), np.errstate(all="ignore"):
                        warnings.simplefilter("ignore")
                        fp = mod.FlowPropertiesTwoPhase.from_table(tb, ktb, dict(rho), 0.1, 0.1, p_i)
                        ms = np.asarray(fp.pvt_props["m-scaled"], dtype=float)
                        rec = {"m_i": float(fp.m_i), "m-scaled column": ms, "alpha column": np.asarray(fp.pvt_props["alpha"], dtype=float), "m_scaled_func(grid)": np.asarray(fp.m_scaled_func(np.linspace(P[0], P[-1], 41)), dtype=float)}
                except Exception as e:  # noqa: BLE001
                    B.case("container.from_table", key + ("construct",), False, input=inp, observed=f"{type(e).__name__}: {e}", required="the wrapper of the same numbers held as a dict of arrays")
                    continue
                if ref is None:
                    ref = rec
                    continue
                for what in rec:
                    _cmp(B, "container.from_table", key, rec[what], ref[what], inp, what)


def run_series(B):
    """C11 / C12: oil correlations with the pressures held as pandas Series"""
    import pandas as pd
    oil = __import__("bluebonnet.fluids.oil", fromlist=["x"])
    for (T_, api_, gg_, R_) in ((200.0, 35.0, 0.8, 650.0), (150.0, 30.0, 0.9, 300.0)):
        pb = float(oil.pressure_bubblepoint_Standing(T_, api_, gg_, R_))
        base = np.array([0.2 * pb, 0.5 * pb, 0.8 * pb, 0.99 * pb, 1.01 * pb, 1.3 * pb, 1.9 * pb, 2.5 * pb])
        for fname in ("b_o_Standing", "solution_gor_Standing", "density_Standing", "oil_compressibility_undersat_Spivey"):
            f = getattr(oil, fname)
            for order, arr in (("ascending", base), ("descending", base[::-1].copy())):
                if "Spivey" in fname:
                    arr = arr[arr >= pb]
                ref = np.asarray(f(T_, arr.copy(), api_, gg_, R_), dtype=float)
                shuffled = pd.Series(arr).sample(frac=1.0, random_state=1).reset_index(drop=True)
                series = [("Series, default index", pd.Series(arr.copy())), ("Series with labels 7..", pd.Series(arr.copy(), index=np.arange(7, 7 + len(arr)))),
                          ("Series from shuffled rows, sort_values (permuted labels)", shuffled.sort_values(ascending=(order == "ascending")))]
                for label, s_ in series:
                    inp = {"function": fname, "T": T_, "api": api_, "gg": gg_, "R": R_, "pressures": arr.tolist(), "held as": label}
                    try:
                        if not np.array_equal(np.asarray(s_, dtype=float), arr):
                            continue  # (sort_values of tied values could reorder: not the same sequence)
                        got = np.asarray(f(T_, s_, api_, gg_, R_), dtype=float)
                    except Exception as e:  # noqa: BLE001
                        B.case("container.series", (fname, T_, order, label, "call"), False, input=inp, observed=f"{type(e).__name__}: {e}", required="the values for the same pressures held as an ndarray")
                        continue
                    _cmp(B, "container.series", (fname, T_, order, label), got, ref, inp, "values")


def run_irrelevant_column(B):
    """C15: from_table BUILDS the multiphase pseudopressure; the (required but unused) pseudopressure column of the PVT table
    may hold anything - zeros, the pressure itself, a genuine single-phase pseudopressure starting at 0 - without changing the result"""
    mod = __import__("bluebonnet.flow.flowproperties", fromlist=["x"])
    pv, kr_t, rho = two_phase_inputs()
    P = pv["pressure"]
    cols = {"as supplied": pv["pseudopressure"], "zeros": 0 * P, "starts at 0 and increases (single-phase style: cumulative 2p/(mu z))": np.concatenate([[0.0], np.cumsum(np.diff(P) * (P[1:] + P[:-1]) / 0.02)]),
            "negative first row": P - P[5], "decreasing": P[::-1].copy()}
    import pandas as pd
    for p_i in (float(P[44]), 6000.0):
        ref = None
        for label, col in cols.items():
            tb = pd.DataFrame(dict(pv, pseudopressure=col))
            inp = {"PVT table": "synthetic linear 1/B, 60 rows", "pseudopressure column of the input table": label, "p_i": p_i}
            try:
                with warnings.catch_warnings(), np.errstate(all="ignore"):
                    warnings.simplefilter("ignore")
                    fp = mod.FlowPropertiesTwoPhase.from_table(tb, pd.DataFrame(kr_t), dict(rho), 0.1, 0.1, p_i)
                    rec = {"m_i": float(fp.m_i), "m-scaled column": np.asarray(fp.pvt_props["m-scaled"], dtype=float), "alpha column": np.asarray(fp.pvt_props["alpha"], dtype=float)}
            except Exception as e:  # noqa: BLE001
                B.case("container.irrelevant_column", (label, p_i, "construct"), False, input=inp, observed=f"{type(e).__name__}: {e}", required="the wrapper of the same table")
                continue
            if ref is None:
                ref = rec
                continue
            for what in rec:
                _cmp(B, "container.irrelevant_column", (label, p_i), rec[what], ref[what], inp, what)


def run(which):
    B = Bounded("container independence (pandas label alignment is outside the array model): tables as dict / DataFrame with default, offset, pressure and permuted row labels; pressures as ndarray / Series with default, offset and permuted labels; "
                "agreement with the dict-of-arrays / ndarray result to rtol 1e-12")
    for w_ in which:
        {"flowproperties": run_flowproperties, "from_table": run_from_table, "series": run_series, "irrelevant_column": run_irrelevant_column}[w_](B)
    return B.result()
