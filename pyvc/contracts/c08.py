"""C08  All pseudopressure routes agree and are strictly increasing in pressure.

  integrand.quad / .table / .standalone   the three routes integrate the same function 2p/(mu(p) Z(p)) of the same correlations
  table.equals_standalone                 build_pvt_gas()['pseudopressure'] == fluids.pseudopressure(p, mu, Z) (same trapezoid, factor 2 by linearity)
  trapz.zero_increasing                   first entry 0; increments positive for positive entries and increasing pressure;
                                          additivity m_k - m_j = sum of the increments is the recurrence of the model itself
  quad.limits                             the quadrature runs from pressure_standard to pressure (zero at the reference, additive, sign)
  integrand.positive                      2p/(mu Z) > 0 on the box (so every route is strictly increasing)
Agreement of quadrature and 10-psi trapezoid to quadrature accuracy: BOUNDED run-time contract.
"""
from __future__ import annotations

from .. import backends as be
from .. import term as tm
from ..symex import ArrV, TableV
from . import c07
from .common import *  # noqa: F403

LEVEL = "other"
EXPLANATION = ("proved: the three routes integrate the same term 2p/(mu Z) (CAS on the integrand extracted from the quad closure, from the column handed to cumulative_trapezoid and from the stand-alone transform), the table column equals the stand-alone transform of its own columns, "
               "trapezoid increments are positive, quadrature limits are (pressure_standard, pressure), the integrand is positive on the box (INT). The numerical agreement of adaptive quadrature and the 10-psi trapezoid 'to quadrature accuracy' is an error bound no prover here derives: BOUNDED run-time contract.")
TRUSTED = ["scipy.integrate.quad idealised (exact integral): zero over an empty interval, additive over adjacent intervals, monotone for a positive integrand", "scipy cumulative_trapezoid model", "Z in (0.05, 5) (C06), viscosity > 0 (C07)"]
ASSUMPTIONS = ["quadrature-versus-trapezoid accuracy is a bounded clause"]

T, p, Tpc, Ppc, g, pstd = sym_args(["T", "p", "Tpc", "Ppc", "g", "pstd"])
N2, H2S, CO2, maxp = sym_args(["N2", "H2S", "CO2", "maxp"])
n = tm.var("n", tm.I)
k = tm.var("k", tm.I)
HU = GAS + "pseudopressure_Hussainy"
BP = FLUID + "build_pvt_gas"
SP = FLUID + "pseudopressure"


def setup(ctx):
    ctx.engine.opaque[GAS + "z_factor_DAK"] = lambda ex, a, kw: tm.app("Z_DAK", a)


def target(ctx, x):
    mu = one_path(ctx, GAS + "viscosity_Sutton", [T, x, Tpc, Ppc, g]).value
    return 2 * x / (mu * tm.app("Z_DAK", [T, x, Tpc, Ppc]))


def replay_routes(w):
    import numpy as np
    gasm = __import__("bluebonnet.fluids.gas", fromlist=["x"])
    fl = __import__("bluebonnet.fluids.fluid", fromlist=["x"])
    gv = {"N2": 0.01, "H2S": 0.0, "CO2": 0.02, "Gas Specific Gravity": 0.7, "Reservoir Temperature (deg F)": 200.0}
    df = fl.build_pvt_gas(gv, "wet gas", 3000.0)
    Tc, Pc = gasm.pseudocritical_point_Sutton(0.7, gasm.make_nonhydrocarbon_properties(0.01, 0.0, 0.02), "wet gas")
    P = np.asarray(df["pressure"], dtype=float)
    m_tab = np.asarray(df["pseudopressure"], dtype=float)
    m_sa = np.asarray(fl.pseudopressure(P, np.asarray(df["viscosity"]), np.asarray(df["z-factor"])), dtype=float)
    if not np.allclose(m_tab, m_sa, rtol=1e-12, atol=1e-6):
        kk = int(np.argmax(~np.isclose(m_tab, m_sa, rtol=1e-12, atol=1e-6)))
        return {"reproduced": True, "input": {"gas": gv, "row": kk}, "observed": {"table": float(m_tab[kk]), "standalone": float(m_sa[kk])}, "required": "equal"}
    # uneven table through the stand-alone transform against an independent trapezoid
    Pu = np.concatenate([np.arange(10.0, 1000.0, 5.0), np.arange(1000.0, 3000.0, 20.0)])
    mu = np.array([gasm.viscosity_Sutton(200.0, x, Tc, Pc, 0.7) for x in Pu])
    zz = np.array([gasm.z_factor_DAK(200.0, x, Tc, Pc) for x in Pu])
    f = 2 * Pu / (mu * zz)
    want = np.concatenate([[0.0], np.cumsum(np.diff(Pu) * (f[1:] + f[:-1]) / 2)])
    got = np.asarray(fl.pseudopressure(Pu, mu, zz), dtype=float)
    if not np.allclose(got, want, rtol=1e-12):
        kk = int(np.argmax(~np.isclose(got, want, rtol=1e-12)))
        return {"reproduced": True, "input": {"table": "5-psi rows below 1000 psi, 20-psi rows above", "row": kk}, "observed": float(got[kk]), "required": float(want[kk])}
    # quadrature: reference, sign, additivity
    mq = lambda x, ps=14.7: gasm.pseudopressure_Hussainy(200.0, x, Tc, Pc, 0.7, ps)
    checks = [("m(p_std) == 0", abs(mq(14.7)), 0.0, 1e-9), ("m(10) < 0 for p below the reference", 1.0 if mq(10.0) < 0 else 0.0, 1.0, 0),
              ("m(500; ref 2000) < 0", 1.0 if mq(500.0, 2000.0) < 0 else 0.0, 1.0, 0),
              ("additivity 500->2000->3500", mq(3500.0, 500.0), mq(2000.0, 500.0) + mq(3500.0, 2000.0), 1e-7),
              ("quad difference vs table difference", mq(2000.0) - mq(1000.0), float(np.interp(2000.0, P, m_tab) - np.interp(1000.0, P, m_tab)), 1e-4)]
    for name, a, b_, tol in checks:
        if abs(a - b_) > tol * max(1.0, abs(b_)):
            return {"reproduced": True, "input": {"check": name, "gas": gv}, "observed": a, "required": b_}
    return {"reproduced": False}


def build(ctx):
    setup(ctx)
    obs = []
    GB = dict(GAS_BOX, x=(10.0, 14000.0), pstd=(14.0, 15.0))

    def quad_info():
        o = one_path(ctx, HU, [T, p, Tpc, Ppc, g, pstd])
        integ = o.heap["ghost"].get("integrals", [])
        return o, integ

    def integrand_quad():
        o, integ = quad_info()
        if len(integ) != 1:
            return be.Verdict(be.REFUTED, "CAS", witness={}, detail=f"{len(integ)} quadrature calls")
        x = tm.var("x")
        body = tm.subst(integ[0]["integrand"], {integ[0]["var"]: x})
        return with_models(be.prove_equal_cas(body, target(ctx, x), GB, seed=ctx.seed, npoints=6), o)

    obs.append(Obligation("integrand.quad", "pseudopressure_Hussainy integrates 2 x / (viscosity_Sutton(T, x, …) * Z(T, x, …))", integrand_quad, [HU, GAS + "viscosity_Sutton"], "CAS", replay_routes))

    def quad_limits():
        o, integ = quad_info()
        if len(integ) != 1:
            return be.Verdict(be.REFUTED, "STRUCT", witness={}, detail=f"{len(integ)} quadrature calls")
        q = integ[0]
        if q["a"] is not pstd or q["b"] is not p:
            return be.Verdict(be.REFUTED, "STRUCT", witness={"p": 10.0, "pstd": 14.7}, detail=f"quadrature limits are ({q['a']}, {q['b']}), not (pressure_standard, pressure)")
        if o.value is not tm.app(q["name"], (q["a"], q["b"])):
            return be.Verdict(be.REFUTED, "STRUCT", witness={}, detail="the function does not return the integral itself")
        return with_models(be.Verdict(be.PROVED, "STRUCT", detail="returns the integral from pressure_standard to pressure"), o)

    def quad_default_reference():
        o = one_path(ctx, HU, [T, p, Tpc, Ppc, g])
        integ = o.heap["ghost"].get("integrals", [])
        if len(integ) != 1:
            return be.Verdict(be.REFUTED, "STRUCT", witness={}, detail=f"{len(integ)} quadrature calls")
        a = integ[0]["a"]
        if not (tm.is_const(a) and tm.cval(a) == tm.cval(tm.rconst("14.7"))):
            return be.Verdict(be.REFUTED, "STRUCT", witness={}, detail=f"with the reference pressure omitted the integral starts at {a}, not at the library's standard pressure 14.7 psia")
        return with_models(be.Verdict(be.PROVED, "STRUCT", detail="default reference pressure 14.7 psia"), o)

    def quad_default_replay(w):
        f = real(HU)
        a, b = f(200.0, 14.7, -72.0, 650.0, 0.7), f(200.0, 14.7, -72.0, 650.0, 0.7, 14.7)
        return {"reproduced": not (a == 0 and b == 0), "input": {"T": 200.0, "p": 14.7, "Tpc": -72.0, "Ppc": 650.0, "g": 0.7}, "observed": [float(a), float(b)], "required": [0.0, 0.0]}

    obs.append(Obligation("quad.default_reference", "pseudopressure_Hussainy with pressure_standard omitted integrates from 14.7 psia (zero at the library's standard pressure)", quad_default_reference, [HU], "STRUCT", quad_default_replay))

    obs.append(Obligation("quad.limits", "pseudopressure_Hussainy returns the integral from pressure_standard to pressure (zero at the reference, additive over adjacent intervals, negative below the reference)", quad_limits, [HU], "STRUCT", replay_routes))

    def run_table(dry="wet gas"):
        # the gas correlations are opaque here: C08 is about what is integrated, C19 (pvt.rows) about what the columns are
        saved = dict(ctx.engine.opaque)
        for nm in ("density_DAK", "viscosity_Sutton", "compressibility_DAK"):
            ctx.engine.opaque[GAS + nm] = (lambda ex, a, kw, nm=nm: tm.app(nm, a))
        ctx.engine.opaque[GAS + "pseudocritical_point_Sutton"] = lambda ex, a, kw: (tm.var("Tc"), tm.var("Pc"))
        try:
            return _run_table(dry)
        finally:
            ctx.engine.opaque.clear()
            ctx.engine.opaque.update(saved)

    def _run_table(dry):
        gv = {"N2": N2, "H2S": H2S, "CO2": CO2, "Gas Specific Gravity": g, "Reservoir Temperature (deg F)": T}
        outs = ctx.engine.run_paths(ctx.engine.func(BP), lambda: ([dict(gv), dry, maxp], {}), pc=[tm.gt(maxp, tm.rconst(20))])
        rets = [o for o in outs if o.kind == "return"]
        if len(rets) != 1:
            raise sx.OutOfSubset("build_pvt_gas: no unique returning path")
        return rets[0]

    def table_factor(stored, atom):
        """c with stored == c * atom (c a numeric constant), else None"""
        if stored is atom:
            return tm.rconst(1)
        if stored.op == "*" and atom in stored.args:
            rest = [a_ for a_ in stored.args if a_ is not atom]
            if all(tm.is_const(a_) for a_ in rest):
                c_ = tm.rconst(1)
                for a_ in rest:
                    c_ = tm.mul(c_, a_)
                return c_
        return None

    def integrand_table():
        o = run_table()
        reg = o.heap["ghost"].get("cumtrapz", {})
        if len(reg) != 1:
            return be.Verdict(be.REFUTED, "CAS", witness={}, detail=f"{len(reg)} cumulative_trapezoid calls in build_pvt_gas")
        q = list(reg.values())[0]
        tb = o.value
        pk = tb.cols["pressure"].get(k)
        if q["x"] is None or q["x"]((k,)) is not pk:
            return be.Verdict(be.REFUTED, "CAS", witness={}, detail="the table does not integrate over its pressure column")
        # the column stored is 2 * ctz; integrand 2*y[k] must be 2 p_k/(mu_k Z_k) with the table's own columns
        name = list(reg)[0]
        stored = tb.cols["pseudopressure"].get(k)
        c_ = table_factor(stored, tm.app(name, [k]))
        if c_ is None:
            return be.Verdict(be.REFUTED, "CAS", witness={}, detail=f"pseudopressure column is not a constant multiple of the cumulative trapezoid: {stored}")
        muk, zk = tb.cols["viscosity"].get(k), tb.cols["z-factor"].get(k)
        want = 2 * pk / (muk * zk)
        # the trapezoid rule is linear: c * ctz(y) is the cumulative trapezoid of c * y
        v = be.prove_equal_cas(tm.mul(c_, q["y"]((k,))), want, dict(GAS_BOX, Tc=(-100.0, 50.0), Pc=(550.0, 800.0), maxp=(100.0, 14000.0), k=(0, 500)), seed=ctx.seed, ints=("k",), npoints=5)
        return with_models(v, o)

    obs.append(Obligation("integrand.table", "build_pvt_gas: pseudopressure == c * cumulative_trapezoid(y, p) with c * y == 2p/(viscosity*z-factor) of the table's own columns (which are the stand-alone correlations: C19 pvt.rows)", integrand_table, [BP], "CAS", replay_routes))

    def run_standalone():
        def mk():
            P = ArrV((n,), lambda i: tm.app("P", i), "f8", name="P")
            MU = ArrV((n,), lambda i: tm.app("MU", i), "f8", name="MU")
            ZZ = ArrV((n,), lambda i: tm.app("ZZ", i), "f8", name="ZZ")
            return [P, MU, ZZ], {}
        outs = ctx.engine.run_paths(ctx.engine.func(SP), mk, pc=[tm.ge(n, tm.const(2))])
        if len(outs) != 1 or outs[0].kind != "return":
            raise sx.OutOfSubset("fluids.pseudopressure: no unique returning path")
        return outs[0]

    def integrand_standalone():
        o = run_standalone()
        reg = o.heap["ghost"].get("cumtrapz", {})
        name = getattr(o.value, "cumtrapz", None)
        if name is None or name not in reg:
            return be.Verdict(be.REFUTED, "CAS", witness={}, detail="result is not a cumulative trapezoid")
        q = reg[name]
        P = lambda i: tm.app("P", [i])
        if q["x"] is None or q["x"]((k,)) is not P(k):
            return be.Verdict(be.REFUTED, "CAS", witness={}, detail="the transform does not integrate over the given pressure array (e.g. assumes even spacing)")
        want = 2 * P(k) / (tm.app("MU", [k]) * tm.app("ZZ", [k]))
        v = be.prove_equal_cas(q["y"]((k,)), want, {"k": (0, 100)}, seed=ctx.seed, ints=("k",), npoints=5)
        if v.status == be.PROVED:
            spec_inc = (P(k) - P(k - 1)) * (want + tm.subst(want, {k: k - 1})) / 2
            v = be.prove_equal_cas(q["inc"](k), spec_inc, {"k": (1, 100)}, seed=ctx.seed, ints=("k",), npoints=5)
        return with_models(v, o)

    obs.append(Obligation("integrand.standalone", "fluids.pseudopressure(p, mu, Z) is the cumulative trapezoid of 2p/(mu Z) over the given pressure array (any spacing)", integrand_standalone, [SP], "CAS", replay_routes))

    def equals_standalone():
        o = run_table()
        s_ = run_standalone()
        regt, regs = o.heap["ghost"]["cumtrapz"], s_.heap["ghost"]["cumtrapz"]
        qt, qs = list(regt.values())[0], list(regs.values())[0]
        tb = o.value
        # substitute the table's columns for the stand-alone inputs
        sub = {}
        inc_s = qs["inc"](k)
        for nd in tm.postorder(inc_s):
            if nd.op == "app" and nd.args[0] in ("P", "MU", "ZZ"):
                colname = {"P": "pressure", "MU": "viscosity", "ZZ": "z-factor"}[nd.args[0]]
                sub[nd] = tb.cols[colname].get(nd.args[1])
        namet = list(regt)[0]
        c_ = table_factor(tb.cols["pseudopressure"].get(k), tm.app(namet, [k]))
        if c_ is None:
            return be.Verdict(be.REFUTED, "CAS", witness={}, detail="pseudopressure column is not a constant multiple of the cumulative trapezoid")
        lhs = tm.mul(c_, qt["inc"](k))
        rhs = tm.subst(inc_s, sub)
        v = be.prove_equal_cas(lhs, rhs, dict(GAS_BOX, Tc=(-100.0, 50.0), Pc=(550.0, 800.0), maxp=(100.0, 14000.0), k=(1, 500)), seed=ctx.seed, ints=("k",), npoints=5)
        return with_models(v, o, s_)

    obs.append(Obligation("table.equals_standalone", "every increment of build_pvt_gas()['pseudopressure'] equals the increment of fluids.pseudopressure applied to the table's own pressure, viscosity and z-factor columns (both start at 0)", equals_standalone, [BP, SP], "CAS", replay_routes))

    def trapz_increasing():
        s_ = run_standalone()
        qs = list(s_.heap["ghost"]["cumtrapz"].values())[0]
        lam_ = lambda i: tm.app("f", [i])
        inc = qs["inc_with"](k, lam_)
        P = lambda i: tm.app("P", [i])
        v = be.prove_smt(tm.gt(inc, tm.rconst(0)), [tm.gt(lam_(k), tm.rconst(0)), tm.gt(lam_(k - 1), tm.rconst(0)), tm.gt(P(k), P(k - 1))])
        if v.status != be.PROVED:
            return with_models(v, s_)
        zero = [f for f in s_.facts if f.op == "==" ]
        if not any(f.args[1] is tm.rconst(0) or f.args[0] is tm.rconst(0) for f in zero):
            return be.Verdict(be.REFUTED, "SMT", witness={}, detail="first entry is not 0")
        return with_models(v, s_)

    obs.append(Obligation("trapz.zero_increasing", "cumulative trapezoid: first entry 0 and every increment positive for positive integrand values and increasing pressure (additivity is the defining recurrence)", trapz_increasing, [SP], "SMT", replay_routes))

    def integrand_pos():
        c07.setup(ctx)
        o = one_path(ctx, GAS + "viscosity_Sutton", [T, p, Tpc, Ppc, g])
        u = tm.var("u")
        t = tm.subst(o.value, {tm.app("Z_DAK", [T, p, Tpc, Ppc]): tm.div(p, u)})
        t2 = tm.subst(t, {p: tm.rconst(1000)})
        r459 = tm.rconst("459.67")
        hyp = tm.land(tm.le(tm.rconst("1.05"), (T + r459) / (Tpc + r459)), tm.le((T + r459) / (Tpc + r459), tm.rconst(3)))
        VB = {"T": GAS_BOX["T"], "Tpc": GAS_BOX["Tpc"], "Ppc": GAS_BOX["Ppc"], "g": GAS_BOX["g"], "u": (2.0, 280000.0)}
        v = be.prove_int(t2, VB, mode=">0", hyp=hyp, max_boxes=100000)  # viscosity > 0 (u = p/Z)
        if v.status != be.PROVED:
            return with_models(v, o)
        mu_, z_, x = tm.var("mu"), tm.var("z"), tm.var("x")
        v2 = be.prove_smt(tm.gt(2 * x / (mu_ * z_), tm.rconst(0)), [tm.gt(mu_, tm.rconst(0)), tm.gt(z_, tm.rconst(0)), tm.gt(x, tm.rconst(0))])
        return with_models(v2 if v2.status != be.PROVED else v, o)

    obs.append(Obligation("integrand.positive", "viscosity > 0 on the box (INT), Z > 0 (C06), p > 0 => 2p/(mu Z) > 0: every route is strictly increasing in pressure", integrand_pos, [GAS + "viscosity_Sutton"], "INT+SMT", replay_routes))

    def canary():
        o, integ = quad_info()
        x = tm.var("x")
        body = tm.subst(integ[0]["integrand"], {integ[0]["var"]: x})
        mu = one_path(ctx, GAS + "viscosity_Sutton", [T, x, Tpc, Ppc, g]).value
        return be.prove_equal_cas(body, 2 * x / (mu * tm.app("Z_DAK", [T, x, Tpc, Ppc]) ** tm.rconst("1.001")), GB, seed=ctx.seed, npoints=6)

    obs.append(Obligation("canary.cas", "CANARY (must be refuted): the quadrature integrand uses Z**1.001", canary, [HU], "CAS", expect=be.REFUTED))
    # ---------------- the tabulating route integrates THE SAME gas: every column of build_pvt_gas is the stand-alone
    # correlation at the Sutton point of the supplied composition (C19 pvt.rows / pvt.grid, run on an engine of their own)
    from . import c19
    from ..oblig import Ctx
    ctx19 = Ctx("C08", ctx.tier, ctx.seed)
    c19obs = {o.id: o for o in c19.build(ctx19)}
    for oid in ("pvt.rows", "pvt.grid", "pvt.pure", "sutton.frame"):
        src = c19obs[oid]
        obs.append(Obligation("dep." + oid, "[contract relied upon, C19] " + src.statement + " (so the table route and the quadrature route integrate the same mu(p) Z(p))", src.run, src.functions, src.backend, src.replay))
    return obs


def bounded(ctx):
    try:
        from ..rt import c08 as rt
    except ImportError:
        return {"family": "bounded layer not built yet", "evaluations": 0, "distinct": 0, "violations": []}
    return rt.run(ctx)
